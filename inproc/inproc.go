// Package inproc runs goag (linked from the current /repo tree) in-process on a spec
// and inspects what it wrote with go/parser, go/format and go/types.
package inproc

import (
	"bytes"
	"fmt"
	"go/ast"
	"go/constant"
	"go/format"
	"go/importer"
	"go/parser"
	"go/token"
	"go/types"
	"io"
	"log"
	"os"
	"path/filepath"
	"runtime/debug"
	"sort"
	"strings"

	"github.com/getkin/kin-openapi/openapi3"
	"github.com/vkd/goag"
	"github.com/vkd/goag/generator"
)

func init() {
	// goag reports goimports failures only through the std logger.
	log.SetOutput(io.Discard)
}

// Config is one point of the configuration space of DESIGN.md §3.7.
type Config struct {
	Client          bool   `json:"client"`
	DoNotEdit       bool   `json:"donotedit"`
	Cors            bool   `json:"cors"`
	BasePath        string `json:"basepath,omitempty"` // --basepath flag ("" = from servers)
	SpecHandlerName string `json:"spec_handler_name,omitempty"`
	Package         string `json:"package,omitempty"`
	NoAPIHandler    bool   `json:"no_api_handler,omitempty"`
	SpecFilename    string `json:"spec_filename,omitempty"` // default openapi.json
	// customTypes.ignore in .goag.yaml: the dialect has no custom types, so the switch
	// must not change anything
	CustomTypesIgnore bool `json:"custom_types_ignore,omitempty"`
}

func (c Config) Pkg() string {
	if c.Package == "" {
		return "gen"
	}
	return c.Package
}

func (c Config) SpecName() string {
	if c.SpecFilename == "" {
		return "openapi.json"
	}
	return c.SpecFilename
}

// ServedSpecName is the last segment of the spec-file route.
func (c Config) ServedSpecName() string {
	if c.SpecHandlerName != "" {
		return c.SpecHandlerName
	}
	return c.SpecName()
}

func (c Config) GoagYAML() []byte {
	var y []byte
	if c.Cors {
		y = append(y, "cors:\n  enable: true\n"...)
	}
	if c.CustomTypesIgnore {
		y = append(y, "customTypes:\n  ignore: true\n"...)
	}
	return y
}

// CLIArgs gives the command line equivalent to Generate with this config.
func (c Config) CLIArgs(specFile, cfgFile, outDir string) []string {
	args := []string{"--file", specFile, "--out", outDir, "--package", c.Pkg(), "--config", cfgFile,
		fmt.Sprintf("--client=%v", c.Client), fmt.Sprintf("--donotedit=%v", c.DoNotEdit),
		fmt.Sprintf("--api-handler=%v", !c.NoAPIHandler), "--spec-handler-name", c.SpecHandlerName}
	if c.BasePath != "" {
		args = append(args, "--basepath", c.BasePath)
	}
	return args
}

type Outcome struct {
	Err      error  // error returned by goag (nil = success)
	Panic    string // non-empty: goag panicked (value + stack)
	SpecFile string
}

// Generate writes the spec and config into workDir and runs goag exactly as the CLI
// does (GenerateFile: read file, kin loader, LoadConfig, Generate) into outDir.
func Generate(spec []byte, cfg Config, workDir, outDir string) (out Outcome) {
	specFile := filepath.Join(workDir, cfg.SpecName())
	cfgFile := filepath.Join(workDir, ".goag.yaml")
	if err := os.WriteFile(specFile, spec, 0o644); err != nil {
		panic(err)
	}
	os.Remove(cfgFile)
	if y := cfg.GoagYAML(); y != nil {
		if err := os.WriteFile(cfgFile, y, 0o644); err != nil {
			panic(err)
		}
	}
	out.SpecFile = specFile
	defer func() {
		if r := recover(); r != nil {
			out.Panic = fmt.Sprintf("%v\n%s", r, debug.Stack())
		}
	}()
	g := goag.Generator{GenClient: cfg.Client, GenAPIHandler: !cfg.NoAPIHandler, DoNotEdit: cfg.DoNotEdit}
	out.Err = g.GenerateFile(outDir, cfg.Pkg(), specFile, cfg.BasePath, cfgFile, cfg.SpecHandlerName)
	return out
}

// Problem is one way a written package falls short of C01.
type Problem struct {
	Kind string // parse | gofmt | types | import | fileset
	File string
	Msg  string
}

func (p Problem) String() string { return p.Kind + " " + p.File + ": " + p.Msg }

type Checker struct {
	fset *token.FileSet
	imp  types.Importer
}

func NewChecker() *Checker {
	fset := token.NewFileSet()
	return &Checker{fset: fset, imp: importer.ForCompiler(fset, "source", nil)}
}

type stdOnly struct{ types.Importer }

func (s stdOnly) Import(path string) (*types.Package, error) {
	if first := strings.SplitN(path, "/", 2)[0]; strings.Contains(first, ".") {
		return nil, fmt.Errorf("import %q is outside the standard library", path)
	}
	return s.Importer.Import(path)
}

type Package struct {
	Files map[string][]byte
	Types *types.Package
	Info  *types.Info
	Fset  *token.FileSet
	Syn   []*ast.File
}

// GoFiles lists the *.go files in dir (names only, sorted).
func GoFiles(dir string) []string {
	es, _ := os.ReadDir(dir)
	var out []string
	for _, e := range es {
		if !e.IsDir() && strings.HasSuffix(e.Name(), ".go") {
			out = append(out, e.Name())
		}
	}
	sort.Strings(out)
	return out
}

// Check parses, gofmt-checks and type-checks all .go files in dir as one package
// against the standard library alone. maxProblems bounds the list.
func (c *Checker) Check(dir string) (*Package, []Problem) {
	var probs []Problem
	pkg := &Package{Files: map[string][]byte{}, Fset: token.NewFileSet()}
	// a fresh FileSet for this package's files keeps memory flat across thousands of
	// checks; the importer keeps its own for the std packages.
	for _, name := range GoFiles(dir) {
		bs, err := os.ReadFile(filepath.Join(dir, name))
		if err != nil {
			probs = append(probs, Problem{"fileset", name, err.Error()})
			continue
		}
		pkg.Files[name] = bs
		f, err := parser.ParseFile(pkg.Fset, name, bs, parser.ParseComments|parser.SkipObjectResolution)
		if err != nil {
			probs = append(probs, Problem{"parse", name, firstLine(err.Error())})
			continue
		}
		pkg.Syn = append(pkg.Syn, f)
		fm, err := format.Source(bs)
		if err != nil {
			probs = append(probs, Problem{"gofmt", name, firstLine(err.Error())})
		} else if !bytes.Equal(fm, bs) {
			probs = append(probs, Problem{"gofmt", name, "not a fixed point of gofmt: " + firstDiff(bs, fm)})
		}
	}
	if len(probs) > 0 {
		return pkg, probs
	}
	if len(pkg.Syn) == 0 {
		return pkg, nil
	}
	var terrs []error
	conf := types.Config{
		Importer: stdOnly{c.imp},
		Error:    func(err error) { terrs = append(terrs, err) },
	}
	info := &types.Info{Defs: map[*ast.Ident]types.Object{}, Types: map[ast.Expr]types.TypeAndValue{}}
	tp, _ := conf.Check(pkg.Syn[0].Name.Name, pkg.Fset, pkg.Syn, info)
	pkg.Types, pkg.Info = tp, info
	for i, e := range terrs {
		if i >= 5 {
			break
		}
		kind := "types"
		if strings.Contains(e.Error(), "outside the standard library") {
			kind = "import"
		}
		file := ""
		if te, ok := e.(types.Error); ok {
			file = pkg.Fset.Position(te.Pos).Filename
			probs = append(probs, Problem{kind, file, te.Msg})
		} else {
			probs = append(probs, Problem{kind, file, e.Error()})
		}
	}
	return pkg, probs
}

// ConstString returns the value of a package-level string constant.
func (p *Package) ConstString(name string) (string, bool) {
	if p.Types == nil {
		return "", false
	}
	obj := p.Types.Scope().Lookup(name)
	c, ok := obj.(*types.Const)
	if !ok || c.Val().Kind() != constant.String {
		return "", false
	}
	return constant.StringVal(c.Val()), true
}

func firstLine(s string) string {
	if i := strings.IndexByte(s, '\n'); i >= 0 {
		return s[:i]
	}
	return s
}

func firstDiff(a, b []byte) string {
	la, lb := strings.Split(string(a), "\n"), strings.Split(string(b), "\n")
	for i := 0; i < len(la) && i < len(lb); i++ {
		if la[i] != lb[i] {
			return fmt.Sprintf("line %d: %q vs %q", i+1, la[i], lb[i])
		}
	}
	return fmt.Sprintf("line count %d vs %d", len(la), len(lb))
}

// GenerateRaw pairs a fixed valid document with arbitrary spec-file bytes: goag's
// Generate takes the raw bytes separately from the parsed document.
func GenerateRaw(validSpec []byte, raw []byte, cfg Config, outDir string) (out Outcome) {
	defer func() {
		if r := recover(); r != nil {
			out.Panic = fmt.Sprintf("%v\n%s", r, debug.Stack())
		}
	}()
	sw, err := openapi3.NewSwaggerLoader().LoadSwaggerFromData(validSpec)
	if err != nil {
		out.Err = err
		return out
	}
	var gcfg generator.Config
	gcfg.Cors.Enable = cfg.Cors
	g := goag.Generator{GenClient: cfg.Client, GenAPIHandler: !cfg.NoAPIHandler, DoNotEdit: cfg.DoNotEdit}
	out.Err = g.Generate(sw, outDir, cfg.Pkg(), raw, cfg.ServedSpecName(), cfg.BasePath, gcfg)
	return out
}

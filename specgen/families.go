package specgen

import (
	"encoding/json"
	"fmt"
	"sort"
	"strings"

	"pgregory.net/rapid"
)

// Family generators (DESIGN.md §5.2). Each returns a document drawn with rapid
// only; labels describing it are left in Ctx.Tags.

type CompOpts struct {
	MaxTemplates  int
	MaxDepth      int
	Params        bool
	Bodies        bool
	RichResponses bool
	Security      bool
	Texts         bool
	TypedPathVars bool
	Methods       []string
	OperationIDs  bool
	SchemaDepth   int
	NumSchemas    int
	MinSchemas    int
	AlwaysBody    bool
}

func DefaultCompOpts() CompOpts {
	return CompOpts{MaxTemplates: 5, MaxDepth: 3, Params: true, Bodies: true, RichResponses: true, Security: true, Texts: true,
		TypedPathVars: true, Methods: []string{"GET", "POST", "PUT", "PATCH", "DELETE", "HEAD", "OPTIONS", "TRACE"}, OperationIDs: true, SchemaDepth: 2, NumSchemas: 6}
}

func (c *Ctx) text(label string) string {
	if rapid.IntRange(0, 2).Draw(c.T, label+"_has") != 0 {
		return ""
	}
	ts := rapid.SampledFrom(TextShapes).Draw(c.T, label)
	if !c.Allow("text:" + ts.ID) {
		return "plain text"
	}
	return ts.Text
}

// PathVarPrims are the primitive types used for typed path variables.
var PathVarPrims = []Prim{Prims[0], Prims[0], Prims[6], Prims[7], Prims[8], Prims[9], Prims[10], Prims[12], Prims[1], Prims[2], Prims[5], Prims[3], Prims[11]}

// Composition draws a whole document from D_core.
func (c *Ctx) Composition(o CompOpts) *Doc {
	t := c.T
	d := c.Doc
	// component schemas
	ns := rapid.IntRange(o.MinSchemas, max(o.NumSchemas, o.MinSchemas)).Draw(t, "nschemas")
	for i := 0; i < ns; i++ {
		name := c.CompName("Sch", "schema")
		s := c.Schema(o.SchemaDepth, "component")
		if o.Texts {
			if s.Ref == "" {
				s.Description = c.text("schema_desc")
			}
		}
		c.AddSchema(name, s)
	}
	// security schemes
	var schemeNames []string
	if o.Security && rapid.IntRange(0, 2).Draw(t, "has_security") == 0 {
		schemeNames = c.SecuritySchemes(rapid.IntRange(1, 3).Draw(t, "nschemes"), true)
		if rapid.Bool().Draw(t, "global_security") {
			sec := c.securityRequirement(schemeNames)
			d.Security = &sec
		}
	}
	tps := c.Templates(o.MaxTemplates, o.MaxDepth)
	for _, tp := range tps {
		pi := &PathItem{}
		d.Paths[tp.String()] = pi
		nm := rapid.IntRange(1, 3).Draw(t, "nmethods")
		ms := rapid.SliceOfNDistinct(rapid.SampledFrom(o.Methods), nm, nm, rapid.ID[string]).Draw(t, "methods")
		// path variables: declared either at path-item level or per operation
		vars := tp.Vars()
		pathLevel := len(vars) > 0 && rapid.Bool().Draw(t, "path_level_vars")
		mkVars := func() []*Parameter {
			var ps []*Parameter
			for _, v := range vars {
				prim := Prims[0]
				if o.TypedPathVars {
					prim = c.maybeLayout(rapid.SampledFrom(PathVarPrims).Draw(t, "pathvar_prim"), "pathvar_prim")
				}
				ps = append(ps, &Parameter{Name: v, In: "path", Required: true, Schema: prim.Schema()})
			}
			// declaration order is independent of template order
			if len(ps) > 1 && rapid.Bool().Draw(t, "reverse_vars") {
				for i, j := 0, len(ps)-1; i < j; i, j = i+1, j-1 {
					ps[i], ps[j] = ps[j], ps[i]
				}
			}
			return ps
		}
		if pathLevel {
			pi.Parameters = mkVars()
		}
		for _, m := range ms {
			op := &Operation{Responses: map[string]*Response{}}
			pi.SetOp(m, op)
			if !pathLevel {
				op.Parameters = mkVars()
			}
			if o.OperationIDs && rapid.IntRange(0, 2).Draw(t, "has_opid") == 0 {
				op.OperationID = c.PlainName("op", "opid")
			}
			if o.Texts {
				op.Description = c.text("op_desc")
				op.Summary = c.text("op_summary")
			}
			if o.Params {
				np := rapid.IntRange(0, 3).Draw(t, "nparams")
				for i := 0; i < np; i++ {
					in := rapid.SampledFrom([]string{"query", "query", "header"}).Draw(t, "param_in")
					prefix := "q"
					if in == "header" {
						prefix = "X-H"
					}
					p := c.Param(in, c.SafeName(prefix, "pname"), rapid.Bool().Draw(t, "param_required"))
					op.Parameters = append(op.Parameters, p)
				}
			}
			if o.Bodies && m != "GET" && m != "HEAD" && (o.AlwaysBody || rapid.Bool().Draw(t, "has_body")) {
				op.RequestBody = c.RequestBody()
			}
			c.Responses(op, o.RichResponses)
			if len(schemeNames) > 0 && rapid.IntRange(0, 2).Draw(t, "op_security") == 0 {
				if rapid.IntRange(0, 3).Draw(t, "op_public") == 0 {
					op.Security = &[]map[string][]string{}
				} else {
					sec := c.securityRequirement(schemeNames)
					op.Security = &sec
				}
			}
		}
	}
	return d
}

// SecuritySchemes adds n schemes to the document and returns their names.
func (c *Ctx) SecuritySchemes(n int, supportedOnly bool) []string {
	t := c.T
	cs := c.comps()
	if cs.SecuritySchemes == nil {
		cs.SecuritySchemes = map[string]*SecurityScheme{}
	}
	kinds := []string{"bearer", "apikey-header", "apikey-query"}
	if !supportedOnly {
		kinds = append(kinds, "basic", "oauth2", "apikey-cookie", "oidc")
	}
	var names []string
	haveBearer := false
	for i := 0; i < n; i++ {
		k := rapid.SampledFrom(kinds).Draw(t, "scheme_kind")
		name := c.SchemeName("sec", "scheme")
		var s *SecurityScheme
		switch k {
		case "bearer":
			if haveBearer {
				// goag has a single bearer hook; two bearer schemes are the same scheme
				k = "apikey-header"
				s = &SecurityScheme{Type: "apiKey", In: "header", Name: "X-" + strings.Title(c.PlainName("key", "keyname"))}
				break
			}
			haveBearer = true
			// (scheme names are case-insensitive; the IANA registry spells it Bearer)
			s = &SecurityScheme{Type: "http", Scheme: rapid.SampledFrom([]string{"bearer", "bearer", "Bearer", "BEARER"}).Draw(t, "bearer_spelling")}
		case "apikey-header":
			s = &SecurityScheme{Type: "apiKey", In: "header", Name: "X-" + strings.Title(c.PlainName("key", "keyname"))}
		case "apikey-query":
			s = &SecurityScheme{Type: "apiKey", In: "query", Name: c.PlainName("key", "keyname")}
		case "basic":
			s = &SecurityScheme{Type: "http", Scheme: "basic"}
		case "oauth2":
			s = &SecurityScheme{Type: "oauth2", Flows: &OAuthFlows{Implicit: &OAuthFlow{AuthorizationURL: "https://a.example/auth", Scopes: map[string]string{"read": "r"}}}}
		case "apikey-cookie":
			s = &SecurityScheme{Type: "apiKey", In: "cookie", Name: c.PlainName("sid", "keyname")}
		case "oidc":
			s = &SecurityScheme{Type: "openIdConnect", OpenIDConnectURL: "https://a.example/.well-known/openid-configuration"}
		}
		c.Tag("scheme:" + k)
		cs.SecuritySchemes[name] = s
		names = append(names, name)
	}
	return names
}

// SchemeName draws a key for components.securitySchemes in the shapes real documents use:
// camelCase, snake_case, kebab-case, and a key that repeats the header it reads (x-api-key).
func (c *Ctx) SchemeName(prefix, label string) string {
	n := c.PlainName(prefix, label)
	switch rapid.IntRange(0, 5).Draw(c.T, label+"_shape") {
	case 0:
		return "x-" + n
	case 1:
		return "X-" + strings.Title(n)
	case 2:
		return n + "_auth"
	case 3:
		return "api-" + n
	}
	return n
}

// securityRequirement draws 1..2 OR-alternatives of one scheme each.
func (c *Ctx) securityRequirement(names []string) []map[string][]string {
	t := c.T
	n := rapid.IntRange(1, min(3, len(names))).Draw(t, "nalternatives")
	pick := rapid.SliceOfNDistinct(rapid.SampledFrom(names), n, n, rapid.ID[string]).Draw(t, "alternatives")
	var out []map[string][]string
	for _, p := range pick {
		out = append(out, map[string][]string{p: {}})
	}
	return out
}

// RequestBody draws a request body: JSON (inline / component / alias) or raw.
func (c *Ctx) RequestBody() *RequestBody {
	t := c.T
	rb := &RequestBody{Required: rapid.Bool().Draw(t, "body_required")}
	if rapid.IntRange(0, 4).Draw(t, "body_raw") == 0 {
		c.Tag("body:raw")
		// (a media type that merely resembles application/json is a raw body for both sides)
		mt := rapid.SampledFrom([]string{"application/octet-stream", "application/octet-stream", "text/plain", "application/json; charset=utf-8", "Application/JSON", "application/x-ndjson", "application/merge-patch+json"}).Draw(t, "body_raw_media_type")
		rb.Content = map[string]*MediaType{mt: {Schema: &Schema{Type: "string", Format: "binary"}}}
	} else {
		c.Tag("body:json")
		rb.Content = JSONContent(c.BodySchema("reqbody"))
		// further media types beside application/json (sorting before and after it):
		// the JSON one stays the typed body, for inline and for component bodies alike
		if rapid.IntRange(0, 2).Draw(t, "body_extra_media_type") == 0 && c.Allow("body:extra-media-type") {
			mt := rapid.SampledFrom([]string{"application/cbor", "application/csv", "application/atom+xml", "*/*", "application/xml", "text/plain", "multipart/form-data", "application/x-www-form-urlencoded"}).Draw(t, "body_extra_mt")
			rb.Content[mt] = &MediaType{Schema: &Schema{Type: "string", Format: "binary"}}
			c.Tag("body:extra-media-type")
		}
	}
	if rapid.IntRange(0, 2).Draw(t, "body_component") == 0 && c.Allow("request-body-component") {
		cs := c.comps()
		if cs.RequestBodies == nil {
			cs.RequestBodies = map[string]*RequestBody{}
		}
		name := c.CompName("Req", "reqbody")
		cs.RequestBodies[name] = rb
		c.Tag("body:component")
		_, isJSON := rb.Content["application/json"]
		if rapid.IntRange(0, 2).Draw(t, "body_alias") == 0 && (isJSON || c.Allow("request-body-alias:raw")) {
			alias := c.CompName("ReqAlias", "reqalias")
			cs.RequestBodies[alias] = &RequestBody{Ref: RefRequestBodies + name}
			c.Tag("body:alias")
			return &RequestBody{Ref: RefRequestBodies + alias}
		}
		return &RequestBody{Ref: RefRequestBodies + name}
	}
	return rb
}

// BodySchema draws a schema for a JSON body position (request and response).
func (c *Ctx) BodySchema(label string) *Schema {
	for tries := 0; tries < 8; tries++ {
		s := c.Schema(2, "request-body", "response-body", "response-body-default", "request-body-component", "response-body-component")
		// a body that is an array of inline objects is named "Item" without a prefix:
		// two of them in one spec collide (known finding C01-F10)
		if s.Type == "array" && s.Items != nil && s.Items.Ref == "" && (s.Items.Type == "object" || s.Items.Type == "array" || len(s.Items.AllOf)+len(s.Items.OneOf) > 0) && !c.Allow("body:array-of-inline-object") {
			continue
		}
		// an inline body that is a pure map (object without properties) is encoded with
		// the Go field name AdditionalProperties (known finding)
		if s.Ref == "" && s.Type == "object" && len(s.Properties) == 0 && !c.Allow("body:inline-map") {
			continue
		}
		return s
	}
	return &Schema{Type: "string"}
}

// ResponseHeaderSchema draws a primitive or array-of-primitive header schema that is
// admissible at the given matrix position (response-header or component-header).
func (c *Ctx) ResponseHeaderSchema(pos string) *Schema {
	t := c.T
	p := c.paramPrim("rh_prim")
	s := p.Schema()
	c.Tag("rheader:" + p.Name)
	if !c.Lean && rapid.IntRange(0, 3).Draw(t, "rh_ref") == 0 && c.AllowSchema(s, "component") {
		r := c.AddSchema(c.CompName("Hdr", "rh"), s)
		if c.AllowSchema(r, pos) {
			s = r
		}
	}
	if rapid.IntRange(0, 2).Draw(t, "rh_array") == 0 && p.Layout() != "time.RFC1123Z" {
		a := &Schema{Type: "array", Items: s}
		if c.AllowSchema(a, pos) {
			c.Tag("rheader:array")
			return a
		}
	}
	return s
}

// Response draws one response object (not a $ref).
func (c *Ctx) Response(rich bool) *Response {
	t := c.T
	r := &Response{Description: Str(c.text("resp_desc"))}
	if !rich {
		return r
	}
	switch rapid.IntRange(0, 4).Draw(t, "resp_body") {
	case 0, 1:
		if c.Lean {
			// flat inline bodies only: nothing here becomes a schema component
			if rapid.Bool().Draw(t, "lean_object") {
				r.Content = JSONContent(&Schema{Type: "object", Properties: map[string]*Schema{c.PlainName("p", "leanprop"): {Type: "string"}, c.PlainName("q", "leanprop"): {Type: "integer"}}})
			} else {
				r.Content = JSONContent(&Schema{Type: rapid.SampledFrom([]string{"string", "integer", "boolean"}).Draw(t, "lean_prim")})
			}
		} else {
			r.Content = JSONContent(c.BodySchema("respbody"))
		}
		c.Tag("resp:json")
		// further media types beside application/json (own schemas): the JSON one stays the typed body
		if rapid.IntRange(0, 3).Draw(t, "extra_media_type") == 0 && c.Allow("resp:extra-media-type") {
			mt := rapid.SampledFrom([]string{"application/problem+json", "application/vnd.x+json", "application/hal+json", "text/plain", "application/xml"}).Draw(t, "extra_mt")
			r.Content[mt] = &MediaType{Schema: &Schema{Type: "object", Properties: map[string]*Schema{"title": {Type: "string"}, "type": {Type: "string"}}, Required: []string{"title", "type"}}}
			c.Tag("resp:extra-media-type")
		}
	case 2:
		mt := rapid.SampledFrom([]string{"application/octet-stream", "application/octet-stream", "text/plain", "application/xml", "image/png", "application/json-patch+json", "application/jsonlines", "text/csv; charset=utf-8"}).Draw(t, "raw_media_type")
		r.Content = map[string]*MediaType{mt: {Schema: &Schema{Type: "string", Format: "binary"}}}
		c.Tag("resp:raw")
	default:
		c.Tag("resp:nobody")
	}
	nh := rapid.IntRange(0, 3).Draw(t, "nheaders")
	if nh > 0 {
		r.Headers = map[string]*Header{}
	}
	for i := 0; i < nh; i++ {
		name := "X-R" + c.SafeName("h", "rhname")
		// header names are case-insensitive: declare some in non-canonical letter case
		switch rapid.IntRange(0, 4).Draw(t, "rh_case") {
		case 4:
			// names real APIs document
			cand := rapid.SampledFrom([]string{"Location", "ETag", "Retry-After", "X-Content-Type-Options", "X-Frame-Options", "Content-Language", "Content-Disposition", "WWW-Authenticate", "Last-Modified", "X-Request-Id", "Link", "Cache-Control"}).Draw(t, "rh_real")
			if _, taken := r.Headers[cand]; !taken {
				name = cand
			}
		case 0:
			name = strings.ToLower(name)
		case 1:
			name = "X-RH" + strings.ToUpper(c.PlainName("id", "rhupper"))[0:2] + c.PlainName("k", "rhk")
		}
		asComponent := !c.Lean && rapid.IntRange(0, 3).Draw(t, "rh_component") == 0 && c.Allow("header-component")
		pos := "response-header"
		if asComponent {
			pos = "component-header"
		}
		h := &Header{Required: rapid.Bool().Draw(t, "rh_required"), Schema: c.ResponseHeaderSchema(pos)}
		// (the legacy X-RateLimit-* pattern: still required, marked deprecated)
		if rapid.IntRange(0, 5).Draw(t, "rh_deprecated") == 0 {
			h.Deprecated = true
			c.Tag("rheader:deprecated")
		}
		if asComponent {
			cs := c.comps()
			if cs.Headers == nil {
				cs.Headers = map[string]*Header{}
			}
			cname := c.CompName("Hc", "hcomp")
			// people name a shared header after the header itself (ETag: $ref .../headers/ETag)
			// (with a dash-free header name: a dash in a component name is known finding C01-F08)
			if rapid.IntRange(0, 2).Draw(t, "hcomp_named_like_header") == 0 {
				name = c.PlainName("Etag", "hname")
				cname = name
				c.Tag("rheader:component-named-like-header")
			}
			cs.Headers[cname] = h
			c.Tag("rheader:component")
			h = &Header{Ref: RefHeaders + cname}
		}
		r.Headers[name] = h
	}
	return r
}

// Responses fills op.Responses: 1-4 numeric statuses plus optional default; each
// inline or a $ref into components/responses (possibly through aliases, possibly
// shared with other operations, respecting goag's documented restrictions: one
// component at most once per operation, and never as both default and numbered).
func (c *Ctx) Responses(op *Operation, rich bool) {
	t := c.T
	statuses := []string{"200", "201", "202", "204", "301", "400", "401", "404", "409", "422", "500", "503", "599"}
	n := rapid.IntRange(0, 3).Draw(t, "nstatuses")
	pick := rapid.SliceOfNDistinct(rapid.SampledFrom(statuses), n, n, rapid.ID[string]).Draw(t, "statuses")
	if n == 0 || rapid.Bool().Draw(t, "has_default") {
		pick = append(pick, "default")
	}
	sort.Strings(pick)
	used := map[string]bool{}
	for _, st := range pick {
		isDefault := st == "default"
		if rich && rapid.IntRange(0, 2).Draw(t, "resp_component") == 0 && c.Allow("response-component") {
			name := c.responseComponent(isDefault, used, rich)
			used[c.responseTarget(name)] = true
			op.Responses[st] = &Response{Ref: RefResponses + name}
			continue
		}
		r := c.Response(rich)
		if st == "204" || st == "301" {
			r.Content = nil
		}
		op.Responses[st] = r
	}
}

func (c *Ctx) responseTarget(name string) string {
	cs := c.comps()
	for i := 0; i < 16; i++ {
		r := cs.Responses[name]
		if r == nil || r.Ref == "" {
			return name
		}
		name = strings.TrimPrefix(r.Ref, RefResponses)
	}
	return name
}

// respUse remembers whether a response component target is used on default or
// numbered statuses (goag refuses a mix).
var respUseKey = "\x00respuse:"

func (c *Ctx) responseComponent(isDefault bool, usedInOp map[string]bool, rich bool) string {
	t := c.T
	cs := c.comps()
	if cs.Responses == nil {
		cs.Responses = map[string]*Response{}
	}
	useTag := "N"
	if isDefault {
		useTag = "D"
	}
	// reuse an existing component (sharing) when compatible
	var candidates []string
	for _, name := range SortedKeys(cs.Responses) {
		tgt := c.responseTarget(name)
		if usedInOp[tgt] {
			continue
		}
		if u, ok := c.respUse()[tgt]; ok && u != useTag {
			continue
		}
		candidates = append(candidates, name)
	}
	if len(candidates) > 0 && rapid.Bool().Draw(t, "resp_share") {
		name := rapid.SampledFrom(candidates).Draw(t, "resp_pick")
		c.respUse()[c.responseTarget(name)] = useTag
		c.Tag("resp:shared")
		return name
	}
	name := c.CompName("Rsp", "respcomp")
	cs.Responses[name] = c.Response(rich)
	c.respUse()[name] = useTag
	c.Tag("resp:component")
	inlineJSON := false
	if mt := cs.Responses[name].Content["application/json"]; mt != nil && mt.Schema != nil && mt.Schema.Ref == "" {
		inlineJSON = true
	}
	if rapid.IntRange(0, 2).Draw(t, "resp_alias") == 0 && (!inlineJSON || c.Allow("response-alias:inline-json-body")) {
		alias := c.CompName("RspAlias", "respalias")
		cs.Responses[alias] = &Response{Ref: RefResponses + name}
		c.Tag("resp:alias")
		if rapid.IntRange(0, 2).Draw(t, "resp_alias2") == 0 {
			alias2 := c.CompName("RspAlias", "respalias2")
			cs.Responses[alias2] = &Response{Ref: RefResponses + alias}
			return alias2
		}
		return alias
	}
	return name
}

func (c *Ctx) respUse() map[string]string {
	if c.respUses == nil {
		c.respUses = map[string]string{}
	}
	return c.respUses
}

// ---------------------------------------------------------------------------
// router family (C03, C05, C16, C13-served)

type RouterOpts struct {
	Typed    bool
	Methods  []string
	MaxN     int
	MaxDepth int
}

// RouterDoc draws a template set with method subsets; variables are declared as
// string (or typed) path parameters, in an order independent of the template.
func (c *Ctx) RouterDoc(o RouterOpts) *Doc {
	t := c.T
	d := c.Doc
	if len(o.Methods) == 0 {
		o.Methods = []string{"GET", "POST", "DELETE"}
	}
	if o.MaxN == 0 {
		o.MaxN = 7
	}
	if o.MaxDepth == 0 {
		o.MaxDepth = 4
	}
	for _, tp := range c.Templates(o.MaxN, o.MaxDepth) {
		pi := &PathItem{}
		d.Paths[tp.String()] = pi
		// (a path item may be declared before any of its operations exists: /reports: {})
		if rapid.IntRange(0, 9).Draw(t, "path_item_without_operations") == 0 && len(d.Paths) > 1 {
			pi.Description = "reserved"
			c.Tag("path-item:no-operations")
			continue
		}
		// (an upload host of its own, say: it does not move the path item under another base path)
		if rapid.IntRange(0, 7).Draw(t, "path_item_servers") == 0 {
			pi.Servers = []*Server{{URL: rapid.SampledFrom([]string{"https://uploads.example.com/v1", "https://files.example.com", "/files/v2"}).Draw(t, "path_item_server_url")}}
			c.Tag("path-item:own-servers")
		}
		nm := rapid.IntRange(1, len(o.Methods)).Draw(t, "nmethods")
		ms := rapid.SliceOfNDistinct(rapid.SampledFrom(o.Methods), nm, nm, rapid.ID[string]).Draw(t, "methods")
		var ps []*Parameter
		for _, v := range tp.Vars() {
			prim := Prims[0]
			if o.Typed {
				prim = c.maybeLayout(rapid.SampledFrom(PathVarPrims).Draw(t, "pathvar_prim"), "pathvar_prim")
			}
			s := prim.Schema()
			if o.Typed && rapid.IntRange(0, 4).Draw(t, "pathvar_ref") == 0 && c.AllowSchema(s, "component") {
				if r := c.AddSchema(c.CompName("Pv", "pv"), s); c.AllowSchema(r, "path") {
					s = c.maybeAliasHops(r, "path", "pv")
				}
			}
			p := &Parameter{Name: v, In: "path", Required: true, Schema: s}
			if o.Typed && rapid.IntRange(0, 4).Draw(t, "pathvar_component") == 0 && c.AllowSchema(s, "component-parameter-path") {
				cs := c.comps()
				if cs.Parameters == nil {
					cs.Parameters = map[string]*Parameter{}
				}
				cname := c.CompName("PathPar", "pvcomp")
				cs.Parameters[cname] = p
				p = &Parameter{Ref: RefParameters + cname}
			}
			ps = append(ps, p)
		}
		if len(ps) > 1 && rapid.Bool().Draw(t, "reverse_vars") {
			for i, j := 0, len(ps)-1; i < j; i, j = i+1, j-1 {
				ps[i], ps[j] = ps[j], ps[i]
			}
		}
		pathLevel := len(ps) > 0 && rapid.Bool().Draw(t, "path_level_vars")
		if pathLevel {
			pi.Parameters = ps
		}
		for _, m := range ms {
			op := MinimalOp()
			if !pathLevel {
				op.Parameters = ps
			}
			pi.SetOp(m, op)
		}
	}
	// a reserved path item without operations that sorts before a literal sibling of its
	// own parent (/orders/0reserved beside /orders/b): the sibling keeps its operations
	if rapid.IntRange(0, 2).Draw(t, "reserved_sibling") == 0 {
		for _, tpl := range SortedKeys(d.Paths) {
			i := strings.LastIndex(tpl, "/")
			last := tpl[i+1:]
			if last == "" || strings.HasPrefix(last, "{") || len(d.Paths[tpl].Ops()) == 0 {
				continue
			}
			if _, taken := d.Paths[tpl[:i+1]+"0reserved"]; !taken {
				d.Paths[tpl[:i+1]+"0reserved"] = &PathItem{Description: "reserved, nothing published yet"}
				c.Tag("path-item:reserved-sibling")
				break
			}
		}
	}
	return d
}

func (c *Ctx) String() string { return fmt.Sprintf("ctx(%d)", c.n) }

// ---------------------------------------------------------------------------
// map-fat family (C12): >=4 entries in every map-typed construct

func (c *Ctx) MapFat() *Doc {
	t := c.T
	o := DefaultCompOpts()
	o.NumSchemas = 6
	o.MaxTemplates = 6
	d := c.Composition(o)
	cs := c.comps()
	// component schema maps with >=4 entries and objects with >=4 properties
	for i := 0; i < 4; i++ {
		s := &Schema{Type: "object", Properties: map[string]*Schema{}}
		for j := 0; j < 4; j++ {
			s.Properties[c.SafeName("p", "fatprop")] = c.Schema(1, "property")
		}
		c.AddSchema(c.CompName("Fat", "fat"), s)
	}
	// `required` naming several properties the object does not declare (goag refuses such a
	// spec - the same way in every run)
	if rapid.IntRange(0, 5).Draw(t, "fat_undeclared_required") == 0 {
		ghost := &Schema{Type: "object", Properties: map[string]*Schema{c.SafeName("p", "ghostprop"): {Type: "string"}},
			Required: []string{c.SafeName("ghost", "ghostreq"), c.SafeName("ghost", "ghostreq"), c.SafeName("ghost", "ghostreq"), c.SafeName("ghost", "ghostreq")}}
		cs.Schemas[c.CompName("Ghosts", "ghosts")] = ghost
		c.Tag("fat:undeclared-required")
	}
	// a recursive component (a tree) whose back references run through several aliases of it
	if rapid.Bool().Draw(t, "fat_tree") {
		tree := c.CompName("Tree", "fattree")
		node := &Schema{Type: "object", Properties: map[string]*Schema{c.SafeName("label", "fattreeprop"): {Type: "string"}}}
		for i, n := 0, rapid.IntRange(1, 4).Draw(t, "fat_tree_aliases"); i < n; i++ {
			alias := c.CompName("Twig", "fattwig")
			cs.Schemas[alias] = &Schema{Ref: RefSchemas + tree}
			node.Properties[c.SafeName("kids", "fattreeprop")] = &Schema{Type: "array", Items: &Schema{Ref: RefSchemas + alias}}
		}
		if rapid.Bool().Draw(t, "fat_tree_direct") {
			node.Properties[c.SafeName("self", "fattreeprop")] = &Schema{Type: "array", Items: &Schema{Ref: RefSchemas + tree}}
		}
		cs.Schemas[tree] = node
		c.Tag("fat:recursive-tree")
	}
	// discriminator with >=4 mapping entries
	{
		prop := c.SafeName("kind", "fatdisc")
		one := &Schema{Discriminator: &Discriminator{PropertyName: prop, Mapping: map[string]string{}}}
		for i := 0; i < 4; i++ {
			name := c.objectComponent(1, "fatoneof", true)
			obj := cs.Schemas[name]
			obj.Properties[prop] = &Schema{Type: "string"}
			obj.Required = append(obj.Required, prop)
			sort.Strings(obj.Required)
			if c.discriminated == nil {
				c.discriminated = map[string]bool{}
			}
			c.discriminated[name] = true
			one.OneOf = append(one.OneOf, &Schema{Ref: RefSchemas + name})
			one.Discriminator.Mapping[c.PlainName("m", "fatmap")] = RefSchemas + name
			if rapid.Bool().Draw(t, "identity_mapping") {
				one.Discriminator.Mapping[name] = RefSchemas + name // the key repeats the schema name
			}
			if rapid.Bool().Draw(t, "second_mapping") {
				one.Discriminator.Mapping[c.PlainName("n", "fatmap2")] = name
			}
		}
		c.AddSchema(c.CompName("FatChoice", "fatchoice"), one)
		c.Tag("fat:discriminator-mapping")
	}
	// server variables whose defaults contain other variables' placeholders
	{
		vars := map[string]*ServerVariable{}
		names := []string{c.PlainName("sv", "sv"), c.PlainName("sv", "sv"), c.PlainName("sv", "sv"), c.PlainName("sv", "sv")}
		vars[names[0]] = &ServerVariable{Default: "demo"}
		vars[names[1]] = &ServerVariable{Default: "{" + names[2] + "}x"}
		vars[names[2]] = &ServerVariable{Default: "api{" + names[3] + "}"}
		vars[names[3]] = &ServerVariable{Default: "v1"}
		d.Servers = []*Server{{URL: "https://{" + names[0] + "}.example.com/{" + names[1] + "}/{" + names[2] + "}", Variables: vars}}
		c.Tag("fat:server-variables")
	}
	// a path and its trailing-slash twin (two different templates), several pairs
	for i := 0; i < 3; i++ {
		base := "/" + c.PlainName("twin", "twin")
		d.Paths[base] = &PathItem{Get: MinimalOp(), Post: MinimalOp()}
		d.Paths[base+"/"] = &PathItem{Get: MinimalOp(), Delete: MinimalOp()}
	}
	c.Tag("fat:trailing-slash-twins")
	// content maps whose keys differ only in media type parameters or letter case, each
	// with its own schema (every entry is its own media type)
	{
		mk := func(prop string) *Schema {
			return &Schema{Type: "object", Properties: map[string]*Schema{prop: {Type: "string"}}, Required: []string{prop}}
		}
		content := map[string]*MediaType{"application/json": {Schema: mk("plain")}, "application/json; charset=utf-8": {Schema: mk("with_charset")},
			"application/json;charset=UTF-8": {Schema: mk("with_charset_nospace")}, "Application/JSON": {Schema: mk("upper")}, "application/problem+json": {Schema: mk("problem")}}
		op := &Operation{RequestBody: &RequestBody{Content: content}, Responses: map[string]*Response{"200": {Description: Str("ok"), Content: content}, "default": {Description: Str("d"), Content: content}}}
		d.Paths["/"+c.PlainName("fatcontent", "fatcontent")] = &PathItem{Post: op}
		c.Tag("fat:content-keys")
	}
	// security: >=4 schemes, one requirement naming several schemes (AND), oauth scopes
	{
		if cs.SecuritySchemes == nil {
			cs.SecuritySchemes = map[string]*SecurityScheme{}
		}
		names := c.SecuritySchemes(4, false)
		oname := c.PlainName("sec", "oauth")
		cs.SecuritySchemes[oname] = &SecurityScheme{Type: "oauth2", Flows: &OAuthFlows{Implicit: &OAuthFlow{AuthorizationURL: "https://a.example/auth",
			Scopes: map[string]string{"read": "r", "write": "w", "admin": "a", "audit": "u"}}}}
		and := map[string][]string{}
		for _, n := range names[:rapid.IntRange(2, 4).Draw(t, "nand")] {
			and[n] = []string{}
		}
		sec := []map[string][]string{and, {oname: {"read", "write"}}}
		// attach to a few operations
		for _, p := range SortedKeys(d.Paths) {
			for _, mo := range d.Paths[p].Ops() {
				if rapid.Bool().Draw(t, "fat_sec") {
					mo.Op.Security = &sec
				}
			}
		}
		d.Security = &sec
		c.Tag("fat:and-requirement")
	}
	// keys that differ only in letter case (a case-insensitive sort would leave their
	// relative order to map iteration)
	for i := 0; i < 3; i++ {
		base := c.CompName("Twin", "twin")
		cs.Schemas[base] = &Schema{Type: "object", Properties: map[string]*Schema{"upper": {Type: "string"}}}
		cs.Schemas[strings.ToLower(base[:1])+base[1:]] = &Schema{Type: "object", Properties: map[string]*Schema{"lower": {Type: "integer"}}}
		c.Tag("fat:case-twin-keys")
	}
	// a path whose operations list several header credentials as alternatives (their
	// names end up in the CORS header list)
	{
		if cs.SecuritySchemes == nil {
			cs.SecuritySchemes = map[string]*SecurityScheme{}
		}
		var alts []map[string][]string
		haveBearer := false
		for n, sch := range cs.SecuritySchemes {
			if sch.Type == "http" && sch.Scheme == "bearer" {
				haveBearer = true
				alts = append(alts, map[string][]string{n: {}})
			}
		}
		if !haveBearer {
			n := c.PlainName("sec", "corsbearer")
			cs.SecuritySchemes[n] = &SecurityScheme{Type: "http", Scheme: "bearer"}
			alts = append(alts, map[string][]string{n: {}})
		}
		for i := 0; i < 3; i++ {
			n := c.PlainName("sec", "corskey")
			cs.SecuritySchemes[n] = &SecurityScheme{Type: "apiKey", In: "header", Name: "X-" + strings.Title(c.PlainName("cred", "corskeyname"))}
			alts = append(alts, map[string][]string{n: {}})
		}
		sort.Slice(alts, func(i, j int) bool { return fmt.Sprint(alts[i]) < fmt.Sprint(alts[j]) })
		op1, op2 := MinimalOp(), MinimalOp()
		op1.Security = &alts
		rev := append([]map[string][]string{}, alts...)
		op2.Security = &rev
		d.Paths["/"+c.PlainName("cors", "corspath")] = &PathItem{Get: op1, Put: op2}
		c.Tag("fat:cors-credential-headers")
	}
	// component parameters / headers / responses / request bodies with >=4 entries
	for i := 0; i < 4; i++ {
		if cs.Parameters == nil {
			cs.Parameters = map[string]*Parameter{}
		}
		cs.Parameters[c.CompName("FatPar", "fatpar")] = &Parameter{Name: c.SafeName("q", "fatq"), In: "query", Schema: &Schema{Type: "string"}}
		if cs.Headers == nil {
			cs.Headers = map[string]*Header{}
		}
		cs.Headers[c.CompName("FatHdr", "fathdr")] = &Header{Schema: &Schema{Type: "integer"}}
		if cs.RequestBodies == nil {
			cs.RequestBodies = map[string]*RequestBody{}
		}
		cs.RequestBodies[c.CompName("FatReq", "fatreq")] = &RequestBody{Content: JSONContent(objAB())}
	}
	// an operation with >=4 responses, each with >=4 headers, and >=4 parameters
	{
		op := &Operation{Responses: map[string]*Response{}}
		for _, st := range []string{"200", "201", "400", "404", "500", "default"} {
			r := &Response{Description: Str(""), Headers: map[string]*Header{}}
			for j := 0; j < 4; j++ {
				r.Headers["X-F"+c.SafeName("h", "fath")] = &Header{Schema: &Schema{Type: "string"}}
			}
			op.Responses[st] = r
		}
		for j := 0; j < 4; j++ {
			op.Parameters = append(op.Parameters, &Parameter{Name: c.SafeName("q", "fatq2"), In: "query", Schema: &Schema{Type: "integer"}})
			op.Parameters = append(op.Parameters, &Parameter{Name: "X-F" + c.SafeName("p", "fath2"), In: "header", Schema: &Schema{Type: "string"}})
		}
		d.Paths["/"+c.PlainName("fat", "fatpath")] = &PathItem{Post: op}
	}
	return d
}

// ---------------------------------------------------------------------------
// params family (C04, C09): query / header declarations at operation and path-item
// level, with overriding, inline / schema $ref / component parameter forms.

func (c *Ctx) ParamsDoc(withPathVars bool, withBodies ...bool) *Doc {
	t := c.T
	d := c.Doc
	np := rapid.IntRange(2, 4).Draw(t, "npaths")
	for i := 0; i < np; i++ {
		// constant segments are mostly ASCII words; some hold multi-byte characters (the
		// router and the path parser work on the decoded path, byte lengths matter there)
		constSeg := func(prefix string) string {
			w := c.PlainName(prefix, "seg")
			if rapid.IntRange(0, 4).Draw(t, "seg_multibyte") == 0 {
				c.Tag("path:multibyte-constant")
				return rapid.SampledFrom([]string{"caf\u00e9", "m\u00fcnchen-s\u00fcd", "\u65e5\u672c", "na\u00efve", "\u00e9"}).Draw(t, "seg_mb") + w
			}
			return w
		}
		segs := []string{constSeg("r")}
		var pathVars []*Parameter
		if withPathVars && rapid.Bool().Draw(t, "has_pathvar") {
			nv := rapid.IntRange(1, 2).Draw(t, "npathvars")
			for j := 0; j < nv; j++ {
				name := c.VarName("var")
				if rapid.IntRange(0, 5).Draw(t, "lit_named_like_var") == 0 {
					segs = append(segs, name) // /tag/{tag}
					c.Tag("path:constant-equals-variable-name")
				}
				segs = append(segs, "{"+name+"}")
				prim := c.maybeLayout(rapid.SampledFrom(PathVarPrims).Draw(t, "pathvar_prim"), "pathvar_prim")
				pathVars = append(pathVars, &Parameter{Name: name, In: "path", Required: true, Schema: prim.Schema()})
				switch rapid.IntRange(0, 5).Draw(t, "lit_between") {
				case 0, 1, 2:
					segs = append(segs, constSeg("s"))
				case 3:
					// a constant segment spelled like the variable before it (/{tag}/tag)
					segs = append(segs, name)
					c.Tag("path:constant-equals-variable-name")
				}
			}
			// declaration order is independent of template order
			if len(pathVars) > 1 && rapid.Bool().Draw(t, "reverse_vars") {
				for i, j := 0, len(pathVars)-1; i < j; i, j = i+1, j-1 {
					pathVars[i], pathVars[j] = pathVars[j], pathVars[i]
				}
			}
		}
		// a trailing slash on the template is significant (for the client's URL too)
		if rapid.IntRange(0, 3).Draw(t, "trailing_slash") == 0 {
			segs = append(segs, "")
		}
		pi := &PathItem{}
		d.Paths["/"+strings.Join(segs, "/")] = pi
		// a sibling that is constant where this template has its first variable and goes on
		// differently below it (/items/special/about beside /items/{id}/sub)
		for vi, sgm := range segs {
			if !strings.HasPrefix(sgm, "{") {
				continue
			}
			if vi+1 < len(segs) && segs[vi+1] != "" && rapid.IntRange(0, 2).Draw(t, "constant_sibling") == 0 {
				sib := append(append([]string{}, segs[:vi]...), constSeg("k"), constSeg("t"))
				d.Paths["/"+strings.Join(sib, "/")] = &PathItem{Get: MinimalOp()}
				c.Tag("path:constant-sibling-of-variable")
			}
			break // the first variable only: everything before it is constant
		}
		realUsed := map[string]bool{}
		mkParam := func(in string, level string) *Parameter {
			if in == "header" {
				// (header parameters real documents declare, next to their own X- headers)
				if len(c.RealisticHeaders) > 0 && rapid.IntRange(0, 5).Draw(t, "realistic_header_param") == 0 {
					if h := rapid.SampledFrom(c.RealisticHeaders).Draw(t, "realistic_header_name"); !realUsed[h] {
						realUsed[h] = true
						c.Tag("param:realistic-header-name")
						return &Parameter{Name: h, In: "header", Required: rapid.Bool().Draw(t, "param_required"), Schema: &Schema{Type: "string"}}
					}
				}
				return c.Param(in, c.SafeName("X-H", "pname"), rapid.Bool().Draw(t, "param_required"))
			}
			return c.Param(in, c.QueryName("q", "pname"), rapid.Bool().Draw(t, "param_required"))
		}
		npl := rapid.IntRange(0, 2).Draw(t, "npathlevel")
		for j := 0; j < npl; j++ {
			in := rapid.SampledFrom([]string{"query", "query", "header"}).Draw(t, "pl_in")
			pi.Parameters = append(pi.Parameters, mkParam(in, "path-item"))
		}
		pathVarsAtPathLevel := len(pathVars) > 0 && rapid.Bool().Draw(t, "pathvars_level")
		if pathVarsAtPathLevel {
			pi.Parameters = append(pi.Parameters, pathVars...)
		}
		nm := rapid.IntRange(1, 2).Draw(t, "nmethods")
		ms := rapid.SliceOfNDistinct(rapid.SampledFrom([]string{"GET", "POST", "PUT", "DELETE"}), nm, nm, rapid.ID[string]).Draw(t, "methods")
		for _, m := range ms {
			op := MinimalOp()
			pi.SetOp(m, op)
			if !pathVarsAtPathLevel {
				op.Parameters = append(op.Parameters, pathVars...)
			}
			if len(withBodies) > 0 && withBodies[0] && (m == "POST" || m == "PUT") && rapid.Bool().Draw(t, "has_body") {
				op.RequestBody = c.RequestBody()
			}
			nop := rapid.IntRange(1, 4).Draw(t, "noplevel")
			for j := 0; j < nop; j++ {
				in := rapid.SampledFrom([]string{"query", "query", "header"}).Draw(t, "op_in")
				op.Parameters = append(op.Parameters, mkParam(in, "operation"))
			}
			// a header parameter whose Go field name equals that of a query parameter of the
			// same operation (query trace_id beside header Trace-Id): different locations,
			// different structs
			for _, qp := range append([]*Parameter{}, op.Parameters...) {
				if qp.Ref == "" && qp.In == "query" && rapid.IntRange(0, 5).Draw(t, "twin_header") == 0 {
					letters := strings.Map(func(r rune) rune {
						if r >= 'a' && r <= 'z' || r >= 'A' && r <= 'Z' || r >= '0' && r <= '9' {
							return r
						}
						return -1
					}, qp.Name)
					if len(letters) == len(strings.NewReplacer("_", "", "-", "").Replace(qp.Name)) && len(letters) > 2 {
						op.Parameters = append(op.Parameters, &Parameter{Name: "X-" + letters, In: "header", Schema: &Schema{Type: "string"}}, &Parameter{Name: strings.ToUpper(letters[:1]) + letters[1:], In: "header", Schema: &Schema{Type: "string"}})
						c.Tag("param:header-twin-of-query")
					}
				}
			}
			// override a path-item level parameter with a different declaration
			for _, pl := range pi.Parameters {
				r := d.ResolveParameter(pl)
				if r == nil || rapid.IntRange(0, 2).Draw(t, "override") != 0 {
					continue
				}
				if r.In == "path" {
					// the operation re-declares the path variable with another type
					prim := rapid.SampledFrom(PathVarPrims).Draw(t, "pathvar_override_prim")
					op.Parameters = append(op.Parameters, &Parameter{Name: r.Name, In: "path", Required: true, Schema: prim.Schema()})
					c.Tag("param:override-path")
					continue
				}
				ov := &Parameter{Name: r.Name, In: r.In, Required: !r.Required, Schema: c.ParamSchema(r.In, "override")}
				// the overriding declaration may itself be a shared component (inline on the
				// path item, $ref on the operation - or the other way round)
				if rapid.Bool().Draw(t, "override_component") && c.AllowSchema(ov.Schema, "component-parameter-"+r.In) {
					cs := c.comps()
					if cs.Parameters == nil {
						cs.Parameters = map[string]*Parameter{}
					}
					cname := c.CompName("Par", "ovcomp")
					cs.Parameters[cname] = ov
					ov = &Parameter{Ref: RefParameters + cname}
					c.Tag("param:override-by-component")
				}
				op.Parameters = append(op.Parameters, ov)
				c.Tag("param:override")
			}
		}
	}
	return d
}

// ---------------------------------------------------------------------------
// security family (C11): one (global, kind(A), kind(B)) choice per spec and many path
// items realising the per-operation combinations.

var SchemeKinds = []string{"bearer", "apikey-header", "apikey-query", "basic", "oauth2", "apikey-cookie", "oidc"}

// SchemeOf is scheme for callers outside the package.
func (c *Ctx) SchemeOf(kind, label string) *SecurityScheme { return c.scheme(kind, label) }

// Comps returns (creating it) the components section.
func (c *Ctx) Comps() *Components { return c.comps() }

func (c *Ctx) scheme(kind, label string) *SecurityScheme {
	switch kind {
	case "bearer":
		return &SecurityScheme{Type: "http", Scheme: rapid.SampledFrom([]string{"bearer", "bearer", "Bearer", "BEARER"}).Draw(c.T, "bearer_spelling_"+label)}
	case "apikey-header":
		return &SecurityScheme{Type: "apiKey", In: "header", Name: "X-" + strings.Title(c.PlainName("key", label))}
	case "apikey-query":
		return &SecurityScheme{Type: "apiKey", In: "query", Name: c.PlainName("key", label)}
	case "basic":
		return &SecurityScheme{Type: "http", Scheme: "basic"}
	case "oauth2":
		return &SecurityScheme{Type: "oauth2", Flows: &OAuthFlows{Implicit: &OAuthFlow{AuthorizationURL: "https://a.example/auth", Scopes: map[string]string{"read": "r"}}}}
	case "apikey-cookie":
		return &SecurityScheme{Type: "apiKey", In: "cookie", Name: c.PlainName("sid", label)}
	}
	return &SecurityScheme{Type: "openIdConnect", OpenIDConnectURL: "https://a.example/.well-known/openid-configuration"}
}

// SecurityDoc draws a document of the security family. kinds: pool of scheme kinds.
func (c *Ctx) SecurityDoc(kinds []string) *Doc {
	t := c.T
	d := c.Doc
	ka := rapid.SampledFrom(kinds).Draw(t, "kindA")
	kb := rapid.SampledFrom(kinds).Draw(t, "kindB")
	if ka == "bearer" && kb == "bearer" {
		kb = "apikey-header" // goag has a single bearer hook
	}
	a, b := c.SchemeName("sa", "schemeA"), c.SchemeName("sb", "schemeB")
	cs := c.comps()
	cs.SecuritySchemes = map[string]*SecurityScheme{a: c.scheme(ka, "a"), b: c.scheme(kb, "b")}
	c.Tag("schemeA:" + ka)
	c.Tag("schemeB:" + kb)
	switch rapid.SampledFrom([]string{"none", "A", "A|B"}).Draw(t, "global") {
	case "A":
		d.Security = &[]map[string][]string{{a: {}}}
		c.Tag("global:A")
	case "A|B":
		d.Security = &[]map[string][]string{{a: {}}, {b: {}}}
		c.Tag("global:A|B")
	default:
		c.Tag("global:none")
	}
	reqs := []string{"inherit", "public", "A", "B", "A|B", "B|A", "A&B"}
	mk := func(kind string) *Operation {
		op := MinimalOp()
		switch kind {
		case "public":
			op.Security = &[]map[string][]string{}
		case "A":
			op.Security = &[]map[string][]string{{a: {}}}
		case "B":
			op.Security = &[]map[string][]string{{b: {}}}
		case "A|B":
			op.Security = &[]map[string][]string{{a: {}}, {b: {}}}
		case "B|A":
			op.Security = &[]map[string][]string{{b: {}}, {a: {}}}
		case "A&B":
			op.Security = &[]map[string][]string{{a: {}, b: {}}}
		}
		c.Tag("op:" + kind)
		// an operation may document the header its bearer scheme reads as a parameter of its own
		if ka == "bearer" && strings.Contains(kind, "A") || kb == "bearer" && strings.Contains(kind, "B") {
			if rapid.IntRange(0, 5).Draw(t, "documents_authorization_header") == 0 {
				op.Parameters = append(op.Parameters, &Parameter{Name: "Authorization", In: "header", Schema: &Schema{Type: "string"}})
				c.Tag("op:documents-authorization-header")
			}
		}
		return op
	}
	for _, k := range reqs {
		d.Paths["/"+c.PlainName("s", "single")] = &PathItem{Get: mk(k)}
	}
	// operations sharing a path
	nshared := rapid.IntRange(2, 4).Draw(t, "nshared")
	for i := 0; i < nshared; i++ {
		pi := &PathItem{}
		nm := rapid.IntRange(2, 3).Draw(t, "nmethods")
		// (every method is an operation like any other: OPTIONS, HEAD, PATCH, TRACE too)
		ms := rapid.SliceOfNDistinct(rapid.SampledFrom([]string{"GET", "POST", "PUT", "DELETE", "OPTIONS", "HEAD", "PATCH", "TRACE"}), nm, nm, rapid.ID[string]).Draw(t, "methods")
		for _, m := range ms {
			pi.SetOp(m, mk(rapid.SampledFrom(reqs).Draw(t, "req")))
		}
		tpl := "/" + c.PlainName("m", "shared")
		if rapid.Bool().Draw(t, "shared_var") {
			v := c.PlainName("v", "var")
			tpl += "/{" + v + "}"
			pi.Parameters = []*Parameter{{Name: v, In: "path", Required: true, Schema: &Schema{Type: "string"}}}
		}
		d.Paths[tpl] = pi
	}
	return d
}

// RouterDocWithSecurity: C16's family.
func (c *Ctx) RouterDocWithSecurity() *Doc {
	t := c.T
	d := c.RouterDoc(RouterOpts{MaxN: 5, MaxDepth: 3, Methods: []string{"GET", "POST", "DELETE", "OPTIONS"}})
	if rapid.IntRange(0, 3).Draw(t, "has_security") == 0 {
		return d
	}
	names := c.SecuritySchemes(rapid.IntRange(1, 2).Draw(t, "nschemes"), true)
	if rapid.IntRange(0, 2).Draw(t, "global_security") == 0 {
		sec := c.securityRequirement(names)
		d.Security = &sec
	}
	for _, p := range SortedKeys(d.Paths) {
		for _, mo := range d.Paths[p].Ops() {
			switch rapid.IntRange(0, 3).Draw(t, "op_sec") {
			case 0:
				sec := c.securityRequirement(names)
				mo.Op.Security = &sec
			case 1:
				mo.Op.Security = &[]map[string][]string{}
			}
		}
	}
	return d
}

// CorsDoc: C17's family: method subsets, header parameters in several letter cases at
// path-item and operation level, bearer / apiKey security, explicit OPTIONS.
func (c *Ctx) CorsDoc() *Doc {
	t := c.T
	d := c.Doc
	var names []string
	if rapid.Bool().Draw(t, "has_security") {
		// (sometimes with schemes goag has no hook for: they contribute nothing to the
		// preflight, wherever they stand among the alternatives)
		names = c.SecuritySchemes(rapid.IntRange(1, 3).Draw(t, "nschemes"), true)
		if rapid.IntRange(0, 2).Draw(t, "cors_unsupported_schemes") == 0 {
			for _, k := range []string{"basic", "oauth2", "apikey-cookie", "oidc"}[rapid.IntRange(0, 3).Draw(t, "cors_unsupported_from"):] {
				name := c.SchemeName("sec", "uscheme")
				c.comps().SecuritySchemes[name] = c.scheme(k, name)
				names = append(names, name)
				c.Tag("scheme:" + k)
			}
		}
		if rapid.IntRange(0, 2).Draw(t, "global_security") == 0 {
			sec := c.securityRequirement(names)
			d.Security = &sec
		}
	}
	// (incl. names browsers treat specially: a declared header parameter is advertised whatever its name)
	hdrPool := []string{"x-trace", "X-Trace", "X-trace", "If-Match", "if-match", "X-Request-Tag", "x-request-tag", "ETag-Hint", "X-" + c.PlainName("h", "hdr"),
		"Accept-Language", "accept", "Content-Language", "content-type", "Range", "X-Content-Type-Options", "Origin-Hint"}
	tps := c.Templates(5, 3)
	for _, tp := range tps {
		pi := &PathItem{}
		d.Paths[tp.String()] = pi
		for _, v := range tp.Vars() {
			pi.Parameters = append(pi.Parameters, &Parameter{Name: v, In: "path", Required: true, Schema: &Schema{Type: "string"}})
		}
		if rapid.IntRange(0, 2).Draw(t, "pathlevel_header") == 0 {
			pi.Parameters = append(pi.Parameters, &Parameter{Name: rapid.SampledFrom(hdrPool).Draw(t, "plh"), In: "header", Schema: &Schema{Type: "string"}})
		}
		nm := rapid.IntRange(1, 4).Draw(t, "nmethods")
		ms := rapid.SliceOfNDistinct(rapid.SampledFrom([]string{"GET", "POST", "PUT", "DELETE", "PATCH", "OPTIONS", "HEAD"}), nm, nm, rapid.ID[string]).Draw(t, "methods")
		for _, m := range ms {
			op := MinimalOp()
			pi.SetOp(m, op)
			nh := rapid.IntRange(0, 2).Draw(t, "nheaders")
			used := map[string]bool{}
			for _, pl := range pi.Parameters {
				if pl.In == "header" {
					used[strings.ToLower(pl.Name)] = true
				}
			}
			for j := 0; j < nh; j++ {
				h := rapid.SampledFrom(hdrPool).Draw(t, "oph")
				if used[strings.ToLower(h)] {
					continue // one declaration per (name, in) within an operation
				}
				used[strings.ToLower(h)] = true
				op.Parameters = append(op.Parameters, &Parameter{Name: h, In: "header", Required: rapid.Bool().Draw(t, "hreq"), Schema: &Schema{Type: "string"}})
			}
			// a query parameter named like a path-item level header parameter is another
			// parameter (parameters are identified by name AND location)
			for _, pl := range pi.Parameters {
				if pl.In == "header" && rapid.IntRange(0, 3).Draw(t, "query_twin_of_header") == 0 {
					op.Parameters = append(op.Parameters, &Parameter{Name: pl.Name, In: "query", Schema: &Schema{Type: "string"}})
					c.Tag("cors:query-twin-of-path-level-header")
				}
			}
			if len(names) > 0 {
				switch rapid.IntRange(0, 3).Draw(t, "op_sec") {
				case 0:
					sec := c.securityRequirement(names)
					// an empty alternative ("anonymous is fine too") reads no header and hides none
					if rapid.IntRange(0, 3).Draw(t, "anonymous_alternative") == 0 {
						at := rapid.IntRange(0, len(sec)).Draw(t, "anonymous_at")
						sec = append(sec[:at:at], append([]map[string][]string{{}}, sec[at:]...)...)
						c.Tag("cors:anonymous-alternative")
					}
					op.Security = &sec
				case 1:
					op.Security = &[]map[string][]string{}
				}
			}
		}
	}
	// the Petstore shape: one operation of a path reads a credential header through its
	// security scheme, another operation of the same path documents a header of that name
	// as an ordinary parameter - the preflight names the header once
	if d.Components != nil && len(d.Components.SecuritySchemes) > 0 {
		for _, tpl := range SortedKeys(d.Paths) {
			pi := d.Paths[tpl]
			ops := pi.Ops()
			if len(ops) < 2 || rapid.IntRange(0, 2).Draw(t, "credential_header_as_parameter") != 0 {
				continue
			}
			header := ""
			var reader *Operation
			for _, mo := range ops {
				for _, alt := range d.EffectiveSecurity(mo.Op) {
					for _, name := range SortedKeys(alt) {
						sch := d.Components.SecuritySchemes[name]
						switch {
						case sch == nil:
						case sch.Type == "http" && strings.EqualFold(sch.Scheme, "bearer"):
							header, reader = "Authorization", mo.Op
						case sch.Type == "apiKey" && sch.In == "header":
							header, reader = sch.Name, mo.Op
						}
					}
				}
			}
			if header == "" {
				continue
			}
			for _, mo := range ops {
				if mo.Op == reader || len(d.EffectiveSecurity(mo.Op)) > 0 {
					continue
				}
				dup := false
				for _, pp := range append(append([]*Parameter{}, pi.Parameters...), mo.Op.Parameters...) {
					if pp.In == "header" && strings.EqualFold(pp.Name, header) {
						dup = true
					}
				}
				if !dup {
					mo.Op.Parameters = append(mo.Op.Parameters, &Parameter{Name: header, In: "header", Schema: &Schema{Type: "string"}})
					c.Tag("cors:credential-header-also-a-parameter")
				}
				break
			}
		}
	}
	return d
}

// JSONDoc: the JSON family (C06-C08): component schemas over K at every position and
// operations carrying them as request and response bodies.
func (c *Ctx) JSONDoc() *Doc {
	o := DefaultCompOpts()
	o.MinSchemas, o.NumSchemas = 3, 8
	o.MaxTemplates, o.MaxDepth = 3, 2
	o.Params, o.Security, o.Texts, o.TypedPathVars = false, false, false, false
	o.Bodies, o.AlwaysBody, o.RichResponses = true, true, true
	o.Methods = []string{"POST", "PUT", "PATCH", "GET"}
	o.SchemaDepth = 3
	d := c.Composition(o)
	// inheritance several levels deep: Signed = allOf[$ref Document, ...], Document =
	// allOf[$ref Resource, ...]
	if rapid.IntRange(0, 2).Draw(c.T, "allof_chain") == 0 {
		base := &Schema{Type: "object", Properties: map[string]*Schema{c.SafeName("p", "chainid"): {Type: "integer", Format: "int64"}, c.SafeName("p", "chainopt"): {Type: "string"}}}
		base.Required = []string{SortedKeys(base.Properties)[0]}
		prev := c.AddSchema(c.CompName("Resource", "chainbase"), base)
		ok := c.AllowSchema(prev, "allof-member")
		for lvl, n := 0, rapid.IntRange(2, 3).Draw(c.T, "allof_chain_levels"); ok && lvl < n; lvl++ {
			own := &Schema{Type: "object", Properties: map[string]*Schema{c.SafeName("p", "chainown"): {Type: "string"}, c.SafeName("p", "chainown"): {Type: "boolean"}}}
			own.Required = []string{SortedKeys(own.Properties)[0]}
			level := &Schema{AllOf: []*Schema{prev, own}}
			if !c.AllowSchema(level, "component") {
				ok = false
				break
			}
			next := c.AddSchema(c.CompName("Derived", "chainlevel"), level)
			if !c.AllowSchema(next, "allof-member") || !c.AllowSchema(next, "request-body") {
				delete(d.Components.Schemas, strings.TrimPrefix(next.Ref, RefSchemas))
				break
			}
			prev = next
			c.Tag("json:allOf-chain")
		}
		if ok && c.AllowSchema(prev, "request-body") && c.AllowSchema(prev, "response-body") {
			d.Paths["/"+c.PlainName("chain", "chainpath")] = &PathItem{Post: &Operation{RequestBody: &RequestBody{Required: true, Content: JSONContent(prev)},
				Responses: map[string]*Response{"200": {Description: Str("ok"), Content: JSONContent(prev)}}}}
		}
	}
	// an allOf whose first member is a $ref to an object without required properties:
	// with none of them set that member encodes to nothing and the next member's
	// properties are the first ones of the document (separator handling)
	if rapid.IntRange(0, 1).Draw(c.T, "allof_empty_first") == 0 {
		base := &Schema{Type: "object", Properties: map[string]*Schema{c.SafeName("p", "emptyfirstopt"): {Type: "string"}, c.SafeName("p", "emptyfirstopt"): {Type: "integer", Format: "int32"}}}
		bref := c.AddSchema(c.CompName("Meta", "emptyfirstbase"), base)
		own := &Schema{Type: "object", Properties: map[string]*Schema{c.SafeName("p", "emptyfirstown"): {Type: "integer", Format: "int64"}, c.SafeName("p", "emptyfirstown"): {Type: "string"}}}
		own.Required = []string{SortedKeys(own.Properties)[0]}
		level := &Schema{AllOf: []*Schema{bref, own}}
		if c.AllowSchema(bref, "allof-member") && c.AllowSchema(level, "component") {
			lref := c.AddSchema(c.CompName("Entry", "emptyfirstlevel"), level)
			if c.AllowSchema(lref, "request-body") && c.AllowSchema(lref, "response-body") {
				d.Paths["/"+c.PlainName("entry", "emptyfirstpath")] = &PathItem{Post: &Operation{RequestBody: &RequestBody{Required: true, Content: JSONContent(lref)},
					Responses: map[string]*Response{"200": {Description: Str("ok"), Content: JSONContent(lref)}}}}
			}
			c.Tag("json:allOf-first-member-without-required")
		} else {
			delete(d.Components.Schemas, strings.TrimPrefix(bref.Ref, RefSchemas))
		}
	}
	// a nullable component list of objects without required properties, held by a
	// property: its smallest non-null values are [] and [{}]
	if rapid.IntRange(0, 2).Draw(c.T, "nullable_list_component") == 0 {
		item := &Schema{Type: "object", Properties: map[string]*Schema{c.SafeName("p", "nlprop"): {Type: "string"}, c.SafeName("p", "nlprop"): {Type: "integer", Format: "int32"}}}
		list := &Schema{Type: "array", Nullable: true, Items: item}
		if c.AllowSchema(list, "component") {
			ref := c.AddSchema(c.CompName("Rows", "nullablelist"), list)
			if c.AllowSchema(ref, "property") {
				holder := &Schema{Type: "object", Properties: map[string]*Schema{c.SafeName("p", "nlholder"): ref, c.SafeName("p", "nlholder"): ref}}
				holder.Required = []string{SortedKeys(holder.Properties)[0]}
				c.AddSchema(c.CompName("Holder", "nullablelistholder"), holder)
				c.Tag("json:nullable-list-component")
				// a nullable object component as the value type of additional properties and as a
				// whole request body: null is a value of it wherever it is referenced
				nobj := &Schema{Type: "object", Nullable: true, Properties: map[string]*Schema{c.SafeName("p", "nobjprop"): {Type: "string"}, c.SafeName("p", "nobjprop"): {Type: "string"}}}
				nobj.Required = []string{SortedKeys(nobj.Properties)[0]}
				if c.AllowSchema(nobj, "component") {
					nref := c.AddSchema(c.CompName("Reading", "nullableobject"), nobj)
					if c.AllowSchema(nref, "addprops") {
						holder.AdditionalProperties = &AddProps{Schema: nref}
						c.Tag("json:nullable-object-component-as-addprops")
					}
					if c.AllowSchema(nref, "request-body") {
						d.Paths["/"+c.PlainName("reading", "nobjpath")] = &PathItem{Put: &Operation{RequestBody: &RequestBody{Required: true, Content: JSONContent(nref)}, Responses: EmptyResponses()}}
						c.Tag("json:nullable-object-component-as-body")
					}
				}
			} else {
				delete(d.Components.Schemas, strings.TrimPrefix(ref.Ref, RefSchemas))
			}
		}
	}
	return d
}

// ---------------------------------------------------------------------------
// responses family (C02, C10): operations x response sets incl. default, inline /
// component / alias chains, components shared by several operations and statuses,
// JSON / raw / no bodies, 0-3 headers (required/optional, primitive/array/$ref,
// names in non-canonical letter case).

func (c *Ctx) ResponsesDoc() *Doc {
	t := c.T
	d := c.Doc
	// a few component schemas for bodies (sometimes none: shared responses may be the
	// only components of a spec)
	ns := rapid.IntRange(0, 4).Draw(t, "nschemas")
	if rapid.IntRange(0, 4).Draw(t, "lean") == 0 {
		// shared responses are the only components of the whole spec
		c.Lean, ns = true, 0
		c.Tag("responses:only-components")
	}
	for i := 0; i < ns; i++ {
		c.AddSchema(c.CompName("Sch", "schema"), c.Schema(2, "component"))
	}
	np := rapid.IntRange(2, 4).Draw(t, "npaths")
	for i := 0; i < np; i++ {
		segs := []string{c.PlainName("r", "seg")}
		var params []*Parameter
		switch rapid.IntRange(0, 3).Draw(t, "path_shape") {
		case 0:
			v := c.PlainName("v", "var")
			segs = append(segs, "{"+v+"}")
			params = append(params, &Parameter{Name: v, In: "path", Required: true, Schema: &Schema{Type: "string"}})
		case 1:
			segs = append(segs, "") // trailing slash: operation name gets the RT suffix
		}
		pi := &PathItem{Parameters: params}
		d.Paths["/"+strings.Join(segs, "/")] = pi
		nm := rapid.IntRange(1, 2).Draw(t, "nmethods")
		ms := rapid.SliceOfNDistinct(rapid.SampledFrom([]string{"GET", "POST", "PUT", "DELETE"}), nm, nm, rapid.ID[string]).Draw(t, "methods")
		for _, m := range ms {
			op := &Operation{Responses: map[string]*Response{}}
			if rapid.IntRange(0, 2).Draw(t, "has_opid") == 0 {
				op.OperationID = c.PlainName("op", "opid")
			}
			c.Responses(op, true)
			pi.SetOp(m, op)
		}
	}
	// the root path with a component response and no operationId (naming edge)
	if rapid.IntRange(0, 3).Draw(t, "root_path") == 0 {
		op := &Operation{Responses: map[string]*Response{}}
		c.Responses(op, true)
		d.Paths["/"] = &PathItem{Get: op}
	}
	// goag documents one restriction on shared responses: a component is used either only
	// as `default` or only under fixed statuses. Now and then a spec breaks it (either
	// order): goag may refuse such a spec - but if it accepts it, every operation still
	// writes what it documents
	if cs := c.comps(); len(cs.Responses) > 0 && c.Allow("responses:break-restriction") && rapid.IntRange(0, 5).Draw(t, "break_default_numbered_restriction") == 0 {
		name := rapid.SampledFrom(SortedKeys(cs.Responses)).Draw(t, "restricted_component")
		first, second := "404", "default"
		if c.respUse()[c.responseTarget(name)] == "D" || rapid.IntRange(0, 2).Draw(t, "restriction_order") == 0 {
			first, second = "default", "404"
		}
		p1, p2 := "/"+c.PlainName("aa", "restr"), "/"+c.PlainName("zz", "restr")
		d.Paths[p1] = &PathItem{Get: &Operation{Responses: map[string]*Response{"200": {Description: Str("ok")}, first: {Ref: RefResponses + name}}}}
		d.Paths[p2] = &PathItem{Get: &Operation{Responses: map[string]*Response{"200": {Description: Str("ok")}, second: {Ref: RefResponses + name}}}}
		c.MayBeRefused = true
		c.Tag("responses:default-and-numbered-restriction-broken")
	}
	return d
}

// AddCaseTwins gives up to three component schemas a twin whose key differs in the case
// of its first letter only and whose schema is of another kind (component keys are
// case-sensitive: Limit and limit are two components). The twins are referenced by
// nothing; every $ref of the document must keep reaching the component it names.
func AddCaseTwins(t *rapid.T, d *Doc) int {
	if d == nil || d.Components == nil || len(d.Components.Schemas) == 0 || rapid.IntRange(0, 2).Draw(t, "case_twins") != 0 {
		return 0
	}
	names := SortedKeys(d.Components.Schemas)
	k := rapid.IntRange(1, min(3, len(names))).Draw(t, "n_case_twins")
	n := 0
	for _, name := range rapid.SliceOfNDistinct(rapid.SampledFrom(names), k, k, rapid.ID[string]).Draw(t, "case_twin_of") {
		twin := strings.ToLower(name[:1]) + name[1:]
		if twin == name {
			twin = strings.ToUpper(name[:1]) + name[1:]
		}
		if _, taken := d.Components.Schemas[twin]; taken || twin == name {
			continue
		}
		orig := d.Components.Schemas[name]
		prim := orig.Ref == "" && (orig.Type == "string" || orig.Type == "integer" || orig.Type == "number" || orig.Type == "boolean")
		var other *Schema
		switch {
		case prim && orig.Type == "string":
			other = &Schema{Type: "integer", Format: "int32"}
		case prim:
			other = &Schema{Type: "string"}
		default:
			prop := fmt.Sprintf("twinOnly%d", n)
			other = &Schema{Type: "object", Properties: map[string]*Schema{prop: {Type: "integer", Format: "int32"}}, Required: []string{prop}}
		}
		// for a primitive component half of the time the other way round: the document's
		// references go to the new key and the old key holds the schema of another kind
		if prim && rapid.Bool().Draw(t, "case_twin_takes_the_references") {
			text := strings.ReplaceAll(string(d.JSON()), `"`+RefSchemas+name+`"`, `"`+RefSchemas+twin+`"`)
			if nd, err := ParseDoc([]byte(text)); err == nil {
				*d = *nd
				d.Components.Schemas[twin] = d.Components.Schemas[name]
				d.Components.Schemas[name] = other
				n++
				continue
			}
		}
		d.Components.Schemas[twin] = other
		n++
	}
	return n
}

// DecorateForeign adds vendor extensions of other tools (x-nullable, x-omitempty,
// x-go-name, x-order, x-example, x-internal, x-codegen-request-body-name, x-logo, ...)
// to schemas, parameters, operations and the document root of a rendered spec. goag
// knows none of them: the decorated document must behave exactly like the plain one.
func DecorateForeign(t *rapid.T, raw []byte) ([]byte, int) {
	var root any
	if json.Unmarshal(raw, &root) != nil {
		return raw, 0
	}
	n := 0
	schemaExt := []struct {
		k string
		v any
	}{{"x-nullable", false}, {"x-omitempty", true}, {"x-go-name", "Renamed"}, {"x-order", 3.0}, {"x-example", map[string]any{"a": 1.0}}, {"x-isnullable", false}, {"x-go-type", "string"}, {"x-deprecated-reason", ""}}
	var walk func(node any, key string)
	walk = func(node any, key string) {
		switch x := node.(type) {
		case map[string]any:
			_, isRef := x["$ref"]
			if _, typed := x["type"].(string); typed && !isRef && key != "securitySchemes" && rapid.IntRange(0, 3).Draw(t, "foreign_schema_ext") == 0 {
				if _, isParam := x["in"]; !isParam {
					e := schemaExt[rapid.IntRange(0, len(schemaExt)-1).Draw(t, "foreign_schema_ext_which")]
					x[e.k] = e.v
					n++
				}
			}
			if _, isParam := x["in"].(string); isParam && !isRef && rapid.IntRange(0, 3).Draw(t, "foreign_param_ext") == 0 {
				x["x-example"] = "1"
				n++
			}
			keys := make([]string, 0, len(x))
			for k := range x {
				keys = append(keys, k)
			}
			sort.Strings(keys)
			for _, k := range keys {
				switch k {
				case "get", "put", "post", "delete", "options", "head", "patch", "trace":
					if op, ok := x[k].(map[string]any); ok && key != "properties" && rapid.IntRange(0, 3).Draw(t, "foreign_op_ext") == 0 {
						op["x-internal"] = false
						op["x-codegen-request-body-name"] = "payload"
						n++
					}
				}
				// (the values of a securitySchemes / examples map are not schemas)
				if k == "securitySchemes" || k == "examples" || k == "example" || k == "default" || k == "enum" || k == "mapping" || k == "variables" || k == "security" {
					continue
				}
				walk(x[k], k)
			}
		case []any:
			for _, it := range x {
				walk(it, key)
			}
		}
	}
	walk(root, "")
	if m, ok := root.(map[string]any); ok && rapid.Bool().Draw(t, "foreign_root_ext") {
		m["x-tagGroups"] = []any{map[string]any{"name": "g", "tags": []any{"a"}}}
		if info, ok := m["info"].(map[string]any); ok {
			info["x-logo"] = map[string]any{"url": "https://h.example/logo.png"}
		}
		n++
	}
	out, err := json.MarshalIndent(root, "", "  ")
	if err != nil {
		return raw, 0
	}
	return out, n
}

// DecorateOps adds the annotations large API descriptions carry on operations and that
// change nothing about how an operation is served: tags (several per operation, shared
// between operations), `deprecated: true`, a summary.
func DecorateOps(t *rapid.T, d *Doc) int {
	if d == nil || len(d.Paths) == 0 || rapid.Bool().Draw(t, "decorate_ops") {
		return 0
	}
	pool := []string{"accounts", "billing", "Admin API", "internal", "v2", "reports"}
	n := 0
	for _, tpl := range SortedKeys(d.Paths) {
		for _, mo := range d.Paths[tpl].Ops() {
			if k := rapid.IntRange(0, 3).Draw(t, "op_ntags"); k > 0 {
				mo.Op.Tags = rapid.SliceOfNDistinct(rapid.SampledFrom(pool), k, k, rapid.ID[string]).Draw(t, "op_tags")
				n++
			}
			if rapid.IntRange(0, 5).Draw(t, "op_deprecated") == 0 {
				mo.Op.Deprecated = true
				n++
			}
			if rapid.IntRange(0, 5).Draw(t, "op_summary") == 0 {
				mo.Op.Summary = "Does the thing; see \"docs\" & <notes>"
				n++
			}
		}
	}
	return n
}

package specgen

import (
	"fmt"
	"sort"
	"strconv"
	"strings"
	"time"

	"pgregory.net/rapid"
)

// ---------------------------------------------------------------------------
// generation context

// Ctx carries the document under construction, fresh-name counters and the set of
// feature tags switched off by known findings (DESIGN.md §3.9). Every random
// choice is a rapid draw.
type Ctx struct {
	T        *rapid.T
	Doc      *Doc
	n        int
	Disabled map[string]bool
	Excluded map[string]int // suppressed draws per tag (excluded_by_construction)
	Tags     map[string]int // feature tags used by this document

	// NeedClient: the document will be generated with --client, so rows goag rejects
	// only under --client are outside this family's dialect too.
	Lean         bool // ResponsesDoc: no schema / header / request body components at all
	MayBeRefused bool // the spec breaks a restriction goag documents: refusing it is fine
	NeedClient   bool

	// RealisticHeaders: names of header parameters real documents declare (per check:
	// some harnesses set Content-Type themselves)
	RealisticHeaders []string
	// JSONTimeLayouts: date-time schemas of the JSON dialect may carry x-goag-go-time-format
	JSONTimeLayouts bool
	// LowerCompNames: also draw component keys that start with a lower-case letter
	LowerCompNames bool

	// discriminated: object components that carry a oneOf discriminator property
	// (shared by all variants); they are not reused as allOf members, whose property
	// names are kept pairwise disjoint.
	discriminated map[string]bool

	respUses map[string]string
}

func NewCtx(t *rapid.T, disabled map[string]bool) *Ctx {
	return &Ctx{T: t, Doc: NewDoc(), Disabled: disabled, Excluded: map[string]int{}, Tags: map[string]int{}}
}

func NewDoc() *Doc {
	return &Doc{OpenAPI: "3.0.3", Info: Info{Title: "verif", Version: "1.0.0"}, Paths: map[string]*PathItem{}}
}

// Allow reports whether feature tag may be used; a refused draw is counted.
func (c *Ctx) Allow(tag string) bool {
	if c.Disabled[tag] {
		c.Excluded[tag]++
		return false
	}
	return true
}

func (c *Ctx) Tag(tag string) { c.Tags[tag]++ }

func (c *Ctx) next() int { c.n++; return c.n }

// (the last four end in id / ids, which goag's identifier casing treats specially)
var stems = []string{"alpha", "bravo", "delta", "gamma", "kappa", "omega", "sigma", "theta", "lambda", "zeta", "grid", "bids", "android", "paid", "uuid", "deviceuuid", "accountguid"}

// SafeName draws a name that is >=5 characters, carries a digit, is unique within
// the document (and stays unique after case-folding and removal of
// non-alphanumerics) and is not a word goag's messages use (DESIGN.md §11).
func (c *Ctx) SafeName(prefix string, label string) string {
	stem := rapid.SampledFrom(stems).Draw(c.T, label+"_stem")
	n := c.next()
	switch rapid.IntRange(0, 4).Draw(c.T, label+"_shape") {
	case 0:
		return fmt.Sprintf("%s%s%d", prefix, stem, n)
	case 1:
		return fmt.Sprintf("%s_%s%d", prefix, stem, n)
	case 2:
		return fmt.Sprintf("%s%s%dx", prefix, strings.Title(stem), n)
	case 3:
		// a last part that is exactly id / ids / Ids (X-Shop-Ids, shop_id)
		return fmt.Sprintf("%s-%s%d-%s", prefix, stem, n, rapid.SampledFrom([]string{"ids", "Ids", "id", "Id", "uuid"}).Draw(c.T, label+"_idpart"))
	default:
		return fmt.Sprintf("%s-%s%d", prefix, stem, n)
	}
}

// QueryName is SafeName plus the name shapes that are ordinary in query strings and
// need escaping on the wire ($top, filter[status], ids[], a space, a non-ASCII letter).
func (c *Ctx) QueryName(prefix, label string) string {
	if rapid.IntRange(0, 3).Draw(c.T, label+"_query_shape") != 0 {
		return c.SafeName(prefix, label)
	}
	stem := rapid.SampledFrom(stems).Draw(c.T, label+"_stem")
	n := c.next()
	c.Tag("param:query-name-needs-escaping")
	switch rapid.IntRange(0, 4).Draw(c.T, label+"_qshape") {
	case 0:
		return fmt.Sprintf("$%s%s%d", prefix, stem, n)
	case 1:
		return fmt.Sprintf("%s%s%d[]", prefix, stem, n)
	case 2:
		return fmt.Sprintf("%s%d[%s]", prefix, n, stem)
	case 3:
		return fmt.Sprintf("%s %s%d", prefix, stem, n)
	default:
		return fmt.Sprintf("%s\u00e9%s%d", prefix, stem, n)
	}
}

// VarName draws the name of a path variable: mostly [a-z0-9], sometimes with the
// punctuation real specs use (pet-id, shop.id, user_id).
func (c *Ctx) VarName(label string) string {
	w := c.PlainName("v", label)
	switch rapid.IntRange(0, 7).Draw(c.T, label+"_punct") {
	case 0:
		return w + "-id"
	case 1:
		return w + ".id"
	case 2:
		return w + "_id"
	}
	return w
}

// PlainName is SafeName restricted to [a-z0-9] (for path segments and variables).
func (c *Ctx) PlainName(prefix, label string) string {
	stem := rapid.SampledFrom(stems).Draw(c.T, label+"_stem")
	// a word that *ends* in id / ids (bids, grid): the number goes in front
	if strings.HasSuffix(stem, "id") || strings.HasSuffix(stem, "ids") {
		return fmt.Sprintf("%s%d%s", prefix, c.next(), stem)
	}
	return fmt.Sprintf("%s%s%d", prefix, stem, c.next())
}

func (c *Ctx) CompName(prefix, label string) string {
	stem := rapid.SampledFrom(stems).Draw(c.T, label+"_stem")
	// component keys are arbitrary strings: a third start with a lower-case letter
	// (not for object components used as oneOf variants: goag names the variant field
	// after the component, and an unexported field is out of reach of the harness)
	if c.LowerCompNames && prefix != "Obj" && rapid.IntRange(0, 2).Draw(c.T, label+"_lower") == 0 {
		prefix = strings.ToLower(prefix[:1]) + prefix[1:]
	}
	return fmt.Sprintf("%s%s%d", prefix, strings.Title(stem), c.next())
}

func (c *Ctx) comps() *Components {
	if c.Doc.Components == nil {
		c.Doc.Components = &Components{}
	}
	return c.Doc.Components
}

func (c *Ctx) AddSchema(name string, s *Schema) *Schema {
	cs := c.comps()
	if cs.Schemas == nil {
		cs.Schemas = map[string]*Schema{}
	}
	cs.Schemas[name] = s
	return &Schema{Ref: RefSchemas + name}
}

// ---------------------------------------------------------------------------
// primitive parameter / property types

type Prim struct {
	Name   string // short id used in labels
	Type   string
	Format string
}

func (p Prim) Schema() *Schema {
	s := &Schema{Type: p.Type, Format: p.Format, TimeFormat: p.Layout()}
	// the layout may be written as a Go string literal instead of a constant of package time
	if strings.HasSuffix(p.Name, "~lit") {
		s.TimeFormat = strconv.Quote(GoLayout(p.Layout()))
	}
	return s
}

// Layout is the x-goag-go-time-format of a date-time primitive ("" = goag's default), by
// its canonical name: it travels in the name after an '@' (datetime@time.RFC1123Z; a
// trailing ~lit says the document spells it as a string literal).
func (p Prim) Layout() string {
	if i := strings.Index(p.Name, "@"); i >= 0 {
		return strings.TrimSuffix(p.Name[i+1:], "~lit")
	}
	return ""
}

// CanonLayout maps a layout written as a Go string literal to the constant of package
// time with the same text (the name every oracle knows it by).
func CanonLayout(expr string) string {
	if strings.HasPrefix(expr, "\"") {
		if text, err := strconv.Unquote(expr); err == nil {
			for _, name := range TimeLayouts {
				if GoLayout(name) == text {
					return name
				}
			}
		}
	}
	return expr
}

// TimeLayouts are the layouts the generators draw for date-time parameters and
// response headers; GoLayout gives their meaning.
var TimeLayouts = []string{"time.RFC1123Z", "time.DateOnly", "time.DateTime", "time.RFC3339"}

func GoLayout(expr string) string {
	if strings.HasPrefix(expr, "\"") {
		text, _ := strconv.Unquote(expr)
		return text
	}
	switch expr {
	case "time.RFC1123Z":
		return time.RFC1123Z
	case "time.DateOnly":
		return time.DateOnly
	case "time.DateTime":
		return time.DateTime
	case "time.RFC3339":
		return time.RFC3339
	}
	return ""
}

var Prims = []Prim{
	{"string", "string", ""},
	{"datetime", "string", "date-time"},
	{"date", "string", "date"},
	{"byte", "string", "byte"},
	{"binary", "string", "binary"},
	{"password", "string", "password"},
	{"int", "integer", ""},
	{"int32", "integer", "int32"},
	{"int64", "integer", "int64"},
	{"number", "number", ""},
	{"float", "number", "float"},
	{"double", "number", "double"},
	{"bool", "boolean", ""},
}

func PrimOf(s *Schema) (Prim, bool) {
	for _, p := range Prims {
		if p.Type == s.Type && p.Format == s.Format {
			if p.Format == "date-time" && s.TimeFormat != "" {
				p.Name = "datetime@" + CanonLayout(s.TimeFormat)
			}
			return p, true
		}
	}
	return Prim{}, false
}

func (c *Ctx) prim(label string) Prim {
	return rapid.SampledFrom(Prims).Draw(c.T, label)
}

// paramPrim is prim for parameter and response-header positions: a date-time there
// may carry a Go time layout (x-goag-go-time-format).
func (c *Ctx) paramPrim(label string) Prim {
	return c.maybeLayout(c.prim(label), label)
}

func (c *Ctx) maybeLayout(p Prim, label string) Prim {
	if p.Format == "date-time" && p.Layout() == "" && c.Allow("param:time-layout") && rapid.Bool().Draw(c.T, label+"_layout") {
		p.Name = "datetime@" + rapid.SampledFrom(TimeLayouts).Draw(c.T, label+"_layout_expr")
		c.Tag("param:time-layout")
		if rapid.IntRange(0, 3).Draw(c.T, label+"_layout_literal") == 0 {
			p.Name += "~lit"
			c.Tag("param:time-layout-as-literal")
		}
	}
	return p
}

// ---------------------------------------------------------------------------
// JSON-dialect schema generator (DESIGN.md §3.2)

// Schema draws a schema of the JSON dialect K that is admissible (D_core) at all
// the given matrix positions (component, property, items, addprops, request-body,
// response-body, allof-member, oneof-member). Construction with bounded retry: a
// draw behind a known finding is counted in Excluded and replaced.
func (c *Ctx) Schema(depth int, positions ...string) *Schema {
	for tries := 0; tries < 12; tries++ {
		s := c.rawSchema(depth, positions[0])
		if c.AllowSchema(s, positions...) {
			c.Tag("k:" + c.tagKind(s))
			if s.Nullable {
				c.Tag("nullable")
			}
			return s
		}
	}
	return &Schema{Type: "string"}
}

func (c *Ctx) tagKind(s *Schema) string {
	if s.Ref != "" {
		return "ref"
	}
	return KindOf(s)
}

func (c *Ctx) rawSchema(depth int, pos string) *Schema {
	t := c.T
	type alt struct {
		w    int
		name string
	}
	alts := []alt{{6, "prim"}, {1, "any"}}
	if depth > 0 {
		alts = append(alts, alt{2, "array"}, alt{3, "object"}, alt{1, "map"}, alt{1, "allOf"}, alt{1, "oneOf"})
	}
	if c.Doc.Components != nil && len(c.Doc.Components.Schemas) > 0 {
		alts = append(alts, alt{3, "ref"})
		if depth > 0 && pos != "component" {
			alts = append(alts, alt{1, "nullable-ref"})
		}
		if depth > 0 && len(c.compositeComponents()) > 0 {
			alts = append(alts, alt{1, "array-of-composite-ref"})
		}
	}
	var names []string
	for _, a := range alts {
		for i := 0; i < a.w; i++ {
			names = append(names, a.name)
		}
	}
	kind := rapid.SampledFrom(names).Draw(t, "kind")
	var s *Schema
	switch kind {
	case "prim":
		pr := c.prim("prim")
		// (C06 only) a date-time property / item may carry a Go layout of its own
		if c.JSONTimeLayouts && (pos == "property" || pos == "items") {
			pr = c.maybeLayout(pr, "prim")
		}
		s = pr.Schema()
	case "any":
		s = &Schema{}
	case "array":
		s = &Schema{Type: "array", Items: c.Schema(depth-1, "items")}
		// items that are an inline composition (not a $ref to one)
		if depth > 1 && rapid.IntRange(0, 4).Draw(t, "items_inline_composite") == 0 {
			var it *Schema
			if rapid.Bool().Draw(t, "items_allof") {
				it = c.allOfSchema(depth - 1)
			} else {
				it = c.oneOfSchema(depth - 1)
			}
			if cand := (&Schema{Type: "array", Items: it}); c.AllowSchema(cand, pos) {
				s = cand
				c.Tag("array:items-inline-composite")
			}
		}
	case "object":
		s = c.objectSchema(depth, true)
	case "map":
		s = &Schema{Type: "object", AdditionalProperties: c.addProps(depth)}
	case "array-of-composite-ref":
		name := rapid.SampledFrom(c.compositeComponents()).Draw(t, "composite_ref")
		s = &Schema{Type: "array", Items: &Schema{Ref: RefSchemas + name}}
		c.Tag("array-of-composite-ref")
	case "nullable-ref":
		// OpenAPI 3.0's idiom for "this object or null": nullable beside a one-member allOf
		name := c.objectComponent(depth-1, "nullable_ref", false)
		s = &Schema{Nullable: true, AllOf: []*Schema{{Ref: RefSchemas + name}}}
		c.Tag("nullable-ref-idiom")
		return s
	case "allOf":
		s = c.allOfSchema(depth)
		if pos != "component" {
			// composites are generated as components and referenced: goag names inline
			// composite members after their position, which the harness need not know
			return c.hoist("Sch", s)
		}
	case "oneOf":
		s = c.oneOfSchema(depth)
		if pos != "component" {
			return c.hoist("Sch", s)
		}
	case "ref":
		name := rapid.SampledFrom(SortedKeys(c.Doc.Components.Schemas)).Draw(t, "ref")
		// a date-time component is `type X time.Time` without JSON methods (known
		// finding): referenced from a JSON position it is encoded as {}
		if tgt := c.Doc.ResolveSchema(c.Doc.Components.Schemas[name]); tgt != nil && tgt.Type == "string" && tgt.Format == "date-time" && !c.Allow("json-ref:datetime-component") {
			return &Schema{Type: "string", Format: "date-time"}
		}
		// an alias component is `type A B` without B's JSON methods (known finding
		// C06-F1): at JSON positions reference the aliased component itself
		if !c.Allow("json-ref:alias-component") {
			for i := 0; i < 8; i++ {
				cs := c.Doc.Components.Schemas[name]
				if cs == nil || cs.Ref == "" {
					break
				}
				name = strings.TrimPrefix(cs.Ref, RefSchemas)
			}
		}
		return &Schema{Ref: RefSchemas + name}
	}
	// nullable is drawn for primitives, any, inline objects and maps only: for arrays
	// and composites the outcome depends on item/member details the matrix classes do
	// not capture (those combinations are exercised by the matrix rows themselves).
	if s.Type != "array" && len(s.AllOf) == 0 && len(s.OneOf) == 0 && rapid.IntRange(0, 4).Draw(t, "nullable") == 0 {
		s.Nullable = true
	}
	return s
}

// compositeComponents lists the component schemas that are (not aliases of) a oneOf
// or allOf.
func (c *Ctx) compositeComponents() []string {
	var out []string
	if c.Doc.Components == nil {
		return nil
	}
	for _, name := range SortedKeys(c.Doc.Components.Schemas) {
		if cs := c.Doc.Components.Schemas[name]; cs != nil && cs.Ref == "" && (len(cs.OneOf) > 0 || len(cs.AllOf) > 0) {
			out = append(out, name)
		}
	}
	return out
}

// hoist places s into components/schemas when it is admissible there and returns
// a $ref; otherwise a plain string schema.
func (c *Ctx) hoist(prefix string, s *Schema) *Schema {
	if !c.AllowSchema(s, "component") {
		return &Schema{Type: "string"}
	}
	return c.AddSchema(c.CompName(prefix, "hoist"), s)
}

// KindOf is a coarse classification of an (unresolved) schema used in labels.
func KindOf(s *Schema) string {
	switch {
	case s.Ref != "":
		return "ref"
	case len(s.AllOf) > 0:
		return "allOf"
	case len(s.OneOf) > 0:
		return "oneOf"
	case s.Type == "array":
		return "array"
	case s.Type == "object":
		return "object"
	case s.Type == "":
		return "any"
	}
	if p, ok := PrimOf(s); ok {
		return p.Name
	}
	return s.Type
}

func (c *Ctx) addProps(depth int) *AddProps {
	t := c.T
	switch rapid.IntRange(0, 2).Draw(t, "addprops") {
	case 0:
		c.Tag("addprops:true")
		return &AddProps{Bool: Bool(true)}
	default:
		c.Tag("addprops:schema")
		s := c.Schema(min(depth-1, 1), "addprops")
		// an inline object under additionalProperties compiles but is encoded with Go
		// field names (known finding): reference a component instead
		if s.Ref == "" && (s.Type == "object" || s.Type == "array" && s.Items != nil && s.Items.Ref == "" && s.Items.Type == "object") && !c.Allow("addprops:inline-object") {
			s.Nullable = false
			s = c.hoist("Sch", s)
		}
		return &AddProps{Schema: s}
	}
}

func (c *Ctx) objectSchema(depth int, withProps bool) *Schema {
	t := c.T
	s := &Schema{Type: "object"}
	n := rapid.IntRange(1, 4).Draw(t, "nprops")
	s.Properties = map[string]*Schema{}
	for i := 0; i < n; i++ {
		name := c.SafeName("p", "prop")
		// (a property may be named like a specification extension: it is a property all the same)
		switch rapid.IntRange(0, 9).Draw(t, "prop_name_variant") {
		case 0:
			name = "x-" + name
			c.Tag("prop:named-like-extension")
		case 1, 2:
			// PascalCase property names (Radius, ID): common where the API mirrors Go / C# types
			name = strings.ToUpper(name[:1]) + name[1:]
			c.Tag("prop:pascal-case")
		}
		s.Properties[name] = c.Schema(depth-1, "property")
		if rapid.Bool().Draw(t, "required") {
			s.Required = append(s.Required, name)
		}
		// readOnly / writeOnly are annotations goag ignores: one Go type serves requests
		// and responses, and `required` keeps its meaning in both directions
		if ps := s.Properties[name]; ps.Ref == "" && rapid.IntRange(0, 7).Draw(t, "rw_only") == 0 {
			if rapid.Bool().Draw(t, "read_only") {
				ps.ReadOnly = true
				c.Tag("prop:readOnly")
			} else {
				ps.WriteOnly = true
				c.Tag("prop:writeOnly")
			}
		}
	}
	sort.Strings(s.Required)
	switch rapid.IntRange(0, 5).Draw(t, "objaddprops") {
	case 0:
		s.AdditionalProperties = c.addProps(depth)
	case 1:
		s.AdditionalProperties = &AddProps{Bool: Bool(false)}
	}
	return s
}

// plainObject draws an object schema with declared properties only.
func (c *Ctx) plainObject(depth int) *Schema {
	s := c.objectSchema(depth, true)
	s.AdditionalProperties = nil
	s.Nullable = false
	return s
}

// objectComponent returns the name of a (new or existing) component whose target is
// a plain object schema with declared properties.
func (c *Ctx) objectComponent(depth int, label string, fresh bool) string {
	t := c.T
	if !fresh && c.Doc.Components != nil {
		var have []string
		for _, name := range SortedKeys(c.Doc.Components.Schemas) {
			s := c.Doc.Components.Schemas[name]
			if s.Ref == "" && s.Type == "object" && len(s.Properties) > 0 && !s.Nullable && s.AdditionalProperties == nil && !c.discriminated[name] {
				have = append(have, name)
			}
		}
		if len(have) > 0 && rapid.Bool().Draw(t, label+"_reuse") {
			return rapid.SampledFrom(have).Draw(t, label+"_pick")
		}
	}
	name := c.CompName("Obj", label)
	c.AddSchema(name, c.plainObject(max(depth-1, 0)))
	return name
}

func (c *Ctx) allOfSchema(depth int) *Schema {
	t := c.T
	n := rapid.IntRange(1, 3).Draw(t, "nallof")
	s := &Schema{}
	used := map[string]bool{}
	order := ""
	for i := 0; i < n; i++ {
		if rapid.Bool().Draw(t, "allof_ref") {
			name := c.objectComponent(depth, "allof", false)
			if used[name] {
				name = c.objectComponent(depth, "allof", true)
			}
			used[name] = true
			s.AllOf = append(s.AllOf, &Schema{Ref: RefSchemas + name})
			order += "R"
		} else {
			m := c.plainObject(max(depth-1, 0))
			for tries := 0; !c.AllowSchema(m, "allof-member") && tries < 6; tries++ {
				m = c.plainObject(0)
			}
			if !c.AllowSchema(m, "allof-member") {
				m = &Schema{Type: "object", Properties: map[string]*Schema{c.SafeName("p", "flat"): {Type: "string"}}}
			}
			s.AllOf = append(s.AllOf, m)
			order += "I"
		}
	}
	// a last member that is an open object (declared properties beside
	// additionalProperties): it takes every key the members before it did not claim
	if rapid.IntRange(0, 3).Draw(t, "allof_open_last") == 0 {
		open := c.plainObject(0)
		if rapid.Bool().Draw(t, "allof_open_typed") {
			open.AdditionalProperties = &AddProps{Schema: &Schema{Type: "string"}}
		} else {
			open.AdditionalProperties = &AddProps{Bool: Bool(true)}
		}
		if c.AllowSchema(open, "component") {
			ref := c.AddSchema(c.CompName("Obj", "allof_open"), open)
			if c.AllowSchema(ref, "allof-member") {
				s.AllOf = append(s.AllOf, ref)
				order += "O"
			}
		}
	}
	c.Tag("allOf:" + order)
	return s
}

func (c *Ctx) oneOfSchema(depth int) *Schema {
	t := c.T
	n := rapid.IntRange(2, 4).Draw(t, "noneof")
	s := &Schema{}
	if rapid.Bool().Draw(t, "discriminator") {
		c.Tag("oneOf:discriminator")
		prop := c.SafeName("kind", "disc")
		s.Discriminator = &Discriminator{PropertyName: prop}
		withMapping := rapid.Bool().Draw(t, "mapping")
		mapStyle := ""
		if withMapping {
			s.Discriminator.Mapping = map[string]string{}
			mapStyle = rapid.SampledFrom([]string{"full", "first-only", "random", "random"}).Draw(t, "mapping_style")
			c.Tag("oneOf:mapping-" + mapStyle)
		}
		for i := 0; i < n; i++ {
			name := c.objectComponent(depth, "oneof", true)
			obj := c.Doc.Components.Schemas[name]
			obj.Properties[prop] = &Schema{Type: "string"}
			obj.Required = append(obj.Required, prop)
			sort.Strings(obj.Required)
			if c.discriminated == nil {
				c.discriminated = map[string]bool{}
			}
			c.discriminated[name] = true
			s.OneOf = append(s.OneOf, &Schema{Ref: RefSchemas + name})
			mapped := false
			switch mapStyle {
			case "full":
				mapped = true
			case "first-only":
				// (the Cat / Dog / Lizard shape of the OpenAPI text: fewer keys than alternatives)
				mapped = i == 0
			default:
				mapped = i == n-1 || rapid.IntRange(0, 2).Draw(t, "mapped") != 0
			}
			if withMapping && mapped {
				key := c.PlainName("m", "mapkey")
				// (a key that merely repeats the schema's own name is common in hand-written specs)
				if rapid.IntRange(0, 3).Draw(t, "mapkey_identity") == 0 {
					key = name
				}
				if rapid.Bool().Draw(t, "mapfull") {
					s.Discriminator.Mapping[key] = RefSchemas + name
				} else {
					s.Discriminator.Mapping[key] = name
				}
			}
		}
		return s
	}
	c.Tag("oneOf:plain")
	// variants are pairwise disjoint (no document is valid for two of them; otherwise
	// no decoder could preserve the chosen variant): at most one primitive per JSON
	// type group, and every object variant requires a property of its own
	usedGroup := map[string]bool{}
	requireOwn := func(obj *Schema) {
		names := SortedKeys(obj.Properties)
		have := map[string]bool{}
		for _, r := range obj.Required {
			have[r] = true
		}
		if len(names) > 0 && !have[names[0]] {
			obj.Required = append(obj.Required, names[0])
			sort.Strings(obj.Required)
		}
		// sometimes the variant's only required property is nullable: the key must still
		// be present (required and nullable are independent), which is what tells this
		// variant from the next when there is no discriminator
		if len(names) > 0 && rapid.IntRange(0, 2).Draw(t, "sole_required_nullable") == 0 {
			if ps := obj.Properties[names[0]]; ps.Ref == "" && len(ps.AllOf)+len(ps.OneOf) == 0 && ps.Type != "array" && ps.Type != "object" && ps.Type != "" {
				cp := *ps
				cp.Nullable = true
				if c.AllowSchema(&cp, "property") {
					obj.Properties[names[0]] = &cp
					obj.Required = []string{names[0]}
					c.Tag("oneOf:variant-sole-required-is-nullable")
				}
			}
		}
	}
	for i := 0; i < n; i++ {
		switch rapid.IntRange(0, 2).Draw(t, "oneof_member") {
		case 0:
			name := c.objectComponent(depth, "oneof", true)
			requireOwn(c.Doc.Components.Schemas[name])
			s.OneOf = append(s.OneOf, &Schema{Ref: RefSchemas + name})
		case 1:
			m := c.plainObject(max(depth-1, 0))
			requireOwn(m)
			if c.AllowSchema(m, "oneof-member") {
				s.OneOf = append(s.OneOf, m)
				break
			}
			fallthrough
		default:
			m := c.prim("oneof_prim").Schema()
			group := m.Type
			if group == "integer" {
				group = "number"
			}
			if usedGroup[group] || !c.AllowSchema(m, "oneof-member") {
				continue
			}
			usedGroup[group] = true
			s.OneOf = append(s.OneOf, m)
		}
	}
	for len(s.OneOf) < 2 {
		name := c.objectComponent(depth, "oneof", true)
		requireOwn(c.Doc.Components.Schemas[name])
		s.OneOf = append(s.OneOf, &Schema{Ref: RefSchemas + name})
	}
	return s
}

// ---------------------------------------------------------------------------
// parameters

// ParamSchema draws a primitive (or, for query, array-of-primitive) parameter
// schema, inline or as $ref to a primitive component schema.
func (c *Ctx) ParamSchema(in string, label string) *Schema {
	t := c.T
	p := c.paramPrim(label + "_prim")
	c.Tag("param:" + in + ":" + p.Name)
	s := p.Schema()
	// `pattern` is written in the regular-expression dialect of ECMA 262 (look-ahead and all);
	// this one admits every string
	if p.Type == "string" && p.Format == "" && rapid.IntRange(0, 5).Draw(t, label+"_pattern") == 0 {
		s.Pattern = "^(?=[\\s\\S]*$)[\\s\\S]*$"
		c.Tag("param:pattern")
	}
	// (RFC1123Z text contains a comma: not inside form-style arrays)
	isArray := in == "query" && rapid.IntRange(0, 3).Draw(t, label+"_array") == 0 && p.Layout() != "time.RFC1123Z"
	// (arrays of a string component: the one array whose elements need no parsing, only a conversion)
	if isArray && rapid.IntRange(0, 3).Draw(t, label+"_array_of_strings") == 0 {
		p = Prims[0]
		s = p.Schema()
	}
	refOdds := 3
	if isArray {
		refOdds = 1
	}
	if rapid.IntRange(0, refOdds).Draw(t, label+"_ref") == 0 && c.AllowSchema(s, "component") {
		name := c.CompName("Prm", label)
		r := c.AddSchema(name, s)
		if c.AllowSchema(r, in) {
			s = r
			c.Tag("param:schema-ref")
			s = c.maybeAliasHops(s, in, label)
		}
	}
	if isArray {
		a := &Schema{Type: "array", Items: s}
		if c.AllowSchema(a, in) {
			c.Tag("param:array")
			return a
		}
	}
	return s
}

// maybeAliasHops: now and then the reference goes through one or two alias components
// (`A: {$ref: B}`) before it reaches the schema.
func (c *Ctx) maybeAliasHops(ref *Schema, pos, label string) *Schema {
	for hops := rapid.SampledFrom([]int{0, 0, 0, 1, 1, 2}).Draw(c.T, label+"_alias_hops"); hops > 0; hops-- {
		name := c.CompName("Aka", label+"_alias")
		a := c.AddSchema(name, &Schema{Ref: ref.Ref})
		if !c.AllowSchema(a, pos) {
			delete(c.comps().Schemas, name)
			break
		}
		ref = a
		c.Tag("param:schema-ref-through-alias")
	}
	return ref
}

// Param draws a parameter declaration for location in; it may be placed into
// components/parameters and referenced (possibly through an alias).
func (c *Ctx) Param(in, name string, required bool) *Parameter {
	t := c.T
	p := &Parameter{Name: name, In: in, Required: required, Schema: c.ParamSchema(in, "param")}
	// `deprecated` is an annotation: a deprecated parameter is parsed and required as before
	if rapid.IntRange(0, 5).Draw(t, "param_deprecated") == 0 {
		p.Deprecated = true
		c.Tag("param:deprecated")
	}
	if rapid.IntRange(0, 3).Draw(t, "param_component") == 0 && c.AllowSchema(p.Schema, "component-parameter-"+in) {
		cs := c.comps()
		if cs.Parameters == nil {
			cs.Parameters = map[string]*Parameter{}
		}
		cname := c.CompName("Par", "parcomp")
		cs.Parameters[cname] = p
		c.Tag("param:component")
		return &Parameter{Ref: RefParameters + cname}
	}
	return p
}

// ---------------------------------------------------------------------------
// responses and operations

func EmptyResponses() map[string]*Response {
	return map[string]*Response{"default": {Description: Str("")}}
}

func MinimalOp() *Operation { return &Operation{Responses: EmptyResponses()} }

// JSONContent wraps a schema as application/json content.
func JSONContent(s *Schema) map[string]*MediaType {
	return map[string]*MediaType{"application/json": {Schema: s}}
}

// ---------------------------------------------------------------------------
// path templates (DESIGN.md §4 C03)

// Template is a list of segments; a variable segment is "{}" until named.
type Template []string

func (tp Template) String() string { return "/" + strings.Join(tp, "/") }

// Class is the template with variables anonymised (equivalence class).
func (tp Template) Class() string {
	out := make([]string, len(tp))
	for i, s := range tp {
		if strings.HasPrefix(s, "{") {
			out[i] = "{}"
		} else {
			out[i] = s
		}
	}
	return "/" + strings.Join(out, "/")
}

func (tp Template) Vars() []string {
	var out []string
	for _, s := range tp {
		if strings.HasPrefix(s, "{") {
			out = append(out, s[1:len(s)-1])
		}
	}
	return out
}

func ParseTemplate(s string) Template {
	return Template(strings.Split(strings.TrimPrefix(s, "/"), "/"))
}

// Templates draws 1..maxN pairwise non-equivalent templates of depth <= maxDepth
// over {a, b, {v}, ε-last}. Construction is by insertion into the set of
// equivalence classes (no rejection of whole cases).
func (c *Ctx) Templates(maxN, maxDepth int) []Template {
	t := c.T
	n := rapid.IntRange(1, maxN).Draw(t, "ntemplates")
	seen := map[string]bool{}
	var out []Template
	for i := 0; i < n*3 && len(out) < n; i++ {
		depth := rapid.IntRange(1, maxDepth).Draw(t, "depth")
		var tp Template
		for j := 0; j < depth; j++ {
			last := j == depth-1
			opts := []string{"a", "b", "{}", "{}"}
			if last {
				opts = append(opts, "")
			}
			seg := rapid.SampledFrom(opts).Draw(t, "seg")
			tp = append(tp, seg)
		}
		// prefer extending an existing template's prefix so that tries are deep
		if len(out) > 0 && rapid.Bool().Draw(t, "share_prefix") {
			base := rapid.SampledFrom(out).Draw(t, "base")
			k := rapid.IntRange(0, min(len(base), len(tp))).Draw(t, "k")
			copy(tp[:k], base[:k])
			// a shared prefix must not carry an empty segment in the middle
			for j := 0; j < len(tp)-1; j++ {
				if tp[j] == "" {
					tp[j] = "a"
				}
			}
		}
		if seen[tp.Class()] {
			continue
		}
		seen[tp.Class()] = true
		out = append(out, tp)
	}
	// name the variables: same position under the same parent may carry different
	// names in different templates (goag keys its route tree on position only).
	for _, tp := range out {
		for j, s := range tp {
			if s == "{}" {
				tp[j] = "{" + c.VarName("var") + "}"
			}
		}
	}
	sort.Slice(out, func(i, j int) bool { return out[i].String() < out[j].String() })
	return out
}

// ---------------------------------------------------------------------------
// base path forms (DESIGN.md §4 C03)

type BaseForm struct {
	Name     string
	Servers  []*Server
	Flag     string // --basepath
	Expected string // reference base path (trailing slash removed)
}

func BaseForms() []BaseForm {
	return []BaseForm{
		{Name: "none"},
		{Name: "abs-url", Servers: []*Server{{URL: "http://h.example/v1"}}, Expected: "/v1"},
		{Name: "rel-path", Servers: []*Server{{URL: "/api/v1"}}, Expected: "/api/v1"},
		{Name: "trailing-slash", Servers: []*Server{{URL: "/v1/"}}, Expected: "/v1"},
		{Name: "root", Servers: []*Server{{URL: "/"}}, Expected: ""},
		{Name: "abs-url-root", Servers: []*Server{{URL: "https://h.example/"}}, Expected: ""},
		{Name: "abs-url-nopath", Servers: []*Server{{URL: "https://h.example"}}, Expected: ""},
		{Name: "vars", Servers: []*Server{{URL: "https://{user}.example.com:{port}/{base}", Variables: map[string]*ServerVariable{
			"user": {Default: "demo"}, "port": {Default: "8443"}, "base": {Default: "api/v2"}}}}, Expected: "/api/v2"},
		{Name: "flag", Flag: "/x"},
		{Name: "flag-over-servers", Servers: []*Server{{URL: "/ignored"}}, Flag: "/x/y"},
		{Name: "second-server-ignored", Servers: []*Server{{URL: "/v1"}, {URL: "/v2"}}, Expected: "/v1"},
		{Name: "flag-root-over-servers", Servers: []*Server{{URL: "https://h.example/api/v1"}}, Flag: "/"},
		{Name: "flag-trailing-slash", Flag: "/x/"},
		{Name: "first-server-without-path", Servers: []*Server{{URL: "https://h.example"}, {URL: "https://staging.example/v2"}}, Expected: ""},
		{Name: "first-server-variable-host-only", Servers: []*Server{{URL: "https://{region}.api.example.com", Variables: map[string]*ServerVariable{"region": {Default: "eu"}}}, {URL: "/v3"}}, Expected: ""},
		{Name: "server-variable-empty-default", Servers: []*Server{{URL: "https://h.example/api{version}", Variables: map[string]*ServerVariable{"version": {Default: ""}}}}, Expected: "/api"},
		// (the base path is a path like r.URL.Path: decoded; the url of a server spells it escaped)
		{Name: "server-path-percent-encoded", Servers: []*Server{{URL: "https://h.example/caf%C3%A9/v1"}}, Expected: "/caf\u00e9/v1"},
		{Name: "server-path-non-ascii", Servers: []*Server{{URL: "https://h.example/caf\u00e9"}}, Expected: "/caf\u00e9"},
		{Name: "server-path-with-space", Servers: []*Server{{URL: "https://h.example/my%20api/v2"}}, Expected: "/my api/v2"},
		{Name: "relative-server-first", Servers: []*Server{{URL: "/"}, {URL: "https://api.example.com/v1"}}, Expected: ""},
		{Name: "relative-server-with-path-first", Servers: []*Server{{URL: "/internal"}, {URL: "https://api.example.com/v1"}}, Expected: "/internal"},
		{Name: "server-variable-glued-to-host", Servers: []*Server{{URL: "https://api.example.com{basePath}", Variables: map[string]*ServerVariable{"basePath": {Default: "/v2"}}}}, Expected: "/v2"},
		{Name: "server-variable-default-with-slashes", Servers: []*Server{{URL: "https://api.example.com/{basePath}", Variables: map[string]*ServerVariable{"basePath": {Default: "api/v3/"}}}}, Expected: "/api/v3"},
		{Name: "server-variable-used-twice", Servers: []*Server{{URL: "https://{region}.api.example.com/{region}/{version}", Variables: map[string]*ServerVariable{"region": {Default: "eu"}, "version": {Default: "v2"}}}}, Expected: "/eu/v2"},
	}
}

func (b BaseForm) BasePath() string {
	if b.Flag != "" {
		return strings.TrimSuffix(b.Flag, "/")
	}
	return b.Expected
}

func min(a, b int) int {
	if a < b {
		return a
	}
	return b
}

func max(a, b int) int {
	if a > b {
		return a
	}
	return b
}

package specgen

// Kitchen-sink documents (C14, C20): every D_core feature at once, built
// deterministically.

func KitchenSink() []*Doc {
	var out []*Doc
	{
		d := NewDoc()
		d.Servers = []*Server{{URL: "https://api.example.com/api/v1"}}
		d.Components = &Components{
			Schemas: map[string]*Schema{
				"Pet": {Type: "object", Properties: map[string]*Schema{
					"id": {Type: "integer", Format: "int64"}, "name": {Type: "string"}, "tag": {Type: "string", Nullable: true},
					"born": {Type: "string", Format: "date-time"}, "weight": {Type: "number", Format: "float"}, "alive": {Type: "boolean"},
					"nicknames": {Type: "array", Items: &Schema{Type: "string"}}, "scores": {Type: "array", Items: &Schema{Type: "integer", Format: "int32"}},
					"meta": {}, "owner": {Ref: RefSchemas + "Owner"}, "attrs": {Type: "object", AdditionalProperties: &AddProps{Schema: &Schema{Type: "string"}}}},
					Required: []string{"id", "name"}},
				"Owner":  {Type: "object", Properties: map[string]*Schema{"login": {Type: "string"}, "age": {Type: "integer"}}, Required: []string{"login"}, AdditionalProperties: &AddProps{Bool: Bool(true)}},
				"Pets":   {Type: "array", Items: &Schema{Ref: RefSchemas + "Pet"}},
				"Cat":    {Type: "object", Properties: map[string]*Schema{"kind": {Type: "string"}, "lives": {Type: "integer"}}, Required: []string{"kind", "lives"}},
				"Dog":    {Type: "object", Properties: map[string]*Schema{"kind": {Type: "string"}, "bark": {Type: "string"}}, Required: []string{"kind", "bark"}},
				"Animal": {OneOf: []*Schema{{Ref: RefSchemas + "Cat"}, {Ref: RefSchemas + "Dog"}}, Discriminator: &Discriminator{PropertyName: "kind", Mapping: map[string]string{"cat": RefSchemas + "Cat", "dog": RefSchemas + "Dog"}}},
				"Either": {OneOf: []*Schema{{Ref: RefSchemas + "Owner"}, {Type: "integer"}, {Type: "boolean"}}},
				"Tagged": {AllOf: []*Schema{{Ref: RefSchemas + "Owner"}, {Type: "object", Properties: map[string]*Schema{"label": {Type: "string"}, "rank": {Type: "integer", Nullable: true}}, Required: []string{"label"}}}},
				"Limit":  {Type: "integer", Format: "int32"},
			},
			Parameters:    map[string]*Parameter{"Trace": {Name: "X-Trace-Token", In: "header", Schema: &Schema{Type: "string"}}},
			Headers:       map[string]*Header{"RateLimit": {Schema: &Schema{Type: "integer"}}},
			RequestBodies: map[string]*RequestBody{},
			Responses: map[string]*Response{"Problem": {Description: Str("problem"), Content: JSONContent(&Schema{Ref: RefSchemas + "Owner"}),
				Headers: map[string]*Header{"X-Rate-Limit": {Ref: RefHeaders + "RateLimit"}}},
				"BadRequest": {Description: Str("bad"), Content: JSONContent(&Schema{Ref: RefSchemas + "Owner"})}},
			SecuritySchemes: map[string]*SecurityScheme{"bearer": {Type: "http", Scheme: "bearer"}, "key": {Type: "apiKey", In: "header", Name: "X-Api-Key"}, "qkey": {Type: "apiKey", In: "query", Name: "api_key"}},
		}
		str := &Schema{Type: "string"}
		d.Paths["/pets"] = &PathItem{
			Get: &Operation{OperationID: "listPets", Deprecated: true, Tags: []string{"pets", "legacy"}, Parameters: []*Parameter{
				{Name: "limit", In: "query", Schema: &Schema{Ref: RefSchemas + "Limit"}}, {Name: "tags", In: "query", Schema: &Schema{Type: "array", Items: str}},
				{Name: "since", In: "query", Schema: &Schema{Type: "string", Format: "date-time"}}, {Name: "min_weight", In: "query", Required: true, Schema: &Schema{Type: "number"}},
				{Name: "ids", In: "query", Schema: &Schema{Type: "array", Items: &Schema{Type: "integer", Format: "int64"}}}, {Name: "alive", In: "query", Schema: &Schema{Type: "boolean"}},
				{Ref: RefParameters + "Trace"}},
				Responses: map[string]*Response{"200": {Description: Str("ok"), Content: JSONContent(&Schema{Ref: RefSchemas + "Pets"}), Headers: map[string]*Header{"X-Total": {Required: true, Schema: &Schema{Type: "integer"}}, "X-Next": {Schema: str}}},
					"default": {Ref: RefResponses + "Problem"}}},
			Post: &Operation{OperationID: "createPet", Deprecated: true, Tags: []string{"pets"}, RequestBody: &RequestBody{Required: true, Content: JSONContent(&Schema{Ref: RefSchemas + "Pet"})},
				Security:  &[]map[string][]string{{"bearer": {}}, {"key": {}}},
				Responses: map[string]*Response{"201": {Description: Str("created"), Content: JSONContent(&Schema{Ref: RefSchemas + "Pet"})}, "400": {Ref: RefResponses + "BadRequest"}}},
		}
		d.Paths["/pets/{petId}"] = &PathItem{
			Parameters: []*Parameter{{Name: "petId", In: "path", Required: true, Schema: &Schema{Type: "integer", Format: "int64"}}},
			Get:        &Operation{Responses: map[string]*Response{"200": {Description: Str("ok"), Content: JSONContent(&Schema{Ref: RefSchemas + "Pet"})}, "404": {Description: Str("nf")}}},
			Put: &Operation{RequestBody: &RequestBody{Content: JSONContent(&Schema{Ref: RefSchemas + "Tagged"})}, Parameters: []*Parameter{{Name: "If-Match", In: "header", Required: true, Schema: str}},
				Security:  &[]map[string][]string{{"qkey": {}}},
				Responses: map[string]*Response{"200": {Description: Str("ok"), Content: JSONContent(&Schema{Ref: RefSchemas + "Tagged"})}, "default": {Description: Str("")}}},
			Delete: &Operation{Responses: map[string]*Response{"204": {Description: Str("gone")}}},
		}
		d.Paths["/pets/{petId}/photos/{name}"] = &PathItem{
			Post: &Operation{Parameters: []*Parameter{{Name: "name", In: "path", Required: true, Schema: str}, {Name: "petId", In: "path", Required: true, Schema: &Schema{Type: "integer"}}},
				RequestBody: &RequestBody{Content: map[string]*MediaType{"application/octet-stream": {Schema: &Schema{Type: "string", Format: "binary"}}}},
				Responses:   map[string]*Response{"200": {Description: Str("ok"), Content: map[string]*MediaType{"image/png": {Schema: &Schema{Type: "string", Format: "binary"}}}}}},
		}
		d.Paths["/animals"] = &PathItem{
			Post: &Operation{RequestBody: &RequestBody{Content: JSONContent(&Schema{Ref: RefSchemas + "Animal"})},
				Responses: map[string]*Response{"200": {Description: Str("ok"), Content: JSONContent(&Schema{Ref: RefSchemas + "Either"})}}},
			Options: &Operation{Responses: map[string]*Response{"204": {Description: Str("")}}},
		}
		d.Paths["/pets/mine"] = &PathItem{Get: &Operation{Security: &[]map[string][]string{{"bearer": {}}}, Responses: map[string]*Response{"200": {Description: Str("ok"), Content: JSONContent(&Schema{Type: "array", Items: str})}}}}
		d.Paths["/"] = &PathItem{Get: MinimalOp()}
		// parameters that are arrays of arrays (one inner array per occurrence)
		d.Paths["/matrix"] = &PathItem{Get: &Operation{OperationID: "getMatrix", Parameters: []*Parameter{
			{Name: "rows", In: "query", Schema: &Schema{Type: "array", Items: &Schema{Type: "array", Items: &Schema{Type: "integer"}}}},
			{Name: "names", In: "query", Required: true, Schema: &Schema{Type: "array", Items: &Schema{Type: "array", Items: str}}},
			{Name: "X-Labels", In: "header", Schema: &Schema{Type: "array", Items: &Schema{Type: "array", Items: str}}}},
			Responses: EmptyResponses()}}
		d.Paths["/files/"] = &PathItem{Get: MinimalOp()}
		// an array of arrays as a component (rows may be nil), a redirect with a Location header
		d.Components.Schemas["Grid"] = &Schema{Type: "array", Items: &Schema{Type: "array", Items: &Schema{Type: "integer", Format: "int64"}}}
		d.Paths["/grids/{id}"] = &PathItem{
			Parameters: []*Parameter{{Name: "id", In: "path", Required: true, Schema: &Schema{Type: "string"}}},
			Get:        &Operation{Responses: map[string]*Response{"200": {Description: Str("ok"), Content: JSONContent(&Schema{Ref: RefSchemas + "Grid"})}}},
			Put:        &Operation{RequestBody: &RequestBody{Required: true, Content: JSONContent(&Schema{Ref: RefSchemas + "Grid"})}, Responses: map[string]*Response{"200": {Description: Str("ok"), Content: JSONContent(&Schema{Ref: RefSchemas + "Grid"})}}},
		}
		d.Paths["/legacy/{id}"] = &PathItem{Get: &Operation{Parameters: []*Parameter{{Name: "id", In: "path", Required: true, Schema: &Schema{Type: "string"}}},
			Responses: map[string]*Response{"301": {Description: Str("moved"), Headers: map[string]*Header{"Location": {Required: true, Schema: &Schema{Type: "string"}}}}, "200": {Description: Str("ok"), Content: JSONContent(&Schema{Type: "string"})}}}}
		// a constant segment with multi-byte characters in front of variables
		d.Paths["/caf\u00e9/{id}"] = &PathItem{Get: &Operation{Parameters: []*Parameter{{Name: "id", In: "path", Required: true, Schema: &Schema{Type: "integer"}}}, Responses: EmptyResponses()}}
		d.Paths["/caf\u00e9/{id}/\u65e5\u672c/{item}"] = &PathItem{Get: &Operation{Parameters: []*Parameter{{Name: "id", In: "path", Required: true, Schema: &Schema{Type: "string"}}, {Name: "item", In: "path", Required: true, Schema: &Schema{Type: "string"}}}, Responses: EmptyResponses()}}
		// open objects as whole bodies: declared required + optional properties beside
		// additionalProperties (true / typed)
		d.Components.Schemas["Labels"] = &Schema{Type: "object", Properties: map[string]*Schema{"name": {Type: "string"}, "tag": {Type: "string"}, "note": {Type: "string", Nullable: true}}, Required: []string{"name"}, AdditionalProperties: &AddProps{Bool: Bool(true)}}
		d.Components.Schemas["Counters"] = &Schema{Type: "object", Properties: map[string]*Schema{"unit": {Type: "string"}, "scale": {Type: "integer"}}, AdditionalProperties: &AddProps{Schema: &Schema{Type: "integer"}}}
		d.Paths["/labels"] = &PathItem{
			Put:  &Operation{RequestBody: &RequestBody{Required: true, Content: JSONContent(&Schema{Ref: RefSchemas + "Labels"})}, Responses: map[string]*Response{"200": {Description: Str("ok"), Content: JSONContent(&Schema{Ref: RefSchemas + "Labels"})}}},
			Post: &Operation{RequestBody: &RequestBody{Content: JSONContent(&Schema{Ref: RefSchemas + "Counters"})}, Responses: map[string]*Response{"200": {Description: Str("ok"), Content: JSONContent(&Schema{Ref: RefSchemas + "Counters"})}}},
		}
		out = append(out, d)
	}
	return out
}

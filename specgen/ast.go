// Package specgen holds the verification side's own OpenAPI AST (the dialect D of
// DESIGN.md §3), its emitters and its rapid generators. The AST marshals to an
// OpenAPI document with encoding/json and is read back by the driver binary with
// encoding/json; goag's own `specification` package is never used on the oracle side.
package specgen

import (
	"bytes"
	"encoding/json"
	"fmt"
	"sort"
	"strings"
)

type Doc struct {
	OpenAPI    string                 `json:"openapi"`
	Info       Info                   `json:"info"`
	Servers    []*Server              `json:"servers,omitempty"`
	Paths      map[string]*PathItem   `json:"paths"`
	Components *Components            `json:"components,omitempty"`
	Security   *[]map[string][]string `json:"security,omitempty"`
}

type Info struct {
	Title       string `json:"title"`
	Version     string `json:"version"`
	Description string `json:"description,omitempty"`
}

type Server struct {
	URL         string                     `json:"url"`
	Description string                     `json:"description,omitempty"`
	Variables   map[string]*ServerVariable `json:"variables,omitempty"`
}

type ServerVariable struct {
	Default     string   `json:"default"`
	Enum        []string `json:"enum,omitempty"`
	Description string   `json:"description,omitempty"`
}

type PathItem struct {
	Summary     string       `json:"summary,omitempty"`
	Description string       `json:"description,omitempty"`
	Parameters  []*Parameter `json:"parameters,omitempty"`
	// servers of a path item / an operation name other hosts for it; the base path of the
	// generated API comes from the document's own servers only
	Servers []*Server  `json:"servers,omitempty"`
	Get     *Operation `json:"get,omitempty"`
	Put     *Operation `json:"put,omitempty"`
	Post    *Operation `json:"post,omitempty"`
	Delete  *Operation `json:"delete,omitempty"`
	Options *Operation `json:"options,omitempty"`
	Head    *Operation `json:"head,omitempty"`
	Patch   *Operation `json:"patch,omitempty"`
	Trace   *Operation `json:"trace,omitempty"`
}

// Methods in goag's own iteration order (httpMethods()): the order in which
// operations of a path item appear in generated code.
var Methods = []string{"GET", "POST", "PATCH", "PUT", "DELETE", "HEAD", "OPTIONS", "TRACE"}

func (p *PathItem) Op(method string) *Operation {
	switch strings.ToUpper(method) {
	case "GET":
		return p.Get
	case "PUT":
		return p.Put
	case "POST":
		return p.Post
	case "DELETE":
		return p.Delete
	case "OPTIONS":
		return p.Options
	case "HEAD":
		return p.Head
	case "PATCH":
		return p.Patch
	case "TRACE":
		return p.Trace
	}
	return nil
}

func (p *PathItem) SetOp(method string, o *Operation) {
	switch strings.ToUpper(method) {
	case "GET":
		p.Get = o
	case "PUT":
		p.Put = o
	case "POST":
		p.Post = o
	case "DELETE":
		p.Delete = o
	case "OPTIONS":
		p.Options = o
	case "HEAD":
		p.Head = o
	case "PATCH":
		p.Patch = o
	case "TRACE":
		p.Trace = o
	}
}

// Ops returns the declared (method, operation) pairs in goag's method order.
func (p *PathItem) Ops() []MethodOp {
	var out []MethodOp
	for _, m := range Methods {
		if o := p.Op(m); o != nil {
			out = append(out, MethodOp{m, o})
		}
	}
	return out
}

type MethodOp struct {
	Method string
	Op     *Operation
}

type Operation struct {
	OperationID string                 `json:"operationId,omitempty"`
	Summary     string                 `json:"summary,omitempty"`
	Description string                 `json:"description,omitempty"`
	Tags        []string               `json:"tags,omitempty"`
	Parameters  []*Parameter           `json:"parameters,omitempty"`
	RequestBody *RequestBody           `json:"requestBody,omitempty"`
	Responses   map[string]*Response   `json:"responses"`
	Security    *[]map[string][]string `json:"security,omitempty"`
	Servers     []*Server              `json:"servers,omitempty"`
	// `deprecated` is an annotation: a deprecated operation is served like any other
	Deprecated bool `json:"deprecated,omitempty"`
}

type Parameter struct {
	Ref         string  `json:"$ref,omitempty"`
	Name        string  `json:"name,omitempty"`
	In          string  `json:"in,omitempty"`
	Description string  `json:"description,omitempty"`
	Required    bool    `json:"required,omitempty"`
	Deprecated  bool    `json:"deprecated,omitempty"`
	Schema      *Schema `json:"schema,omitempty"`
}

type RequestBody struct {
	Ref         string                `json:"$ref,omitempty"`
	Description string                `json:"description,omitempty"`
	Required    bool                  `json:"required,omitempty"`
	Content     map[string]*MediaType `json:"content,omitempty"`
}

type MediaType struct {
	Schema *Schema `json:"schema,omitempty"`
}

type Response struct {
	Ref         string                `json:"$ref,omitempty"`
	Description *string               `json:"description,omitempty"`
	Headers     map[string]*Header    `json:"headers,omitempty"`
	Content     map[string]*MediaType `json:"content,omitempty"`
}

type Header struct {
	Ref         string  `json:"$ref,omitempty"`
	Description string  `json:"description,omitempty"`
	Required    bool    `json:"required,omitempty"`
	Deprecated  bool    `json:"deprecated,omitempty"`
	Schema      *Schema `json:"schema,omitempty"`
}

type Components struct {
	Schemas         map[string]*Schema         `json:"schemas,omitempty"`
	Parameters      map[string]*Parameter      `json:"parameters,omitempty"`
	Headers         map[string]*Header         `json:"headers,omitempty"`
	RequestBodies   map[string]*RequestBody    `json:"requestBodies,omitempty"`
	Responses       map[string]*Response       `json:"responses,omitempty"`
	SecuritySchemes map[string]*SecurityScheme `json:"securitySchemes,omitempty"`
}

type SecurityScheme struct {
	Type             string      `json:"type"`
	Description      string      `json:"description,omitempty"`
	Name             string      `json:"name,omitempty"`
	In               string      `json:"in,omitempty"`
	Scheme           string      `json:"scheme,omitempty"`
	BearerFormat     string      `json:"bearerFormat,omitempty"`
	OpenIDConnectURL string      `json:"openIdConnectUrl,omitempty"`
	Flows            *OAuthFlows `json:"flows,omitempty"`
}

type OAuthFlows struct {
	Implicit          *OAuthFlow `json:"implicit,omitempty"`
	ClientCredentials *OAuthFlow `json:"clientCredentials,omitempty"`
}

type OAuthFlow struct {
	AuthorizationURL string            `json:"authorizationUrl,omitempty"`
	TokenURL         string            `json:"tokenUrl,omitempty"`
	Scopes           map[string]string `json:"scopes"`
}

type Schema struct {
	Ref                  string             `json:"$ref,omitempty"`
	Type                 string             `json:"type,omitempty"`
	Format               string             `json:"format,omitempty"`
	Nullable             bool               `json:"nullable,omitempty"`
	Description          string             `json:"description,omitempty"`
	Items                *Schema            `json:"items,omitempty"`
	Properties           map[string]*Schema `json:"properties,omitempty"`
	Required             []string           `json:"required,omitempty"`
	AdditionalProperties *AddProps          `json:"additionalProperties,omitempty"`
	AllOf                []*Schema          `json:"allOf,omitempty"`
	OneOf                []*Schema          `json:"oneOf,omitempty"`
	Discriminator        *Discriminator     `json:"discriminator,omitempty"`
	// keywords goag accepts and ignores (outside every oracle)
	// goag's vendor extension: the Go time layout (a Go expression such as time.RFC1123Z)
	// of a date-time string
	TimeFormat string   `json:"x-goag-go-time-format,omitempty"`
	Enum       []any    `json:"enum,omitempty"`
	ReadOnly   bool     `json:"readOnly,omitempty"`
	WriteOnly  bool     `json:"writeOnly,omitempty"`
	Minimum    *float64 `json:"minimum,omitempty"`
	Pattern    string   `json:"pattern,omitempty"`
}

type Discriminator struct {
	PropertyName string            `json:"propertyName"`
	Mapping      map[string]string `json:"mapping,omitempty"`
}

// AddProps is `additionalProperties`: a bool or a schema.
type AddProps struct {
	Bool   *bool
	Schema *Schema
}

func (a AddProps) MarshalJSON() ([]byte, error) {
	if a.Schema != nil {
		return json.Marshal(a.Schema)
	}
	if a.Bool != nil {
		return json.Marshal(*a.Bool)
	}
	return []byte("true"), nil
}

func (a *AddProps) UnmarshalJSON(bs []byte) error {
	t := bytes.TrimSpace(bs)
	if bytes.Equal(t, []byte("true")) || bytes.Equal(t, []byte("false")) {
		b := bytes.Equal(t, []byte("true"))
		a.Bool = &b
		return nil
	}
	a.Schema = &Schema{}
	return json.Unmarshal(bs, a.Schema)
}

// ---------------------------------------------------------------------------
// helpers over the AST (reference resolution; used by all reference models)

const (
	RefSchemas       = "#/components/schemas/"
	RefParameters    = "#/components/parameters/"
	RefHeaders       = "#/components/headers/"
	RefRequestBodies = "#/components/requestBodies/"
	RefResponses     = "#/components/responses/"
)

func (d *Doc) comps() *Components {
	if d.Components == nil {
		return &Components{}
	}
	return d.Components
}

// ResolveSchema follows $ref chains (at most 16 hops) to the defining schema.
func (d *Doc) ResolveSchema(s *Schema) *Schema {
	for i := 0; s != nil && s.Ref != "" && i < 16; i++ {
		s = d.comps().Schemas[strings.TrimPrefix(s.Ref, RefSchemas)]
	}
	return s
}

func (d *Doc) ResolveParameter(p *Parameter) *Parameter {
	for i := 0; p != nil && p.Ref != "" && i < 16; i++ {
		p = d.comps().Parameters[strings.TrimPrefix(p.Ref, RefParameters)]
	}
	return p
}

func (d *Doc) ResolveHeader(h *Header) *Header {
	for i := 0; h != nil && h.Ref != "" && i < 16; i++ {
		h = d.comps().Headers[strings.TrimPrefix(h.Ref, RefHeaders)]
	}
	return h
}

func (d *Doc) ResolveRequestBody(b *RequestBody) *RequestBody {
	for i := 0; b != nil && b.Ref != "" && i < 16; i++ {
		b = d.comps().RequestBodies[strings.TrimPrefix(b.Ref, RefRequestBodies)]
	}
	return b
}

func (d *Doc) ResolveResponse(r *Response) *Response {
	for i := 0; r != nil && r.Ref != "" && i < 16; i++ {
		r = d.comps().Responses[strings.TrimPrefix(r.Ref, RefResponses)]
	}
	return r
}

// EffectiveParameters returns the resolved parameters of an operation: path-item
// level ones overridden by operation-level ones with the same (name, in).
func (d *Doc) EffectiveParameters(pi *PathItem, op *Operation) []*Parameter {
	var out []*Parameter
	idx := map[string]int{}
	for _, lst := range [][]*Parameter{pi.Parameters, op.Parameters} {
		for _, p := range lst {
			r := d.ResolveParameter(p)
			if r == nil {
				continue
			}
			k := r.In + "\x00" + r.Name
			if i, ok := idx[k]; ok {
				out[i] = r
				continue
			}
			idx[k] = len(out)
			out = append(out, r)
		}
	}
	return out
}

// EffectiveSecurity: own list if present, else global; nil/empty = public.
func (d *Doc) EffectiveSecurity(op *Operation) []map[string][]string {
	if op.Security != nil {
		return *op.Security
	}
	if d.Security != nil {
		return *d.Security
	}
	return nil
}

func SortedKeys[T any](m map[string]T) []string {
	out := make([]string, 0, len(m))
	for k := range m {
		out = append(out, k)
	}
	sort.Strings(out)
	return out
}

// JSON renders the document as indented JSON (deterministic: map keys sorted).
func (d *Doc) JSON() []byte {
	var buf bytes.Buffer
	enc := json.NewEncoder(&buf)
	enc.SetEscapeHTML(false)
	enc.SetIndent("", "  ")
	if err := enc.Encode(d); err != nil {
		panic(fmt.Sprintf("specgen: marshal doc: %v", err))
	}
	return buf.Bytes()
}

// OneLineJSON renders the document on a single line without trailing newline.
func (d *Doc) OneLineJSON() []byte {
	var buf bytes.Buffer
	enc := json.NewEncoder(&buf)
	enc.SetEscapeHTML(false)
	if err := enc.Encode(d); err != nil {
		panic(fmt.Sprintf("specgen: marshal doc: %v", err))
	}
	return bytes.TrimRight(buf.Bytes(), "\n")
}

func ParseDoc(bs []byte) (*Doc, error) {
	var d Doc
	if err := json.Unmarshal(bs, &d); err != nil {
		return nil, err
	}
	return &d, nil
}

func Str(s string) *string { return &s }
func Bool(b bool) *bool    { return &b }

package specgen

import (
	"encoding/json"
	"fmt"
	"sort"
	"strings"
)

// Rewrites for C18 (DESIGN.md §4 C18): replace references by inline copies of their
// ultimate target, or hoist inline definitions into fresh components. A site is
// rewritten only when the result stays inside D_core at that position (otherwise
// the pair would only re-discover a known C01 finding); Decide picks the sites.

type Site struct {
	Kind string // schema | parameter | header | requestBody | response
	Pos  string // matrix position for schemas
	Path string // human-readable location
}

type Rewriter struct {
	C *Ctx // gating (D_core) and fresh names; C.Doc is the document being rewritten
	// Decide reports whether the i-th candidate site is rewritten.
	Decide  func(i int, s Site) bool
	Changed []Site
	n       int
}

func CloneDoc(d *Doc) *Doc {
	bs, _ := json.Marshal(d)
	var out Doc
	if err := json.Unmarshal(bs, &out); err != nil {
		panic(err)
	}
	return &out
}

func cloneSchema(s *Schema) *Schema {
	bs, _ := json.Marshal(s)
	var out Schema
	json.Unmarshal(bs, &out)
	return &out
}

func (rw *Rewriter) decide(s Site) bool {
	rw.n++
	if rw.Decide == nil || rw.Decide(rw.n, s) {
		return true
	}
	return false
}

// schemaSites walks every schema position of the document, calling f with a setter.
func (rw *Rewriter) schemaSites(f func(s *Schema, pos, path string, set func(*Schema))) {
	d := rw.C.Doc
	var walk func(s *Schema, path string)
	walk = func(s *Schema, path string) {
		if s == nil || s.Ref != "" {
			return
		}
		for _, name := range SortedKeys(s.Properties) {
			name := name
			f(s.Properties[name], "property", path+".properties."+name, func(n *Schema) { s.Properties[name] = n })
			walk(s.Properties[name], path+".properties."+name)
		}
		if s.Items != nil {
			f(s.Items, "items", path+".items", func(n *Schema) { s.Items = n })
			walk(s.Items, path+".items")
		}
		if s.AdditionalProperties != nil && s.AdditionalProperties.Schema != nil {
			f(s.AdditionalProperties.Schema, "addprops", path+".additionalProperties", func(n *Schema) { s.AdditionalProperties.Schema = n })
			walk(s.AdditionalProperties.Schema, path+".additionalProperties")
		}
		for i := range s.AllOf {
			i := i
			f(s.AllOf[i], "allof-member", fmt.Sprintf("%s.allOf[%d]", path, i), func(n *Schema) { s.AllOf[i] = n })
			walk(s.AllOf[i], fmt.Sprintf("%s.allOf[%d]", path, i))
		}
		if s.Discriminator == nil {
			for i := range s.OneOf {
				i := i
				f(s.OneOf[i], "oneof-member", fmt.Sprintf("%s.oneOf[%d]", path, i), func(n *Schema) { s.OneOf[i] = n })
				walk(s.OneOf[i], fmt.Sprintf("%s.oneOf[%d]", path, i))
			}
		}
	}
	if d.Components != nil {
		for _, name := range SortedKeys(d.Components.Schemas) {
			walk(d.Components.Schemas[name], "components.schemas."+name)
		}
	}
	content := func(m map[string]*MediaType, pos, path string) {
		if mt := m["application/json"]; mt != nil && mt.Schema != nil {
			f(mt.Schema, pos, path, func(n *Schema) { mt.Schema = n })
			walk(mt.Schema, path)
		}
	}
	param := func(p *Parameter, path string) {
		if p == nil || p.Ref != "" || p.Schema == nil {
			return
		}
		f(p.Schema, p.In, path+".schema", func(n *Schema) { p.Schema = n })
	}
	header := func(h *Header, pos, path string) {
		if h == nil || h.Ref != "" || h.Schema == nil {
			return
		}
		f(h.Schema, pos, path+".schema", func(n *Schema) { h.Schema = n })
	}
	response := func(r *Response, bodyPos, path string) {
		if r == nil || r.Ref != "" {
			return
		}
		content(r.Content, bodyPos, path+".content")
		for _, hn := range SortedKeys(r.Headers) {
			header(r.Headers[hn], "response-header", path+".headers."+hn)
		}
	}
	if d.Components != nil {
		for _, n := range SortedKeys(d.Components.Parameters) {
			param(d.Components.Parameters[n], "components.parameters."+n)
		}
		for _, n := range SortedKeys(d.Components.Headers) {
			header(d.Components.Headers[n], "component-header", "components.headers."+n)
		}
		for _, n := range SortedKeys(d.Components.RequestBodies) {
			if rb := d.Components.RequestBodies[n]; rb.Ref == "" {
				content(rb.Content, "request-body-component", "components.requestBodies."+n)
			}
		}
		for _, n := range SortedKeys(d.Components.Responses) {
			response(d.Components.Responses[n], "response-body-component", "components.responses."+n)
		}
	}
	for _, tpl := range SortedKeys(d.Paths) {
		pi := d.Paths[tpl]
		for i, p := range pi.Parameters {
			param(p, fmt.Sprintf("paths.%s.parameters[%d]", tpl, i))
		}
		for _, mo := range pi.Ops() {
			base := "paths." + tpl + "." + strings.ToLower(mo.Method)
			for i, p := range mo.Op.Parameters {
				param(p, fmt.Sprintf("%s.parameters[%d]", base, i))
			}
			if rb := mo.Op.RequestBody; rb != nil && rb.Ref == "" {
				content(rb.Content, "request-body", base+".requestBody")
			}
			for _, st := range SortedKeys(mo.Op.Responses) {
				pos := "response-body"
				if st == "default" {
					pos = "response-body-default"
				}
				response(mo.Op.Responses[st], pos, base+".responses."+st)
			}
		}
	}
}

// InlineRefs replaces $refs by copies of their ultimate targets where that stays in
// D_core; schema refs first, then parameter / header / request body / response refs.
func (rw *Rewriter) InlineRefs() {
	c := rw.C
	d := c.Doc
	rw.schemaSites(func(s *Schema, pos, path string, set func(*Schema)) {
		// the nullable-reference idiom ({nullable: true, allOf: [{$ref: X}]}) is "X or null":
		// its inline form is a copy of X marked nullable
		if s.Ref == "" && s.Nullable && len(s.AllOf) == 1 && s.AllOf[0].Ref != "" && s.Type == "" && len(s.OneOf) == 0 && len(s.Properties) == 0 && pos == "property" {
			if target := d.ResolveSchema(s.AllOf[0]); target != nil && target.Type == "object" && len(target.Properties) > 0 && target.AdditionalProperties == nil && !strings.Contains(path, ".allOf[") {
				cp := cloneSchema(target)
				cp.Nullable = true
				// (an inline object property with nested inline objects is named without a
				// unique prefix - known C01 finding: flat targets only)
				flat := true
				for _, ps := range cp.Properties {
					if ps.Ref == "" && (ps.Type == "object" || ps.Type == "array" || len(ps.AllOf)+len(ps.OneOf) > 0) {
						flat = false
					}
				}
				if flat && c.AllowSchema(cp, pos) && rw.decide(Site{Kind: "schema", Pos: pos + ":nullable-ref-idiom", Path: path}) {
					set(cp)
				}
			}
			return
		}
		if s.Ref == "" {
			return
		}
		target := d.ResolveSchema(s)
		if target == nil {
			return
		}
		cp := cloneSchema(target)
		// a nullable component cannot hold null at a body / component top level while
		// its inline copy can (known finding C08-F4): not rewritten
		if cp.Nullable {
			return
		}
		// a composite target stays a component at non-component positions: goag names
		// inline composites after their position (outside the name mapping)
		// (a oneOf is inlined under array items, where its carrier keeps one field per
		// member in member order: compared by position; under a property its type would
		// be named after the raw property name, a known C01 finding for kebab-case names)
		if len(cp.AllOf) > 0 || len(cp.OneOf) > 0 && pos != "items" {
			return
		}
		if !c.AllowSchema(cp, pos) {
			return
		}
		// an inline copy of an array of inline objects in a body is the Item collision
		if (pos == "request-body" || pos == "response-body" || pos == "response-body-default") && cp.Type == "array" && cp.Items != nil && cp.Items.Ref == "" && cp.Items.Type == "object" {
			return
		}
		if strings.Contains(pos, "body") && cp.Type == "object" && len(cp.Properties) == 0 {
			return
		}
		if pos == "addprops" && cp.Type == "object" {
			return
		}
		// an array of inline objects under a property is named after the raw property
		// name (not a Go identifier for kebab-case names; declared twice inside allOf
		// members): known C01 findings, not rewritten
		if (pos == "property" || pos == "items" || pos == "addprops") && cp.Type == "array" && cp.Items != nil && cp.Items.Ref == "" && cp.Items.Type == "object" {
			return
		}
		// inline schemas of components/requestBodies name their nested inline objects
		// without a prefix (collisions): only flat objects are inlined there
		if pos == "request-body-component" && cp.Type == "object" {
			for _, ps := range cp.Properties {
				if ps.Ref == "" && (ps.Type == "object" || ps.Type == "array") {
					return
				}
			}
		}
		if pos == "items" && (cp.Type == "object" || cp.Type == "array") {
			return
		}
		// an inline object property inside an allOf member is declared twice (C01-F10)
		if strings.Contains(path, ".allOf[") && (cp.Type == "object" || cp.Type == "array") {
			return
		}
		// the JSON body of a response component that has aliases stays a $ref (an
		// alias of a component response with an inline body does not compile: C01-F11)
		if pos == "response-body-component" && rw.aliasedResponse(path) {
			return
		}
		site := Site{Kind: "schema", Pos: pos, Path: path}
		if !rw.decide(site) {
			return
		}
		set(cp)
		rw.Changed = append(rw.Changed, site)
	})
	inlineParam := func(lst []*Parameter, path string) {
		for i, p := range lst {
			if p.Ref == "" {
				continue
			}
			t := d.ResolveParameter(p)
			if t == nil {
				continue
			}
			site := Site{Kind: "parameter", Path: fmt.Sprintf("%s[%d]", path, i)}
			if !rw.decide(site) {
				continue
			}
			cp := *t
			cp.Schema = cloneSchema(t.Schema)
			lst[i] = &cp
			rw.Changed = append(rw.Changed, site)
		}
	}
	inlineResponse := func(m map[string]*Response, path string) {
		for _, st := range SortedKeys(m) {
			r := m[st]
			if r.Ref != "" {
				t := d.ResolveResponse(r)
				if t == nil {
					continue
				}
				site := Site{Kind: "response", Path: path + "." + st}
				if !rw.decide(site) {
					continue
				}
				bs, _ := json.Marshal(t)
				var cp Response
				json.Unmarshal(bs, &cp)
				m[st] = &cp
				rw.Changed = append(rw.Changed, site)
				r = &cp
			}
			for _, hn := range SortedKeys(r.Headers) {
				h := r.Headers[hn]
				if h.Ref == "" {
					continue
				}
				t := d.ResolveHeader(h)
				if t == nil || !c.AllowSchema(t.Schema, "response-header") {
					continue
				}
				site := Site{Kind: "header", Path: path + "." + st + ".headers." + hn}
				if !rw.decide(site) {
					continue
				}
				cp := *t
				cp.Schema = cloneSchema(t.Schema)
				r.Headers[hn] = &cp
				rw.Changed = append(rw.Changed, site)
			}
		}
	}
	for _, tpl := range SortedKeys(d.Paths) {
		pi := d.Paths[tpl]
		inlineParam(pi.Parameters, "paths."+tpl+".parameters")
		for _, mo := range pi.Ops() {
			base := "paths." + tpl + "." + strings.ToLower(mo.Method)
			inlineParam(mo.Op.Parameters, base+".parameters")
			if rb := mo.Op.RequestBody; rb != nil && rb.Ref != "" {
				if t := d.ResolveRequestBody(rb); t != nil {
					site := Site{Kind: "requestBody", Path: base + ".requestBody"}
					if rw.decide(site) {
						bs, _ := json.Marshal(t)
						var cp RequestBody
						json.Unmarshal(bs, &cp)
						mo.Op.RequestBody = &cp
						rw.Changed = append(rw.Changed, site)
					}
				}
			}
			inlineResponse(mo.Op.Responses, base+".responses")
		}
	}
}

// HoistInline moves inline definitions into fresh components (one component per
// site, never merging two sites) where the reference stays in D_core.
func (rw *Rewriter) HoistInline() {
	c := rw.C
	d := c.Doc
	type pending struct {
		name string
		s    *Schema
	}
	var adds []pending
	k := 0
	rw.schemaSites(func(s *Schema, pos, path string, set func(*Schema)) {
		if s.Ref != "" || strings.HasPrefix(path, "components.schemas.") && pos == "component" {
			return
		}
		if !c.AllowSchema(s, "component") || s.Nullable {
			return
		}
		// a date-time component is `type X time.Time` without JSON methods (known
		// finding C06-F1): not hoisted at JSON positions
		if s.Type == "string" && s.Format == "date-time" && (strings.Contains(pos, "body") || pos == "property" || pos == "items" || pos == "addprops") && !c.Allow("json-ref:datetime-component") {
			return
		}
		k++
		name := fmt.Sprintf("Hoisted%d", k)
		// evaluate the reference against a temporary registration of the component
		cs := c.comps()
		if cs.Schemas == nil {
			cs.Schemas = map[string]*Schema{}
		}
		cs.Schemas[name] = s
		ref := &Schema{Ref: RefSchemas + name}
		ok := c.AllowSchema(ref, pos)
		delete(cs.Schemas, name)
		if !ok {
			return
		}
		site := Site{Kind: "schema", Pos: pos, Path: path}
		if !rw.decide(site) {
			return
		}
		adds = append(adds, pending{name, s})
		set(ref)
		rw.Changed = append(rw.Changed, site)
	})
	for _, a := range adds {
		c.comps().Schemas[a.name] = a.s
	}
	// parameters and responses of operations
	np, nr := 0, 0
	cs := c.comps()
	hoistParam := func(lst []*Parameter, path string) {
		for i, p := range lst {
			if p.Ref != "" || p.In == "" || p.Schema == nil {
				continue
			}
			if !c.AllowSchema(p.Schema, "component-parameter-"+p.In) {
				continue
			}
			site := Site{Kind: "parameter", Path: fmt.Sprintf("%s[%d]", path, i)}
			if !rw.decide(site) {
				continue
			}
			np++
			name := fmt.Sprintf("HoistedPar%d", np)
			if cs.Parameters == nil {
				cs.Parameters = map[string]*Parameter{}
			}
			cs.Parameters[name] = p
			lst[i] = &Parameter{Ref: RefParameters + name}
			rw.Changed = append(rw.Changed, site)
		}
	}
	for _, tpl := range SortedKeys(d.Paths) {
		pi := d.Paths[tpl]
		hoistParam(pi.Parameters, "paths."+tpl+".parameters")
		for _, mo := range pi.Ops() {
			base := "paths." + tpl + "." + strings.ToLower(mo.Method)
			hoistParam(mo.Op.Parameters, base+".parameters")
			for _, st := range SortedKeys(mo.Op.Responses) {
				r := mo.Op.Responses[st]
				if r.Ref != "" {
					continue
				}
				// an inline JSON body of a response component is named after the component:
				// hoist only responses whose body schema is a $ref or absent
				if mt := r.Content["application/json"]; mt != nil && mt.Schema != nil && mt.Schema.Ref == "" {
					continue
				}
				hdrOK := true
				for _, h := range r.Headers {
					if h.Ref == "" && h.Schema != nil && !c.AllowSchema(h.Schema, "component-header") {
						hdrOK = false
					}
				}
				if !hdrOK {
					continue
				}
				site := Site{Kind: "response", Path: base + ".responses." + st}
				if !rw.decide(site) {
					continue
				}
				nr++
				name := fmt.Sprintf("HoistedRsp%d", nr)
				if cs.Responses == nil {
					cs.Responses = map[string]*Response{}
				}
				cs.Responses[name] = r
				mo.Op.Responses[st] = &Response{Ref: RefResponses + name}
				rw.Changed = append(rw.Changed, site)
			}
		}
	}
}

// SiteSummary is a short description of what a rewrite changed.
func SiteSummary(sites []Site) map[string]int {
	out := map[string]int{}
	for _, s := range sites {
		k := s.Kind
		if s.Pos != "" {
			k += ":" + s.Pos
		}
		out[k]++
	}
	return out
}

var _ = sort.Strings

// aliasedResponse reports whether the response component named in path
// ("components.responses.<name>...") is the target of an alias component.
func (rw *Rewriter) aliasedResponse(path string) bool {
	d := rw.C.Doc
	parts := strings.Split(path, ".")
	if len(parts) < 3 || d.Components == nil {
		return false
	}
	name := parts[2]
	for _, r := range d.Components.Responses {
		if r.Ref == RefResponses+name {
			return true
		}
	}
	return false
}

package specgen

import (
	"bufio"
	"os"
	"path/filepath"
	"strings"
)

// D_core (DESIGN.md §3.9) is tied mechanically to the known findings: a
// (position, schema class) whose C01 matrix row is listed in
// /verif/findings/C01-*.rows is not used by the random generators, and every
// suppressed draw is counted. When a defect is fixed and its rows leave the
// lists, the generators start using the feature again.

// LoadDisabledRows reads all C01 row lists; keys are row ids without "row:".
func LoadDisabledRows(findingsDir string) map[string]bool {
	out := map[string]bool{}
	files, _ := filepath.Glob(filepath.Join(findingsDir, "C01-*.rows"))
	files = append(files, filepath.Join(findingsDir, "D-rejected-noclient.rows"))
	// rows rejected only under --client are recorded with a "client:" prefix
	if fh, err := os.Open(filepath.Join(findingsDir, "D-rejected-client.rows")); err == nil {
		sc := bufio.NewScanner(fh)
		for sc.Scan() {
			if l := strings.TrimSpace(sc.Text()); l != "" {
				out["client:"+l] = true
			}
		}
		fh.Close()
	}
	for _, f := range files {
		fh, err := os.Open(f)
		if err != nil {
			continue
		}
		sc := bufio.NewScanner(fh)
		for sc.Scan() {
			l := strings.TrimSpace(sc.Text())
			if l != "" {
				out[strings.TrimPrefix(l, "row:")] = true
			}
		}
		fh.Close()
	}
	return out
}

// rowDisabled reports whether the row id or any of its refinements
// (…/optional, …/required) is a listed known failure.
func (c *Ctx) rowDisabled(id string) bool {
	if c.Disabled[id] || c.Disabled[id+"/optional"] || c.Disabled[id+"/required"] {
		return true
	}
	if c.NeedClient && (c.Disabled["client:"+id] || c.Disabled["client:"+id+"/optional"] || c.Disabled["client:"+id+"/required"]) {
		return true
	}
	return false
}

// itemClass maps an items / additionalProperties schema to the matrix's item
// vocabulary (exact: every class the generators can produce has matrix rows).
func (c *Ctx) itemClass(it *Schema) string {
	if it == nil {
		return "string"
	}
	if it.Ref != "" {
		name := strings.TrimPrefix(it.Ref, RefSchemas)
		if direct := c.Doc.comps().Schemas[name]; direct != nil && direct.Ref != "" {
			return "ref-alias"
		}
		t := c.Doc.ResolveSchema(it)
		switch {
		case t == nil:
			return "ref-object"
		case len(t.AllOf) > 0:
			return "ref-allOf"
		case len(t.OneOf) > 0:
			return "ref-oneOf"
		case t.Type == "array":
			return "ref-array"
		case t.Type == "object" && len(t.Properties) == 0 && t.AdditionalProperties != nil:
			return "ref-map"
		case t.Type == "object":
			return "ref-object"
		case t.Type == "":
			return "ref-any"
		case t.Type == "string" && t.Format != "date-time":
			return "ref-string"
		}
		return "ref-int64"
	}
	switch {
	case it.Type == "" && len(it.AllOf) == 0 && len(it.OneOf) == 0:
		return "any"
	case it.Type == "array":
		return "array-string"
	case len(it.AllOf) > 0:
		return "inline-allOf"
	case len(it.OneOf) > 0:
		return "inline-oneOf"
	case it.Type == "object":
		return "object"
	}
	if it.Nullable {
		return "nullable-" + PrimClass(it)
	}
	return PrimClass(it)
}

// MatrixKind maps a non-$ref schema to the C01 matrix kind vocabulary.
func (c *Ctx) MatrixKind(s *Schema) string {
	switch {
	case len(s.AllOf) > 0:
		order := ""
		for _, m := range s.AllOf {
			if m.Ref != "" {
				order += "-ref"
			} else {
				order += "-inline"
			}
		}
		return "allOf" + order
	case len(s.OneOf) > 0:
		if s.Discriminator != nil {
			if len(s.Discriminator.Mapping) > 0 {
				return "oneOf-discriminator-mapping"
			}
			return "oneOf-discriminator"
		}
		hasArr, hasPrim, hasRef, hasInline := false, false, false, false
		for _, m := range s.OneOf {
			switch {
			case m.Ref != "":
				hasRef = true
			case m.Type == "array":
				hasArr = true
			case m.Type == "object":
				hasInline = true
			default:
				hasPrim = true
			}
		}
		switch {
		case hasArr:
			return "oneOf-array"
		case hasPrim && hasRef:
			return "oneOf-ref-prim"
		case hasPrim:
			return "oneOf-prims"
		case hasInline:
			return "oneOf-inline-objects"
		}
		return "oneOf-refs"
	case s.Type == "array":
		return "array-" + c.itemClass(s.Items)
	case s.Type == "object":
		ap := s.AdditionalProperties
		if len(s.Properties) == 0 {
			switch {
			case ap == nil:
				return "object-empty"
			case ap.Schema == nil:
				if ap.Bool != nil && !*ap.Bool {
					return "object-empty"
				}
				return "map-true"
			}
			return "map-" + c.itemClass(ap.Schema)
		}
		switch {
		case ap == nil:
			for _, p := range s.Properties {
				if p.Ref == "" && (p.Type == "object" || len(p.AllOf) > 0 || len(p.OneOf) > 0) {
					return "object-nested"
				}
			}
			return "object"
		case ap.Schema != nil:
			return "object-addprops-string"
		case ap.Bool != nil && !*ap.Bool:
			return "object-addprops-false"
		}
		return "object-addprops-true"
	case s.Type == "":
		return "any"
	}
	if p, ok := PrimOf(s); ok {
		if p.Layout() != "" {
			return "datetime-layout"
		}
		return p.Name
	}
	return "string"
}

// RowFor builds the matrix row id prefix for schema s at matrix position pos.
func (c *Ctx) RowFor(pos string, s *Schema) string {
	if s.Ref != "" {
		t := c.Doc.ResolveSchema(s)
		if t == nil {
			return "kind/" + pos + "/object/ref"
		}
		id := "kind/" + pos + "/" + c.MatrixKind(t)
		if t.Nullable {
			id += "/nullable"
		}
		if direct := c.Doc.comps().Schemas[strings.TrimPrefix(s.Ref, RefSchemas)]; direct != nil && direct.Ref != "" {
			return id + "/alias"
		}
		return id + "/ref"
	}
	id := "kind/" + pos + "/" + c.MatrixKind(s)
	if s.Nullable {
		id += "/nullable"
	}
	return id
}

// AllowSchema reports whether schema s may be used at the given matrix
// positions (all of them must be free of known failures).
func (c *Ctx) AllowSchema(s *Schema, positions ...string) bool {
	for _, pos := range positions {
		id := c.RowFor(pos, s)
		if c.rowDisabled(id) {
			c.Excluded[id]++
			return false
		}
	}
	return true
}

package specgen

import (
	"fmt"
	"sort"
	"strings"
)

// The C01 feature matrix (DESIGN.md §4 C01 (a)): deterministic single-feature
// specs. A row id is stable across runs and is what known findings match on.

type Row struct {
	ID       string
	Doc      *Doc
	Raw      []byte // when set, used instead of Doc (negative rows built as JSON trees)
	Negative bool   // outside D: only "error or compilable output" is demanded
}

type kindDef struct {
	name  string
	build func(d *Doc) *Schema
}

func addComp(d *Doc, name string, s *Schema) *Schema {
	if d.Components == nil {
		d.Components = &Components{}
	}
	if d.Components.Schemas == nil {
		d.Components.Schemas = map[string]*Schema{}
	}
	d.Components.Schemas[name] = s
	return &Schema{Ref: RefSchemas + name}
}

func objAB() *Schema {
	return &Schema{Type: "object", Properties: map[string]*Schema{"aaa": {Type: "string"}, "bbb": {Type: "integer"}}, Required: []string{"aaa"}}
}

func objCD() *Schema {
	return &Schema{Type: "object", Properties: map[string]*Schema{"ccc": {Type: "boolean"}, "ddd": {Type: "number"}}, Required: []string{"ccc"}}
}

// ItemPrims groups the primitives by the goag type they map to; one representative
// per group is used as array item / additionalProperties value class.
var ItemPrims = []struct {
	Class string
	Prim  Prim
}{
	{"string", Prims[0]}, {"datetime", Prims[1]}, {"int", Prims[6]}, {"int32", Prims[7]}, {"int64", Prims[8]},
	{"number", Prims[9]}, {"float", Prims[10]}, {"bool", Prims[12]},
	{"datetime-layout", Prim{"datetime@time.RFC1123Z", "string", "date-time"}},
}

// PrimClass maps a primitive schema to its item class.
func PrimClass(s *Schema) string {
	switch {
	case s.Type == "string" && s.Format == "date-time" && s.TimeFormat != "":
		return "datetime-layout"
	case s.Type == "string" && s.Format == "date-time":
		return "datetime"
	case s.Type == "string":
		return "string"
	case s.Type == "integer" && s.Format == "int32":
		return "int32"
	case s.Type == "integer" && s.Format == "int64":
		return "int64"
	case s.Type == "integer":
		return "int"
	case s.Type == "number" && s.Format == "float":
		return "float"
	case s.Type == "number":
		return "number"
	case s.Type == "boolean":
		return "bool"
	}
	return "string"
}

func oneOfRefs(d *Doc) *Schema {
	return &Schema{OneOf: []*Schema{addComp(d, "VarA", objAB()), addComp(d, "VarB", objCD())}}
}

func itemKinds() []kindDef {
	var ks []kindDef
	for _, ip := range ItemPrims {
		ip := ip
		ks = append(ks, kindDef{ip.Class, func(d *Doc) *Schema { return ip.Prim.Schema() }})
		ks = append(ks, kindDef{"nullable-" + ip.Class, func(d *Doc) *Schema { s := ip.Prim.Schema(); s.Nullable = true; return s }})
	}
	ks = append(ks,
		kindDef{"any", func(d *Doc) *Schema { return &Schema{} }},
		kindDef{"object", func(d *Doc) *Schema { return objAB() }},
		kindDef{"array-string", func(d *Doc) *Schema { return &Schema{Type: "array", Items: &Schema{Type: "string"}} }},
		kindDef{"inline-allOf", func(d *Doc) *Schema { return &Schema{AllOf: []*Schema{addComp(d, "BaseObj", objAB()), objCD()}} }},
		kindDef{"inline-oneOf", func(d *Doc) *Schema { return oneOfRefs(d) }},
		kindDef{"ref-object", func(d *Doc) *Schema { return addComp(d, "ItemObj", objAB()) }},
		kindDef{"ref-string", func(d *Doc) *Schema { return addComp(d, "ItemStr", &Schema{Type: "string"}) }},
		kindDef{"ref-int64", func(d *Doc) *Schema { return addComp(d, "ItemInt", &Schema{Type: "integer", Format: "int64"}) }},
		kindDef{"ref-any", func(d *Doc) *Schema { return addComp(d, "ItemAny", &Schema{}) }},
		kindDef{"ref-array", func(d *Doc) *Schema {
			return addComp(d, "ItemArr", &Schema{Type: "array", Items: &Schema{Type: "string"}})
		}},
		kindDef{"ref-map", func(d *Doc) *Schema {
			return addComp(d, "ItemMap", &Schema{Type: "object", AdditionalProperties: &AddProps{Schema: &Schema{Type: "integer"}}})
		}},
		kindDef{"ref-allOf", func(d *Doc) *Schema {
			return addComp(d, "ItemAllOf", &Schema{AllOf: []*Schema{addComp(d, "BaseObj", objAB()), objCD()}})
		}},
		kindDef{"ref-oneOf", func(d *Doc) *Schema { return addComp(d, "ItemOneOf", oneOfRefs(d)) }},
		kindDef{"ref-alias", func(d *Doc) *Schema {
			addComp(d, "ItemObj", objAB())
			return addComp(d, "ItemAlias", &Schema{Ref: RefSchemas + "ItemObj"})
		}},
	)
	return ks
}

func matrixKinds() []kindDef {
	var ks []kindDef
	for _, p := range Prims {
		p := p
		ks = append(ks, kindDef{p.Name, func(d *Doc) *Schema { return p.Schema() }})
	}
	ks = append(ks,
		kindDef{"datetime-layout", func(d *Doc) *Schema {
			return &Schema{Type: "string", Format: "date-time", TimeFormat: "time.RFC1123Z"}
		}},
		kindDef{"any", func(d *Doc) *Schema { return &Schema{} }},
	)
	for _, it := range itemKinds() {
		it := it
		ks = append(ks, kindDef{"array-" + it.name, func(d *Doc) *Schema { return &Schema{Type: "array", Items: it.build(d)} }})
	}
	ks = append(ks,
		kindDef{"object", func(d *Doc) *Schema { return objAB() }},
		kindDef{"object-empty", func(d *Doc) *Schema { return &Schema{Type: "object"} }},
		kindDef{"object-nested", func(d *Doc) *Schema {
			return &Schema{Type: "object", Properties: map[string]*Schema{"inner": objAB(), "leaf": {Type: "string"}}, Required: []string{"inner"}}
		}},
		kindDef{"object-addprops-true", func(d *Doc) *Schema {
			s := objAB()
			s.AdditionalProperties = &AddProps{Bool: Bool(true)}
			return s
		}},
		kindDef{"object-addprops-false", func(d *Doc) *Schema {
			s := objAB()
			s.AdditionalProperties = &AddProps{Bool: Bool(false)}
			return s
		}},
		kindDef{"object-addprops-string", func(d *Doc) *Schema {
			s := objAB()
			s.AdditionalProperties = &AddProps{Schema: &Schema{Type: "string"}}
			return s
		}},
		kindDef{"map-true", func(d *Doc) *Schema {
			return &Schema{Type: "object", AdditionalProperties: &AddProps{Bool: Bool(true)}}
		}},
	)
	for _, it := range itemKinds() {
		it := it
		ks = append(ks, kindDef{"map-" + it.name, func(d *Doc) *Schema {
			return &Schema{Type: "object", AdditionalProperties: &AddProps{Schema: it.build(d)}}
		}})
	}
	ks = append(ks,
		kindDef{"allOf-ref-inline", func(d *Doc) *Schema {
			return &Schema{AllOf: []*Schema{addComp(d, "BaseObj", objAB()), objCD()}}
		}},
		kindDef{"allOf-inline-ref", func(d *Doc) *Schema {
			return &Schema{AllOf: []*Schema{objCD(), addComp(d, "BaseObj", objAB())}}
		}},
		kindDef{"allOf-ref-ref", func(d *Doc) *Schema {
			return &Schema{AllOf: []*Schema{addComp(d, "BaseObj", objAB()), addComp(d, "BaseObj2", objCD())}}
		}},
	)
	for _, order := range []string{"ref-ref-ref", "ref-ref-inline", "ref-inline-ref", "ref-inline-inline", "inline-ref-ref", "inline-ref-inline", "inline-inline-ref", "inline-inline-inline", "inline-inline"} {
		order := order
		ks = append(ks, kindDef{"allOf-" + order, func(d *Doc) *Schema {
			s := &Schema{}
			for i, m := range strings.Split(order, "-") {
				obj := &Schema{Type: "object", Properties: map[string]*Schema{fmt.Sprintf("m%dreq", i): {Type: "string"}, fmt.Sprintf("m%dopt", i): {Type: "integer"}}, Required: []string{fmt.Sprintf("m%dreq", i)}}
				if m == "ref" {
					s.AllOf = append(s.AllOf, addComp(d, fmt.Sprintf("Member%d", i), obj))
				} else {
					s.AllOf = append(s.AllOf, obj)
				}
			}
			return s
		}})
	}
	ks = append(ks,
		kindDef{"allOf-inline-with-array-of-inline-object", func(d *Doc) *Schema {
			return &Schema{AllOf: []*Schema{{Type: "object", Properties: map[string]*Schema{"rows": {Type: "array", Items: objAB()}, "zzz": {Type: "string"}}}}}
		}},
		kindDef{"allOf-inline", func(d *Doc) *Schema { return &Schema{AllOf: []*Schema{objAB()}} }},
		kindDef{"allOf-ref", func(d *Doc) *Schema { return &Schema{AllOf: []*Schema{addComp(d, "BaseObj", objAB())}} }},
		kindDef{"oneOf-refs", func(d *Doc) *Schema {
			return &Schema{OneOf: []*Schema{addComp(d, "VarA", objAB()), addComp(d, "VarB", objCD())}}
		}},
		kindDef{"oneOf-inline-objects", func(d *Doc) *Schema { return &Schema{OneOf: []*Schema{objAB(), objCD()}} }},
		kindDef{"oneOf-prims", func(d *Doc) *Schema {
			return &Schema{OneOf: []*Schema{{Type: "string"}, {Type: "integer"}, {Type: "boolean"}}}
		}},
		kindDef{"oneOf-ref-prim", func(d *Doc) *Schema {
			return &Schema{OneOf: []*Schema{addComp(d, "VarA", objAB()), {Type: "number"}}}
		}},
		kindDef{"oneOf-array", func(d *Doc) *Schema {
			return &Schema{OneOf: []*Schema{addComp(d, "VarA", objAB()), {Type: "array", Items: &Schema{Type: "string"}}}}
		}},
		kindDef{"oneOf-discriminator", func(d *Doc) *Schema {
			a, b := objAB(), objCD()
			a.Properties["kind"] = &Schema{Type: "string"}
			a.Required = []string{"aaa", "kind"}
			b.Properties["kind"] = &Schema{Type: "string"}
			b.Required = []string{"ccc", "kind"}
			return &Schema{OneOf: []*Schema{addComp(d, "VarA", a), addComp(d, "VarB", b)}, Discriminator: &Discriminator{PropertyName: "kind"}}
		}},
		kindDef{"oneOf-discriminator-mapping", func(d *Doc) *Schema {
			a, b := objAB(), objCD()
			a.Properties["kind"] = &Schema{Type: "string"}
			a.Required = []string{"aaa", "kind"}
			b.Properties["kind"] = &Schema{Type: "string"}
			b.Required = []string{"ccc", "kind"}
			return &Schema{OneOf: []*Schema{addComp(d, "VarA", a), addComp(d, "VarB", b)},
				Discriminator: &Discriminator{PropertyName: "kind", Mapping: map[string]string{"aa": RefSchemas + "VarA", "bb": RefSchemas + "VarB", "b2": "VarB"}}}
		}},
	)
	return ks
}

type posDef struct {
	name     string
	required bool // whether the required axis applies
	place    func(d *Doc, s *Schema, required bool)
}

func opAt(d *Doc, path, method string) *Operation {
	pi := d.Paths[path]
	if pi == nil {
		pi = &PathItem{}
		d.Paths[path] = pi
	}
	o := MinimalOp()
	pi.SetOp(method, o)
	return o
}

func matrixPositions() []posDef {
	return []posDef{
		{"component", false, func(d *Doc, s *Schema, _ bool) {
			addComp(d, "Top", s)
			opAt(d, "/x", "GET")
		}},
		{"property", true, func(d *Doc, s *Schema, req bool) {
			o := &Schema{Type: "object", Properties: map[string]*Schema{"field": s, "other": {Type: "string"}}}
			if req {
				o.Required = []string{"field"}
			}
			addComp(d, "Holder", o)
			opAt(d, "/x", "GET")
		}},
		{"items", false, func(d *Doc, s *Schema, _ bool) {
			addComp(d, "List", &Schema{Type: "array", Items: s})
			opAt(d, "/x", "GET")
		}},
		{"addprops", false, func(d *Doc, s *Schema, _ bool) {
			addComp(d, "Dict", &Schema{Type: "object", Properties: map[string]*Schema{"known": {Type: "string"}}, AdditionalProperties: &AddProps{Schema: s}})
			opAt(d, "/x", "GET")
		}},
		{"allof-member", false, func(d *Doc, s *Schema, _ bool) {
			addComp(d, "Merged", &Schema{AllOf: []*Schema{s, {Type: "object", Properties: map[string]*Schema{"extra": {Type: "string"}}}}})
			opAt(d, "/x", "GET")
		}},
		{"oneof-member", false, func(d *Doc, s *Schema, _ bool) {
			addComp(d, "Choice", &Schema{OneOf: []*Schema{s, addComp(d, "OtherVariant", &Schema{Type: "object", Properties: map[string]*Schema{"zzz": {Type: "string"}}, Required: []string{"zzz"}})}})
			opAt(d, "/x", "GET")
		}},
		{"request-body", true, func(d *Doc, s *Schema, req bool) {
			o := opAt(d, "/x", "POST")
			o.RequestBody = &RequestBody{Required: req, Content: JSONContent(s)}
		}},
		{"request-body-component", false, func(d *Doc, s *Schema, _ bool) {
			o := opAt(d, "/x", "POST")
			d.comps()
			if d.Components == nil {
				d.Components = &Components{}
			}
			d.Components.RequestBodies = map[string]*RequestBody{"Payload": {Content: JSONContent(s)}}
			o.RequestBody = &RequestBody{Ref: RefRequestBodies + "Payload"}
		}},
		{"response-body", false, func(d *Doc, s *Schema, _ bool) {
			o := opAt(d, "/x", "GET")
			o.Responses = map[string]*Response{"200": {Description: Str("ok"), Content: JSONContent(s)}}
		}},
		{"response-body-default", false, func(d *Doc, s *Schema, _ bool) {
			o := opAt(d, "/x", "GET")
			o.Responses = map[string]*Response{"default": {Description: Str("ok"), Content: JSONContent(s)}}
		}},
		{"response-body-component", false, func(d *Doc, s *Schema, _ bool) {
			o := opAt(d, "/x", "GET")
			if d.Components == nil {
				d.Components = &Components{}
			}
			d.Components.Responses = map[string]*Response{"Shared": {Description: Str("ok"), Content: JSONContent(s)}}
			o.Responses = map[string]*Response{"200": {Ref: RefResponses + "Shared"}}
		}},
		{"query", true, func(d *Doc, s *Schema, req bool) {
			o := opAt(d, "/x", "GET")
			o.Parameters = []*Parameter{{Name: "qparam", In: "query", Required: req, Schema: s}}
		}},
		{"header", true, func(d *Doc, s *Schema, req bool) {
			o := opAt(d, "/x", "GET")
			o.Parameters = []*Parameter{{Name: "X-Hparam", In: "header", Required: req, Schema: s}}
		}},
		{"path", false, func(d *Doc, s *Schema, _ bool) {
			o := opAt(d, "/x/{pparam}", "GET")
			o.Parameters = []*Parameter{{Name: "pparam", In: "path", Required: true, Schema: s}}
		}},
		{"component-parameter-query", true, func(d *Doc, s *Schema, req bool) {
			o := opAt(d, "/x", "GET")
			if d.Components == nil {
				d.Components = &Components{}
			}
			d.Components.Parameters = map[string]*Parameter{"QP": {Name: "qparam", In: "query", Required: req, Schema: s}}
			o.Parameters = []*Parameter{{Ref: RefParameters + "QP"}}
		}},
		{"component-parameter-header", true, func(d *Doc, s *Schema, req bool) {
			o := opAt(d, "/x", "GET")
			if d.Components == nil {
				d.Components = &Components{}
			}
			d.Components.Parameters = map[string]*Parameter{"HP": {Name: "X-Hparam", In: "header", Required: req, Schema: s}}
			o.Parameters = []*Parameter{{Ref: RefParameters + "HP"}}
		}},
		{"component-parameter-path", false, func(d *Doc, s *Schema, _ bool) {
			o := opAt(d, "/x/{pparam}", "GET")
			if d.Components == nil {
				d.Components = &Components{}
			}
			d.Components.Parameters = map[string]*Parameter{"PP": {Name: "pparam", In: "path", Required: true, Schema: s}}
			o.Parameters = []*Parameter{{Ref: RefParameters + "PP"}}
		}},
		{"response-header", true, func(d *Doc, s *Schema, req bool) {
			o := opAt(d, "/x", "GET")
			o.Responses = map[string]*Response{"200": {Description: Str("ok"), Headers: map[string]*Header{"X-Rh": {Required: req, Schema: s}}}}
		}},
		{"component-header", true, func(d *Doc, s *Schema, req bool) {
			o := opAt(d, "/x", "GET")
			if d.Components == nil {
				d.Components = &Components{}
			}
			d.Components.Headers = map[string]*Header{"RH": {Required: req, Schema: s}}
			o.Responses = map[string]*Response{"200": {Description: Str("ok"), Headers: map[string]*Header{"X-Rh": {Ref: RefHeaders + "RH"}}}}
		}},
	}
}

// isParamPos reports positions where goag documents support for primitives (and
// query arrays) only; other kinds there are negative rows.
func isParamPos(pos string) bool {
	switch pos {
	case "query", "header", "path", "component-parameter-query", "component-parameter-header",
		"component-parameter-path", "response-header", "component-header":
		return true
	}
	return false
}

func isPrimKind(k string) bool {
	for _, p := range Prims {
		if p.Name == k {
			return true
		}
	}
	return false
}

// MatrixRows enumerates the K × nullable × P × required × ref/inline matrix.
func MatrixRows() []Row {
	var rows []Row
	for _, pos := range matrixPositions() {
		for _, k := range matrixKinds() {
			for _, nullable := range []bool{false, true} {
				for _, ref := range []string{"", "ref", "alias"} {
					reqs := []bool{false}
					if pos.required {
						reqs = []bool{false, true}
					}
					for _, req := range reqs {
						d := NewDoc()
						s := k.build(d)
						if nullable {
							if s.Ref != "" {
								continue // nullable applies to non-$ref schemas (§3.2)
							}
							s.Nullable = true
						}
						switch ref {
						case "ref":
							s = addComp(d, "Hoisted", s)
						case "alias":
							addComp(d, "Hoisted", s)
							s = addComp(d, "HoistedAlias", &Schema{Ref: RefSchemas + "Hoisted"})
						}
						pos.place(d, s, req)
						id := fmt.Sprintf("kind/%s/%s", pos.name, k.name)
						if nullable {
							id += "/nullable"
						}
						if ref != "" {
							id += "/" + ref
						}
						if pos.required {
							if req {
								id += "/required"
							} else {
								id += "/optional"
							}
						}
						neg := false
						if isParamPos(pos.name) {
							prim := isPrimKind(k.name)
							arr := strings.HasPrefix(k.name, "array-") && (pos.name == "query" || pos.name == "component-parameter-query" || pos.name == "response-header" || pos.name == "component-header")
							if !prim && !arr {
								neg = true
							}
							if nullable {
								neg = true // nullable parameters are outside D (§11)
							}
						}
						rows = append(rows, Row{ID: id, Doc: d, Negative: neg})
					}
				}
			}
		}
	}
	return rows
}

// ---------------------------------------------------------------------------
// name-shape and free-text rows (§3.4, §3.5)

var NameShapes = []struct{ ID, Name string }{
	{"lower", "name"}, {"snake", "user_name"}, {"kebab", "user-name"}, {"camel", "userName"}, {"pascal", "UserName"},
	{"digits", "name2x"}, {"leading-digit", "2name"}, {"dotted", "user.name"}, {"id", "id"}, {"ids", "ids"},
	{"user_id", "user_id"}, {"valid", "valid"}, {"uuid", "request-uuid"}, {"xheader", "X-Request-Name"}, {"xvalid", "X-Valid"},
	{"kw-type", "type"}, {"kw-func", "func"}, {"kw-default", "default"}, {"kw-range", "range"}, {"unicode", "naïve"}, {"cyrillic", "имя"},
	{"quote", `a"b`}, {"backslash", `a\b`}, {"space", "a b"}, {"brace", "a}"}, {"underscore-only", "_"}, {"upper", "NAME"},
	{"snake-digit", "x_rate_10"}, {"kebab-digit", "x-rate-10"},
	{"body", "body"}, {"code", "code"}, {"headers", "headers"}, {"path", "path"}, {"query", "query"},
	// words goag itself uses when it names nested types
	{"item", "item"}, {"items", "items"}, {"additional-properties", "additionalProperties"}, {"one-of-0", "oneOf0"}, {"json-body", "JSONBody"},
	// characters that are ordinary in query parameter names
	{"dollar", "$top"}, {"brackets", "filter[status]"}, {"brackets-empty", "ids[]"},
}

var NamePositions = []struct {
	ID    string
	Place func(d *Doc, name string)
}{
	{"property", func(d *Doc, name string) {
		addComp(d, "Holder", &Schema{Type: "object", Properties: map[string]*Schema{name: {Type: "string"}, "other": {Type: "integer"}}, Required: []string{name}})
		o := opAt(d, "/x", "POST")
		o.RequestBody = &RequestBody{Content: JSONContent(&Schema{Ref: RefSchemas + "Holder"})}
	}},
	{"property-optional", func(d *Doc, name string) {
		addComp(d, "Holder", &Schema{Type: "object", Properties: map[string]*Schema{name: {Type: "integer"}}})
		opAt(d, "/x", "GET")
	}},
	{"property-array-of-inline-object", func(d *Doc, name string) {
		addComp(d, "Holder", &Schema{Type: "object", Properties: map[string]*Schema{name: {Type: "array", Items: objAB()}}})
		opAt(d, "/x", "GET")
	}},
	{"property-inline-object", func(d *Doc, name string) {
		addComp(d, "Holder", &Schema{Type: "object", Properties: map[string]*Schema{name: objAB()}})
		opAt(d, "/x", "GET")
	}},
	{"property-nested-inline-objects", func(d *Doc, name string) {
		// the named property holds an inline object that holds inline objects (two more levels)
		deep := &Schema{Type: "object", Properties: map[string]*Schema{"q": {Type: "integer"}, "inner_b": {Type: "object", Properties: map[string]*Schema{"c": {Type: "object", Properties: map[string]*Schema{"d": {Type: "integer"}}}}}}}
		addComp(d, "Holder", &Schema{Type: "object", Properties: map[string]*Schema{name: deep}})
		opAt(d, "/x", "GET")
	}},
	{"body-property-nested-inline-objects", func(d *Doc, name string) {
		deep := &Schema{Type: "object", Properties: map[string]*Schema{"q": {Type: "integer"}, "inner_b": {Type: "object", Properties: map[string]*Schema{"c": {Type: "object", Properties: map[string]*Schema{"d": {Type: "integer"}}}}}}}
		o := opAt(d, "/x", "PUT")
		o.RequestBody = &RequestBody{Content: JSONContent(&Schema{Type: "object", Properties: map[string]*Schema{name: deep}})}
	}},
	{"array-item-object-with-inline-object-property", func(d *Doc, name string) {
		// an array of inline objects one of whose properties (the named one) is an inline object
		item := &Schema{Type: "object", Properties: map[string]*Schema{name: objAB(), "quantity": {Type: "integer"}}}
		addComp(d, "Holder", &Schema{Type: "object", Properties: map[string]*Schema{"lines": {Type: "array", Items: item}}})
		opAt(d, "/x", "GET")
	}},
	{"map-value-object-with-inline-object-property", func(d *Doc, name string) {
		val := &Schema{Type: "object", Properties: map[string]*Schema{name: objAB(), "quantity": {Type: "integer"}}}
		addComp(d, "ValueObj", val)
		addComp(d, "Holder", &Schema{Type: "object", Properties: map[string]*Schema{"byKey": {Type: "object", AdditionalProperties: &AddProps{Schema: &Schema{Ref: RefSchemas + "ValueObj"}}}}})
		opAt(d, "/x", "GET")
	}},
	{"query", func(d *Doc, name string) {
		opAt(d, "/x", "GET").Parameters = []*Parameter{{Name: name, In: "query", Schema: &Schema{Type: "integer"}}}
	}},
	{"header", func(d *Doc, name string) {
		opAt(d, "/x", "GET").Parameters = []*Parameter{{Name: name, In: "header", Required: true, Schema: &Schema{Type: "string"}}}
	}},
	{"path-var", func(d *Doc, name string) {
		opAt(d, "/x/{"+name+"}/y", "GET").Parameters = []*Parameter{{Name: name, In: "path", Required: true, Schema: &Schema{Type: "string"}}}
	}},
	{"path-segment", func(d *Doc, name string) { opAt(d, "/x/"+name+"/y", "GET") }},
	{"component-schema", func(d *Doc, name string) {
		addComp(d, name, objAB())
		opAt(d, "/x", "GET").Responses = map[string]*Response{"200": {Description: Str(""), Content: JSONContent(&Schema{Ref: RefSchemas + name})}}
	}},
	{"operation-id", func(d *Doc, name string) { opAt(d, "/x", "GET").OperationID = name }},
	{"response-header", func(d *Doc, name string) {
		opAt(d, "/x", "GET").Responses = map[string]*Response{"200": {Description: Str(""), Headers: map[string]*Header{name: {Schema: &Schema{Type: "string"}}}}}
	}},
	{"component-response", func(d *Doc, name string) {
		if d.Components == nil {
			d.Components = &Components{}
		}
		d.Components.Responses = map[string]*Response{name: {Description: Str(""), Content: JSONContent(objAB())}}
		opAt(d, "/x", "GET").Responses = map[string]*Response{"200": {Ref: RefResponses + name}}
	}},
	{"security-apikey-header", func(d *Doc, name string) {
		if d.Components == nil {
			d.Components = &Components{}
		}
		d.Components.SecuritySchemes = map[string]*SecurityScheme{"key": {Type: "apiKey", In: "header", Name: name}}
		opAt(d, "/x", "GET").Security = &[]map[string][]string{{"key": {}}}
	}},
	{"discriminator-value", func(d *Doc, name string) {
		a, b := objAB(), objCD()
		a.Properties["kind"] = &Schema{Type: "string"}
		a.Required = []string{"aaa", "kind"}
		b.Properties["kind"] = &Schema{Type: "string"}
		b.Required = []string{"ccc", "kind"}
		addComp(d, "Choice", &Schema{OneOf: []*Schema{addComp(d, "VarA", a), addComp(d, "VarB", b)},
			Discriminator: &Discriminator{PropertyName: "kind", Mapping: map[string]string{name: RefSchemas + "VarA"}}})
		opAt(d, "/x", "GET")
	}},
}

var TextShapes = []struct{ ID, Text string }{
	{"one-line", "a plain description"}, {"multi-line", "first line\nsecond line\nthird"}, {"trailing-newline", "text\n"},
	{"comment-close", "has */ inside"}, {"comment-open", "has /* inside"}, {"slashes", "// leading slashes"}, {"backtick", "has ` backtick"},
	{"quote", `has "quotes"`}, {"backslash", `back\slash \n`}, {"template", "{{ .Name }} and {{end}}"}, {"unicode", "ünïcödé — text"},
	{"crlf", "line1\r\nline2"}, {"blank-lines", "a\n\nb"}, {"tab", "a\tb"},
}

var TextPositions = []struct {
	ID    string
	Place func(d *Doc, text string)
}{
	{"info", func(d *Doc, text string) { d.Info.Description = text; d.Info.Title = text; opAt(d, "/x", "GET") }},
	{"operation-description", func(d *Doc, text string) { opAt(d, "/x", "GET").Description = text }},
	{"operation-summary", func(d *Doc, text string) { opAt(d, "/x", "GET").Summary = text }},
	{"schema-description", func(d *Doc, text string) {
		s := objAB()
		s.Description = text
		addComp(d, "Holder", s)
		opAt(d, "/x", "GET")
	}},
	{"property-description", func(d *Doc, text string) {
		s := objAB()
		s.Properties["aaa"].Description = text
		addComp(d, "Holder", s)
		opAt(d, "/x", "GET")
	}},
	{"parameter-description", func(d *Doc, text string) {
		opAt(d, "/x/{pp}", "GET").Parameters = []*Parameter{{Name: "qq", In: "query", Description: text, Schema: &Schema{Type: "string"}},
			{Name: "hh", In: "header", Description: text, Schema: &Schema{Type: "string"}}, {Name: "pp", In: "path", Required: true, Description: text, Schema: &Schema{Type: "string"}}}
	}},
	{"response-description", func(d *Doc, text string) {
		opAt(d, "/x", "GET").Responses = map[string]*Response{"200": {Description: Str(text), Content: JSONContent(objAB())}, "default": {Description: Str(text)}}
	}},
	{"component-response-description", func(d *Doc, text string) {
		if d.Components == nil {
			d.Components = &Components{}
		}
		d.Components.Responses = map[string]*Response{"Shared": {Description: Str(text), Content: JSONContent(objAB())}, "Alias": {Ref: RefResponses + "Shared"}}
		opAt(d, "/x", "GET").Responses = map[string]*Response{"200": {Ref: RefResponses + "Alias"}}
	}},
	{"request-body-description", func(d *Doc, text string) {
		if d.Components == nil {
			d.Components = &Components{}
		}
		d.Components.RequestBodies = map[string]*RequestBody{"Payload": {Description: text, Content: JSONContent(objAB())}}
		opAt(d, "/x", "POST").RequestBody = &RequestBody{Ref: RefRequestBodies + "Payload"}
	}},
	{"header-description", func(d *Doc, text string) {
		if d.Components == nil {
			d.Components = &Components{}
		}
		d.Components.Headers = map[string]*Header{"RH": {Description: text, Schema: &Schema{Type: "string"}}}
		opAt(d, "/x", "GET").Responses = map[string]*Response{"200": {Description: Str(""), Headers: map[string]*Header{"X-Rh": {Ref: RefHeaders + "RH"}}}}
	}},
}

func NameRows() []Row {
	var rows []Row
	for _, pos := range NamePositions {
		for _, n := range NameShapes {
			d := NewDoc()
			pos.Place(d, n.Name)
			neg := false
			switch n.ID {
			case "quote", "backslash", "space", "brace", "underscore-only":
				neg = true // hostile shapes: error or compilable output
			}
			if pos.ID == "path-segment" || pos.ID == "path-var" {
				if n.ID == "space" || n.ID == "quote" || n.ID == "backslash" || n.ID == "brace" {
					neg = true
				}
			}
			rows = append(rows, Row{ID: "name/" + pos.ID + "/" + n.ID, Doc: d, Negative: neg})
		}
	}
	// deliberately colliding pairs under goag's naming
	coll := []struct {
		id string
		f  func(d *Doc)
	}{
		{"props-snake-camel", func(d *Doc) {
			addComp(d, "Holder", &Schema{Type: "object", Properties: map[string]*Schema{"foo_bar": {Type: "string"}, "fooBar": {Type: "string"}}})
			opAt(d, "/x", "GET")
		}},
		{"props-digit-suffix", func(d *Doc) {
			addComp(d, "Holder", &Schema{Type: "object", Properties: map[string]*Schema{"item_1": {Type: "string"}, "item_2": {Type: "string"}}})
			opAt(d, "/x", "GET")
		}},
		{"query-digit-suffix", func(d *Doc) {
			opAt(d, "/x", "GET").Parameters = []*Parameter{{Name: "page_1", In: "query", Schema: &Schema{Type: "string"}}, {Name: "page_2", In: "query", Schema: &Schema{Type: "string"}}}
		}},
		{"paths-dash", func(d *Doc) { opAt(d, "/a-b/c", "GET"); opAt(d, "/a/b-c", "GET") }},
		{"paths-case", func(d *Doc) { opAt(d, "/shops", "GET"); opAt(d, "/Shops", "GET") }},
		{"query-case", func(d *Doc) {
			opAt(d, "/x", "GET").Parameters = []*Parameter{{Name: "page", In: "query", Schema: &Schema{Type: "string"}}, {Name: "Page", In: "query", Schema: &Schema{Type: "string"}}}
		}},
		{"apikey-vs-header-param", func(d *Doc) {
			d.Components = &Components{SecuritySchemes: map[string]*SecurityScheme{"key": {Type: "apiKey", In: "header", Name: "X-Key"}}}
			o := opAt(d, "/x", "GET")
			o.Security = &[]map[string][]string{{"key": {}}}
			o.Parameters = []*Parameter{{Name: "X-Key", In: "header", Schema: &Schema{Type: "string"}}}
		}},
		{"component-vs-nested", func(d *Doc) {
			addComp(d, "Foo", &Schema{Type: "object", Properties: map[string]*Schema{"bar": objAB()}})
			addComp(d, "FooBar", objCD())
			opAt(d, "/x", "GET")
		}},
		{"opid-vs-derived", func(d *Doc) { opAt(d, "/x", "GET").OperationID = "PostX"; opAt(d, "/x", "POST") }},
		{"schema-vs-generated-type", func(d *Doc) {
			addComp(d, "API", objAB())
			addComp(d, "Client", objCD())
			addComp(d, "Maybe", objAB())
			opAt(d, "/x", "GET")
		}},
	}
	for _, c := range coll {
		d := NewDoc()
		c.f(d)
		rows = append(rows, Row{ID: "name/collision/" + c.id, Doc: d, Negative: true})
	}
	return rows
}

func TextRows() []Row {
	var rows []Row
	for _, pos := range TextPositions {
		for _, tx := range TextShapes {
			d := NewDoc()
			pos.Place(d, tx.Text)
			rows = append(rows, Row{ID: "text/" + pos.ID + "/" + tx.ID, Doc: d})
		}
	}
	return rows
}

// ---------------------------------------------------------------------------
// operation rows

func OperationRows() []Row {
	var rows []Row
	add := func(id string, neg bool, f func(d *Doc)) {
		d := NewDoc()
		f(d)
		rows = append(rows, Row{ID: "op/" + id, Doc: d, Negative: neg})
	}
	for _, m := range Methods {
		m := m
		add("method/"+strings.ToLower(m), false, func(d *Doc) {
			opAt(d, "/x", m)
			opAt(d, "/x/{id}", m).Parameters = []*Parameter{{Name: "id", In: "path", Required: true, Schema: &Schema{Type: "string"}}}
		})
	}
	statusSets := [][]string{{"200"}, {"200", "404"}, {"201", "400", "500", "default"}, {"default"}, {"204"}, {"599", "100"}, {"200", "201", "202", "203"}}
	for _, ss := range statusSets {
		ss := ss
		for _, body := range []string{"none", "json", "raw", "json-array", "json-ref"} {
			body := body
			add("responses/"+strings.Join(ss, "+")+"/"+body, false, func(d *Doc) {
				o := opAt(d, "/x", "GET")
				o.Responses = map[string]*Response{}
				for _, st := range ss {
					r := &Response{Description: Str("")}
					switch body {
					case "json":
						r.Content = JSONContent(objAB())
					case "raw":
						r.Content = map[string]*MediaType{"application/octet-stream": {Schema: &Schema{Type: "string", Format: "binary"}}}
					case "json-array":
						r.Content = JSONContent(&Schema{Type: "array", Items: &Schema{Type: "string"}})
					case "json-ref":
						r.Content = JSONContent(addComp(d, "Body", objAB()))
					}
					o.Responses[st] = r
				}
			})
		}
	}
	add("responses/shared-component-two-ops", false, func(d *Doc) {
		d.Components = &Components{Responses: map[string]*Response{"Err": {Description: Str("e"), Content: JSONContent(objAB())}}}
		opAt(d, "/x", "GET").Responses = map[string]*Response{"200": {Description: Str("")}, "404": {Ref: RefResponses + "Err"}}
		opAt(d, "/y", "POST").Responses = map[string]*Response{"200": {Description: Str("")}, "500": {Ref: RefResponses + "Err"}}
	})
	add("responses/shared-component-default-two-ops", false, func(d *Doc) {
		d.Components = &Components{Responses: map[string]*Response{"Err": {Description: Str("e"), Content: JSONContent(objAB())}}}
		opAt(d, "/x", "GET").Responses = map[string]*Response{"200": {Description: Str("")}, "default": {Ref: RefResponses + "Err"}}
		opAt(d, "/y/", "POST").Responses = map[string]*Response{"default": {Ref: RefResponses + "Err"}}
	})
	add("responses/component-alias-chain", false, func(d *Doc) {
		d.Components = &Components{Responses: map[string]*Response{"Err": {Description: Str("e"), Content: JSONContent(objAB()), Headers: map[string]*Header{"X-A": {Schema: &Schema{Type: "integer"}}}},
			"Err2": {Ref: RefResponses + "Err"}, "Err3": {Ref: RefResponses + "Err2"}}}
		opAt(d, "/x", "GET").Responses = map[string]*Response{"404": {Ref: RefResponses + "Err3"}}
	})
	add("responses/component-same-twice", true, func(d *Doc) {
		d.Components = &Components{Responses: map[string]*Response{"Err": {Description: Str("e")}}}
		opAt(d, "/x", "GET").Responses = map[string]*Response{"404": {Ref: RefResponses + "Err"}, "500": {Ref: RefResponses + "Err"}}
	})
	add("responses/component-and-its-alias-in-one-operation", true, func(d *Doc) {
		d.Components = &Components{Responses: map[string]*Response{"Err": {Description: Str("e")}, "ErrAlias": {Ref: RefResponses + "Err"}}}
		opAt(d, "/x", "GET").Responses = map[string]*Response{"404": {Ref: RefResponses + "Err"}, "500": {Ref: RefResponses + "ErrAlias"}}
	})
	add("responses/alias-in-separate-operations", false, func(d *Doc) {
		d.Components = &Components{Responses: map[string]*Response{"Err": {Description: Str("e")}, "ErrAlias": {Ref: RefResponses + "Err"}}}
		opAt(d, "/x", "GET").Responses = map[string]*Response{"404": {Ref: RefResponses + "Err"}}
		opAt(d, "/y", "GET").Responses = map[string]*Response{"500": {Ref: RefResponses + "ErrAlias"}}
	})
	add("responses/only-components-are-responses", false, func(d *Doc) {
		d.Components = &Components{Responses: map[string]*Response{"NotFound": {Description: Str("nf")}, "Alias": {Ref: RefResponses + "NotFound"}}}
		opAt(d, "/x", "GET").Responses = map[string]*Response{"200": {Description: Str("")}, "404": {Ref: RefResponses + "NotFound"}}
		opAt(d, "/y", "GET").Responses = map[string]*Response{"404": {Ref: RefResponses + "Alias"}}
	})
	// which of the shared responses carry JSON, and whether any inline JSON response exists,
	// decides which helpers the generated files need
	for mask := 0; mask < 8; mask++ {
		for _, inlineJSON := range []bool{false, true} {
			mask, inlineJSON := mask, inlineJSON
			add(fmt.Sprintf("responses/components-json-mask-%d-inline-json-%v", mask, inlineJSON), false, func(d *Doc) {
				names := []string{"Conflict", "NotFound", "Unauthorized"}
				d.Components = &Components{Responses: map[string]*Response{}}
				for i, n := range names {
					r := &Response{Description: Str(n)}
					if mask&(1<<i) != 0 {
						r.Content = JSONContent(&Schema{Type: "object", Properties: map[string]*Schema{"message": {Type: "string"}}})
					} else {
						r.Headers = map[string]*Header{"X-Why": {Schema: &Schema{Type: "string"}}}
					}
					d.Components.Responses[n] = r
				}
				ok := &Response{Description: Str("ok")}
				if inlineJSON {
					ok.Content = JSONContent(&Schema{Type: "integer"})
				}
				opAt(d, "/x", "GET").Responses = map[string]*Response{"200": ok, "409": {Ref: RefResponses + "Conflict"}, "404": {Ref: RefResponses + "NotFound"}, "401": {Ref: RefResponses + "Unauthorized"}}
			})
		}
	}
	add("responses/component-default-and-numbered", true, func(d *Doc) {
		d.Components = &Components{Responses: map[string]*Response{"Err": {Description: Str("e")}}}
		opAt(d, "/x", "GET").Responses = map[string]*Response{"default": {Ref: RefResponses + "Err"}}
		opAt(d, "/y", "GET").Responses = map[string]*Response{"404": {Ref: RefResponses + "Err"}}
	})
	add("responses/component-root-path-noopid", false, func(d *Doc) {
		d.Components = &Components{Responses: map[string]*Response{"Err": {Description: Str("e")}}}
		opAt(d, "/", "GET").Responses = map[string]*Response{"404": {Ref: RefResponses + "Err"}}
	})
	add("responses/component-trailing-slash-noopid", false, func(d *Doc) {
		d.Components = &Components{Responses: map[string]*Response{"Err": {Description: Str("e")}}}
		opAt(d, "/pets/", "GET").Responses = map[string]*Response{"404": {Ref: RefResponses + "Err"}}
		opAt(d, "/pets", "GET").Responses = map[string]*Response{"404": {Description: Str("")}}
	})
	add("responses/unused-component", false, func(d *Doc) {
		d.Components = &Components{Responses: map[string]*Response{"Err": {Description: Str("e"), Content: JSONContent(objAB())}}}
		opAt(d, "/x", "GET")
	})
	add("responses/status-2XX", true, func(d *Doc) {
		opAt(d, "/x", "GET").Responses = map[string]*Response{"2XX": {Description: Str("")}}
	})
	add("responses/multi-media", true, func(d *Doc) {
		opAt(d, "/x", "GET").Responses = map[string]*Response{"200": {Description: Str(""), Content: map[string]*MediaType{"application/json": {Schema: objAB()}, "text/plain": {Schema: &Schema{Type: "string"}}}}}
	})
	add("responses/headers-3", false, func(d *Doc) {
		opAt(d, "/x", "GET").Responses = map[string]*Response{"200": {Description: Str(""), Headers: map[string]*Header{
			"X-A": {Required: true, Schema: &Schema{Type: "integer"}}, "X-B": {Schema: &Schema{Type: "string", Format: "date-time"}}, "X-C": {Schema: &Schema{Type: "array", Items: &Schema{Type: "string"}}}}}}
	})
	for _, body := range []string{"json", "raw", "json+raw", "json-array", "form"} {
		body := body
		add("request-body/"+body, body == "json+raw", func(d *Doc) {
			o := opAt(d, "/x", "POST")
			rb := &RequestBody{Content: map[string]*MediaType{}}
			switch body {
			case "json":
				rb.Content = JSONContent(objAB())
			case "raw":
				rb.Content["application/octet-stream"] = &MediaType{Schema: &Schema{Type: "string", Format: "binary"}}
			case "json+raw":
				rb.Content = JSONContent(objAB())
				rb.Content["application/xml"] = &MediaType{Schema: objAB()}
			case "json-array":
				rb.Content = JSONContent(&Schema{Type: "array", Items: objAB()})
			case "form":
				rb.Content["application/x-www-form-urlencoded"] = &MediaType{Schema: objAB()}
			}
			o.RequestBody = rb
		})
	}
	add("request-body/two-array-of-inline-object-bodies", false, func(d *Doc) {
		opAt(d, "/x", "POST").RequestBody = &RequestBody{Content: JSONContent(&Schema{Type: "array", Items: objAB()})}
		opAt(d, "/y", "POST").RequestBody = &RequestBody{Content: JSONContent(&Schema{Type: "array", Items: objCD()})}
	})
	add("request-body/component-alias-raw", false, func(d *Doc) {
		d.Components = &Components{RequestBodies: map[string]*RequestBody{"Payload": {Content: map[string]*MediaType{"application/octet-stream": {Schema: &Schema{Type: "string", Format: "binary"}}}}, "Alias": {Ref: RefRequestBodies + "Payload"}}}
		opAt(d, "/x", "POST").RequestBody = &RequestBody{Ref: RefRequestBodies + "Alias"}
	})
	add("cors/explicit-options-and-get", false, func(d *Doc) {
		opAt(d, "/x", "GET")
		opAt(d, "/x", "OPTIONS")
		opAt(d, "/x/{id}", "OPTIONS").Parameters = []*Parameter{{Name: "id", In: "path", Required: true, Schema: &Schema{Type: "string"}}}
		opAt(d, "/x/{id}", "DELETE").Parameters = []*Parameter{{Name: "id", In: "path", Required: true, Schema: &Schema{Type: "string"}}}
	})
	add("cors/headers-and-security", false, func(d *Doc) {
		d.Components = &Components{SecuritySchemes: map[string]*SecurityScheme{"bearer": {Type: "http", Scheme: "bearer"}, "keyh": {Type: "apiKey", In: "header", Name: "X-Api-Key"}}}
		o := opAt(d, "/x", "GET")
		o.Security = &[]map[string][]string{{"bearer": {}}, {"keyh": {}}}
		o.Parameters = []*Parameter{{Name: "x-trace", In: "header", Schema: &Schema{Type: "string"}}}
		opAt(d, "/x", "PUT").Parameters = []*Parameter{{Name: "X-Trace", In: "header", Schema: &Schema{Type: "string"}}}
	})
	add("request-body/component-alias", false, func(d *Doc) {
		d.Components = &Components{RequestBodies: map[string]*RequestBody{"Payload": {Content: JSONContent(objAB())}, "Alias": {Ref: RefRequestBodies + "Payload"}}}
		opAt(d, "/x", "POST").RequestBody = &RequestBody{Ref: RefRequestBodies + "Alias"}
		opAt(d, "/y", "PUT").RequestBody = &RequestBody{Ref: RefRequestBodies + "Payload"}
	})
	add("params/path-item-level", false, func(d *Doc) {
		o := opAt(d, "/x/{id}", "GET")
		_ = o
		d.Paths["/x/{id}"].Parameters = []*Parameter{{Name: "id", In: "path", Required: true, Schema: &Schema{Type: "integer"}}, {Name: "q", In: "query", Schema: &Schema{Type: "string"}}}
		opAt(d, "/x/{id}", "POST")
	})
	add("params/override", false, func(d *Doc) {
		o := opAt(d, "/x", "GET")
		d.Paths["/x"].Parameters = []*Parameter{{Name: "limit", In: "query", Schema: &Schema{Type: "string"}}}
		o.Parameters = []*Parameter{{Name: "limit", In: "query", Required: true, Schema: &Schema{Type: "integer", Format: "int32"}}}
	})
	add("params/component-alias", false, func(d *Doc) {
		d.Components = &Components{Parameters: map[string]*Parameter{"P": {Name: "q", In: "query", Schema: &Schema{Type: "integer"}}, "P2": {Ref: RefParameters + "P"}}}
		opAt(d, "/x", "GET").Parameters = []*Parameter{{Ref: RefParameters + "P2"}}
	})
	add("params/two-required-array-queries", false, func(d *Doc) {
		opAt(d, "/x", "GET").Parameters = []*Parameter{{Name: "ids", In: "query", Required: true, Schema: &Schema{Type: "array", Items: &Schema{Type: "integer"}}},
			{Name: "times", In: "query", Required: true, Schema: &Schema{Type: "array", Items: &Schema{Type: "string", Format: "date-time"}}},
			{Name: "flags", In: "query", Schema: &Schema{Type: "array", Items: &Schema{Type: "boolean"}}}}
	})
	add("responses/component-alias-array-body", false, func(d *Doc) {
		d.Components = &Components{Responses: map[string]*Response{"Err": {Description: Str("e"), Content: JSONContent(&Schema{Type: "array", Items: objAB()})}, "Err2": {Ref: RefResponses + "Err"}}}
		opAt(d, "/x", "GET").Responses = map[string]*Response{"404": {Ref: RefResponses + "Err2"}}
	})
	add("params/cookie", true, func(d *Doc) {
		opAt(d, "/x", "GET").Parameters = []*Parameter{{Name: "sid", In: "cookie", Schema: &Schema{Type: "string"}}}
	})
	add("params/two-path-vars-adjacent", false, func(d *Doc) {
		opAt(d, "/{a}/{b}", "GET").Parameters = []*Parameter{{Name: "b", In: "path", Required: true, Schema: &Schema{Type: "integer"}}, {Name: "a", In: "path", Required: true, Schema: &Schema{Type: "string"}}}
	})
	add("params/path-var-undeclared", true, func(d *Doc) { opAt(d, "/x/{id}", "GET") })
	add("params/path-declared-not-in-template", true, func(d *Doc) {
		opAt(d, "/x", "GET").Parameters = []*Parameter{{Name: "id", In: "path", Required: true, Schema: &Schema{Type: "string"}}}
	})
	add("params/same-name-query-header", false, func(d *Doc) {
		opAt(d, "/x", "GET").Parameters = []*Parameter{{Name: "token", In: "query", Schema: &Schema{Type: "string"}}, {Name: "token", In: "header", Schema: &Schema{Type: "string"}}}
	})
	// security shapes
	secSchemes := map[string]*SecurityScheme{
		"bearer": {Type: "http", Scheme: "bearer"}, "basic": {Type: "http", Scheme: "basic"},
		"keyh": {Type: "apiKey", In: "header", Name: "X-Api-Key"}, "keyq": {Type: "apiKey", In: "query", Name: "api_key"},
		"keyc":  {Type: "apiKey", In: "cookie", Name: "sid"},
		"oauth": {Type: "oauth2", Flows: &OAuthFlows{Implicit: &OAuthFlow{AuthorizationURL: "https://a.example/auth", Scopes: map[string]string{"read": "r", "write": "w"}}}},
		"oidc":  {Type: "openIdConnect", OpenIDConnectURL: "https://a.example/.well-known"},
	}
	for _, name := range SortedKeys(secSchemes) {
		name := name
		add("security/global/"+name, false, func(d *Doc) {
			d.Components = &Components{SecuritySchemes: map[string]*SecurityScheme{name: secSchemes[name]}}
			d.Security = &[]map[string][]string{{name: {}}}
			opAt(d, "/x", "GET")
			opAt(d, "/y", "GET").Security = &[]map[string][]string{}
		})
		add("security/operation/"+name, false, func(d *Doc) {
			d.Components = &Components{SecuritySchemes: map[string]*SecurityScheme{name: secSchemes[name]}}
			opAt(d, "/x", "GET").Security = &[]map[string][]string{{name: {}}}
			opAt(d, "/x", "POST")
		})
	}
	add("security/query-only", false, func(d *Doc) {
		d.Components = &Components{SecuritySchemes: map[string]*SecurityScheme{"keyq": secSchemes["keyq"]}}
		d.Security = &[]map[string][]string{{"keyq": {}}}
		opAt(d, "/x", "GET")
	})
	add("security/or", false, func(d *Doc) {
		d.Components = &Components{SecuritySchemes: map[string]*SecurityScheme{"bearer": secSchemes["bearer"], "keyh": secSchemes["keyh"], "keyq": secSchemes["keyq"]}}
		opAt(d, "/x", "GET").Security = &[]map[string][]string{{"bearer": {}}, {"keyh": {}}, {"keyq": {}}}
	})
	add("security/and", false, func(d *Doc) {
		d.Components = &Components{SecuritySchemes: map[string]*SecurityScheme{"bearer": secSchemes["bearer"], "keyh": secSchemes["keyh"]}}
		opAt(d, "/x", "GET").Security = &[]map[string][]string{{"bearer": {}, "keyh": {}}}
	})
	add("security/empty-alternative", false, func(d *Doc) {
		d.Components = &Components{SecuritySchemes: map[string]*SecurityScheme{"bearer": secSchemes["bearer"]}}
		opAt(d, "/x", "GET").Security = &[]map[string][]string{{}, {"bearer": {}}}
	})
	add("security/unknown-scheme", true, func(d *Doc) {
		opAt(d, "/x", "GET").Security = &[]map[string][]string{{"nope": {}}}
	})
	add("security/unused-schemes", false, func(d *Doc) {
		d.Components = &Components{SecuritySchemes: secSchemes}
		opAt(d, "/x", "GET")
	})
	add("security/two-apikey-headers", false, func(d *Doc) {
		d.Components = &Components{SecuritySchemes: map[string]*SecurityScheme{"k1": {Type: "apiKey", In: "header", Name: "X-Key-One"}, "k2": {Type: "apiKey", In: "header", Name: "x-key-two"}}}
		opAt(d, "/x", "GET").Security = &[]map[string][]string{{"k1": {}}, {"k2": {}}}
	})
	// servers
	for _, b := range BaseForms() {
		b := b
		add("servers/"+b.Name, false, func(d *Doc) {
			d.Servers = b.Servers
			opAt(d, "/x", "GET")
			opAt(d, "/x/{id}", "GET").Parameters = []*Parameter{{Name: "id", In: "path", Required: true, Schema: &Schema{Type: "string"}}}
		})
	}
	// paths
	for _, p := range []string{"/", "/a/", "/a/{v}/", "/{v}", "/{v}/{w}/{x}", "/a/b/c/d/e/f", "/a.json", "/a_b", "/1", "/a//b", "/{v}.json", "/a/{v}-x", "/a/{v}{w}"} {
		p := p
		neg := strings.Contains(p, "//") || strings.Contains(p, "}.") || strings.Contains(p, "}-") || strings.Contains(p, "}{")
		add("path/"+p, neg, func(d *Doc) {
			o := opAt(d, p, "GET")
			for _, v := range ParseTemplateVars(p) {
				o.Parameters = append(o.Parameters, &Parameter{Name: v, In: "path", Required: true, Schema: &Schema{Type: "string"}})
			}
		})
	}
	add("empty-paths", false, func(d *Doc) {})
	add("only-components", false, func(d *Doc) { addComp(d, "Thing", objAB()) })
	add("recursive-schema", true, func(d *Doc) {
		addComp(d, "Node", &Schema{Type: "object", Properties: map[string]*Schema{"next": {Ref: RefSchemas + "Node"}, "val": {Type: "string"}}})
		opAt(d, "/x", "GET")
	})
	add("recursive-array-schema", true, func(d *Doc) {
		addComp(d, "Tree", &Schema{Type: "object", Properties: map[string]*Schema{"kids": {Type: "array", Items: &Schema{Ref: RefSchemas + "Tree"}}}})
		opAt(d, "/x", "GET")
	})
	add("schema-alias-chain", false, func(d *Doc) {
		addComp(d, "A1", objAB())
		addComp(d, "A2", &Schema{Ref: RefSchemas + "A1"})
		addComp(d, "A3", &Schema{Ref: RefSchemas + "A2"})
		opAt(d, "/x", "POST").RequestBody = &RequestBody{Content: JSONContent(&Schema{Ref: RefSchemas + "A3"})}
	})
	add("schema-alias-prim", false, func(d *Doc) {
		addComp(d, "A1", &Schema{Type: "integer"})
		addComp(d, "A2", &Schema{Ref: RefSchemas + "A1"})
		opAt(d, "/x", "GET").Parameters = []*Parameter{{Name: "q", In: "query", Schema: &Schema{Ref: RefSchemas + "A2"}}}
	})
	add("ignored-keywords", false, func(d *Doc) {
		mn := 1.0
		addComp(d, "K", &Schema{Type: "object", Properties: map[string]*Schema{"e": {Type: "string", Enum: []any{"a", "b"}}, "m": {Type: "integer", Minimum: &mn}, "p": {Type: "string", Pattern: "^a+$"}}})
		opAt(d, "/x", "GET")
	})
	add("unknown-string-format", true, func(d *Doc) { addComp(d, "K", &Schema{Type: "string", Format: "uuid"}); opAt(d, "/x", "GET") })
	add("unknown-number-format", true, func(d *Doc) { addComp(d, "K", &Schema{Type: "number", Format: "decimal"}); opAt(d, "/x", "GET") })
	add("unknown-type", true, func(d *Doc) { addComp(d, "K", &Schema{Type: "null"}); opAt(d, "/x", "GET") })
	sort.Slice(rows, func(i, j int) bool { return rows[i].ID < rows[j].ID })
	return rows
}

func ParseTemplateVars(p string) []string {
	var out []string
	for {
		i := strings.Index(p, "{")
		if i < 0 {
			return out
		}
		j := strings.Index(p[i:], "}")
		if j < 0 {
			return out
		}
		out = append(out, p[i+1:i+j])
		p = p[i+j+1:]
	}
}

// AllRows is the complete deterministic C01 matrix.
func AllRows() []Row {
	var rows []Row
	rows = append(rows, MatrixRows()...)
	rows = append(rows, NameRows()...)
	rows = append(rows, TextRows()...)
	rows = append(rows, OperationRows()...)
	return rows
}

// Package rt runs rapid properties inside plain (non-test) binaries.
package rt

import (
	"flag"
	"fmt"
	"strings"
	"sync"
	"testing"
	"time"

	"pgregory.net/rapid"
)

var initOnce sync.Once

type stop struct{}

type tb struct {
	name   string
	failed bool
	log    strings.Builder
}

func (t *tb) Helper()      {}
func (t *tb) Name() string { return t.name }
func (t *tb) Logf(format string, args ...any) {
	if t.log.Len() < 1<<20 {
		fmt.Fprintf(&t.log, format+"\n", args...)
	}
}
func (t *tb) Log(args ...any)                   { t.Logf("%s", fmt.Sprint(args...)) }
func (t *tb) Skipf(format string, args ...any)  { t.Logf(format, args...); panic(stop{}) }
func (t *tb) Skip(args ...any)                  { t.Log(args...); panic(stop{}) }
func (t *tb) SkipNow()                          { panic(stop{}) }
func (t *tb) Errorf(format string, args ...any) { t.failed = true; t.Logf(format, args...) }
func (t *tb) Error(args ...any)                 { t.failed = true; t.Log(args...) }
func (t *tb) Fatalf(format string, args ...any) {
	t.failed = true
	t.Logf(format, args...)
	panic(stop{})
}
func (t *tb) Fatal(args ...any) { t.failed = true; t.Log(args...); panic(stop{}) }
func (t *tb) FailNow()          { t.failed = true; panic(stop{}) }
func (t *tb) Fail()             { t.failed = true }
func (t *tb) Failed() bool      { return t.failed }

// Seed maps any value to a non-zero rapid seed (0 means "random" to rapid).
func Seed(parts ...uint64) uint64 {
	x := uint64(0x9E3779B97F4A7C15)
	for _, p := range parts {
		x ^= p + 0x9E3779B97F4A7C15 + (x << 6) + (x >> 2)
		x ^= x >> 30
		x *= 0xBF58476D1CE4E5B9
		x ^= x >> 27
		x *= 0x94D049BB133111EB
		x ^= x >> 31
	}
	if x == 0 {
		x = 1
	}
	return x
}

func SeedStr(s string) uint64 {
	h := uint64(14695981039346656037)
	for i := 0; i < len(s); i++ {
		h ^= uint64(s[i])
		h *= 1099511628211
	}
	return h
}

// Check runs rapid.Check on prop with the given seed / number of cases / shrink
// budget. It returns whether the property held and rapid's log.
func Check(name string, seed uint64, checks int, shrink time.Duration, prop func(*rapid.T)) (ok bool, log string) {
	initOnce.Do(func() {
		testing.Init()
		// testing.Short() panics unless the flag set has been parsed
		must(flag.CommandLine.Parse(nil))
	})
	if seed == 0 {
		seed = 1
	}
	must(flag.Set("rapid.checks", fmt.Sprint(checks)))
	must(flag.Set("rapid.seed", fmt.Sprint(seed)))
	must(flag.Set("rapid.shrinktime", shrink.String()))
	must(flag.Set("rapid.nofailfile", "true"))
	t := &tb{name: name}
	func() {
		defer func() {
			if r := recover(); r != nil {
				if _, isStop := r.(stop); !isStop {
					panic(r)
				}
			}
		}()
		rapid.Check(t, prop)
	}()
	return !t.failed, t.log.String()
}

func must(err error) {
	if err != nil {
		panic(err)
	}
}

// Package refmodel holds the reference models (oracles) of DESIGN.md §6. They are
// written from the property statements over the verification side's own AST and
// share no code with goag or with code goag emits.
package refmodel

import (
	"net/url"
	"sort"
	"strings"

	"verif/specgen"
)

// BasePath is the reference base path: the override flag if non-empty, else the
// path of servers[0].url after substituting every {var} by its default (sorted
// name order), with one trailing slash removed ("/" => "").
func BasePath(d *specgen.Doc, flag string) string {
	bp := flag
	if bp == "" && len(d.Servers) > 0 {
		raw := d.Servers[0].URL
		for _, k := range specgen.SortedKeys(d.Servers[0].Variables) {
			raw = strings.ReplaceAll(raw, "{"+k+"}", d.Servers[0].Variables[k].Default)
		}
		if u, err := url.Parse(raw); err == nil {
			bp = u.Path
		}
	}
	return strings.TrimSuffix(bp, "/")
}

type RouteOp struct {
	Template string
	Method   string
}

// Outcome set of the reference matcher.
type RouteVerdict struct {
	// Dispatch is the single admissible dispatch target (nil: none admissible).
	Dispatch *RouteOp
	// NotFound: the not-found outcome is admissible.
	NotFound bool
	// Why explains the verdict (for reports).
	Why string
}

func splitSegs(p string) []string { return strings.Split(strings.TrimPrefix(p, "/"), "/") }

func isVar(seg string) bool { return strings.HasPrefix(seg, "{") && strings.HasSuffix(seg, "}") }

// matchTemplate reports whether rest (beginning with "/") matches tpl segment for
// segment, and whether some variable is bound to an empty segment.
func matchTemplate(tpl, rest string) (ok, emptyVar bool) {
	ts, rs := splitSegs(tpl), splitSegs(rest)
	if len(ts) != len(rs) {
		return false, false
	}
	for i := range ts {
		if isVar(ts[i]) {
			if rs[i] == "" {
				emptyVar = true
			}
			continue
		}
		if ts[i] != rs[i] {
			return false, false
		}
	}
	return true, emptyVar
}

// moreLiteral orders templates segment by segment with literal < variable.
func moreLiteral(a, b string) bool {
	as, bs := splitSegs(a), splitSegs(b)
	for i := 0; i < len(as) && i < len(bs); i++ {
		av, bv := isVar(as[i]), isVar(bs[i])
		if av != bv {
			return !av
		}
	}
	return a < b
}

// Route is the reference router (DESIGN.md §6.1).
func Route(d *specgen.Doc, basePath, method, path string) RouteVerdict {
	if !strings.HasPrefix(path, basePath) {
		return RouteVerdict{NotFound: true, Why: "path is not under the base path"}
	}
	rest := path[len(basePath):]
	if !strings.HasPrefix(rest, "/") {
		return RouteVerdict{NotFound: true, Why: "no segment boundary after the base path"}
	}
	var matching []string
	empty := map[string]bool{}
	for _, tpl := range specgen.SortedKeys(d.Paths) {
		if ok, ev := matchTemplate(tpl, rest); ok {
			matching = append(matching, tpl)
			empty[tpl] = ev
		}
	}
	if len(matching) == 0 {
		return RouteVerdict{NotFound: true, Why: "no template matches"}
	}
	sort.Slice(matching, func(i, j int) bool { return moreLiteral(matching[i], matching[j]) })
	var withMethod []string
	for _, tpl := range matching {
		if d.Paths[tpl].Op(method) != nil {
			withMethod = append(withMethod, tpl)
		}
	}
	if len(withMethod) == 0 {
		return RouteVerdict{NotFound: true, Why: "matching templates do not declare the method"}
	}
	winner := withMethod[0]
	v := RouteVerdict{Dispatch: &RouteOp{Template: winner, Method: method}, Why: "most literal matching template with the method"}
	if empty[winner] {
		v.NotFound = true
		v.Why += "; a variable is bound to an empty segment (not-found also admissible)"
	}
	if matching[0] != winner {
		// "the operation whose path template matches ... requiring the operation's method":
		// a more literal template that lacks the method is not such an operation, the less
		// literal one is; "if no such operation exists the not-found handler runs" does not
		// apply (DESIGN.md section 11, method fallback)
		v.Why += "; a more literal template matches without the method"
	}
	return v
}

package refmodel

import (
	"net/http"
	"sort"
	"strings"

	"verif/specgen"
)

// SchemeKind classifies a security scheme the way the property does.
func SchemeKind(s *specgen.SecurityScheme) string {
	switch {
	case s == nil:
		return "missing"
	case s.Type == "http" && strings.EqualFold(s.Scheme, "bearer"):
		return "bearer"
	case s.Type == "apiKey" && s.In == "header":
		return "apikey-header"
	case s.Type == "apiKey" && s.In == "query":
		return "apikey-query"
	}
	return "unsupported"
}

// Cred is what a request carries for one scheme.
type Cred int

const (
	CredAbsent Cred = iota
	CredInvalid
	CredValid
)

func (c Cred) String() string { return [...]string{"absent", "invalid", "valid"}[c] }

// Admitted is the reference security evaluator (DESIGN.md §6.4): eff(op) = own list
// if present else global; empty = public. A request is admitted iff some
// alternative has all its schemes supported, installed, given a credential and
// accepted. It returns the set of scheme names of one accepting alternative for
// every accepting alternative.
func Admitted(d *specgen.Doc, op *specgen.Operation, creds map[string]Cred, installed map[string]bool) (admitted bool, public bool, accepting [][]string) {
	eff := d.EffectiveSecurity(op)
	if len(eff) == 0 {
		return true, true, nil
	}
	for _, alt := range eff {
		if len(alt) == 0 {
			// an empty alternative means "no credentials needed"; outside C11's
			// enumerated domain, treated as public
			return true, true, nil
		}
		ok := true
		var names []string
		for name := range alt {
			var sch *specgen.SecurityScheme
			if d.Components != nil {
				sch = d.Components.SecuritySchemes[name]
			}
			k := SchemeKind(sch)
			if k == "unsupported" || k == "missing" || !installed[name] || creds[name] != CredValid {
				ok = false
			}
			names = append(names, name)
		}
		sort.Strings(names)
		if ok {
			accepting = append(accepting, names)
		}
	}
	return len(accepting) > 0, false, accepting
}

// CORSExpected is the reference for C17: the declared methods of the path item and
// the canonicalised, de-duplicated header parameters plus the headers its
// security schemes read.
func CORSExpected(d *specgen.Doc, pi *specgen.PathItem) (methods []string, headers []string) {
	hs := map[string]bool{}
	for _, mo := range pi.Ops() {
		methods = append(methods, mo.Method)
		for _, p := range d.EffectiveParameters(pi, mo.Op) {
			if p.In == "header" {
				hs[http.CanonicalHeaderKey(p.Name)] = true
			}
		}
		for _, alt := range d.EffectiveSecurity(mo.Op) {
			for name := range alt {
				var sch *specgen.SecurityScheme
				if d.Components != nil {
					sch = d.Components.SecuritySchemes[name]
				}
				switch SchemeKind(sch) {
				case "bearer":
					hs["Authorization"] = true
				case "apikey-header":
					hs[http.CanonicalHeaderKey(sch.Name)] = true
				}
			}
		}
	}
	for h := range hs {
		headers = append(headers, h)
	}
	sort.Strings(methods)
	sort.Strings(headers)
	return methods, headers
}

package refmodel

import (
	"math"
	"math/big"
	"regexp"
	"strconv"
	"strings"
	"time"

	"verif/specgen"
)

// Three-valued lexical spaces (DESIGN.md §6.2). The typed value of a must-accept
// lexeme is computed with math/big so that the oracle does not share strconv's
// parsing code with the generated parser.

type Verdict int

const (
	MustReject Verdict = iota
	MustAccept
	DontCare
)

func (v Verdict) String() string { return [...]string{"must-reject", "must-accept", "dont-care"}[v] }

// TypedValue is the reference value of a lexeme.
type TypedValue struct {
	Kind string // string | int | float | bool | time
	S    string
	I    int64
	F    float64 // already rounded to the carrier width
	B    bool
	T    time.Time
}

var (
	reInt      = regexp.MustCompile(`^-?(0|[1-9][0-9]*)$`)
	reIntLoose = regexp.MustCompile(`^[+-]?[0-9]+$`)
	reFloat    = regexp.MustCompile(`^-?(0|[1-9][0-9]*)(\.[0-9]+)?([eE][+-]?[0-9]+)?$`)
	reFloatAny = regexp.MustCompile(`^[+-]?([0-9]+\.?[0-9]*|\.[0-9]+)([eE][+-]?[0-9]+)?$`)
	reRFC3339  = regexp.MustCompile(`^([0-9]{4})-([0-9]{2})-([0-9]{2})T([0-9]{2}):([0-9]{2}):([0-9]{2})(\.[0-9]{1,9})?(Z|[+-][0-9]{2}:[0-9]{2})$`)
	reRFCLoose = regexp.MustCompile(`^([0-9]{4,})-([0-9]{2})-([0-9]{2})[Tt]([0-9]{2}):([0-9]{2}):([0-9]{2})([.,][0-9]+)?([Zz]|[+-][0-9]{2}:[0-9]{2})$`)
)

func intRange(p specgen.Prim) (min, max int64) {
	if p.Format == "int32" {
		return math.MinInt32, math.MaxInt32
	}
	return math.MinInt64, math.MaxInt64
}

// Judge classifies lexeme s for primitive type p and returns its reference value.
func Judge(p specgen.Prim, s string) (Verdict, TypedValue) {
	switch p.Type {
	case "string":
		if p.Format == "date-time" {
			if l := p.Layout(); l != "" && l != "time.RFC3339" {
				return judgeLayout(l, s)
			}
			return judgeTime(s)
		}
		return MustAccept, TypedValue{Kind: "string", S: s}
	case "integer":
		if reInt.MatchString(s) {
			if s == "-0" {
				return DontCare, TypedValue{}
			}
			n, ok := new(big.Int).SetString(s, 10)
			if !ok {
				return MustReject, TypedValue{}
			}
			min, max := intRange(p)
			if n.Cmp(big.NewInt(min)) < 0 || n.Cmp(big.NewInt(max)) > 0 {
				return MustReject, TypedValue{}
			}
			return MustAccept, TypedValue{Kind: "int", I: n.Int64()}
		}
		if reIntLoose.MatchString(s) {
			return DontCare, TypedValue{} // +5, leading zeros
		}
		if strings.Contains(s, "_") && reIntLoose.MatchString(strings.ReplaceAll(s, "_", "")) {
			return MustReject, TypedValue{}
		}
		return MustReject, TypedValue{}
	case "number":
		bits := 64
		if p.Format == "float" {
			bits = 32
		}
		if reFloat.MatchString(s) {
			f, _, err := big.ParseFloat(s, 10, 2000, big.ToNearestEven)
			if err != nil {
				return DontCare, TypedValue{}
			}
			var v float64
			if bits == 32 {
				f32, _ := f.Float32()
				v = float64(f32)
			} else {
				v, _ = f.Float64()
			}
			if math.IsInf(v, 0) {
				return MustReject, TypedValue{} // overflow
			}
			if v == 0 && f.Sign() != 0 {
				return DontCare, TypedValue{} // underflow to zero
			}
			// values so close to the overflow boundary that rounding decides
			if bits == 32 && math.Abs(v) >= math.MaxFloat32 || bits == 64 && math.Abs(v) >= math.MaxFloat64 {
				return DontCare, TypedValue{}
			}
			return MustAccept, TypedValue{Kind: "float", F: v}
		}
		if reFloatAny.MatchString(s) {
			return DontCare, TypedValue{} // .5, 5., +1.5, leading zeros
		}
		ls := strings.ToLower(strings.TrimLeft(s, "+-"))
		if ls == "nan" || ls == "inf" || ls == "infinity" || strings.HasPrefix(ls, "0x") || strings.Contains(s, "_") {
			return DontCare, TypedValue{}
		}
		return MustReject, TypedValue{}
	case "boolean":
		switch s {
		case "true":
			return MustAccept, TypedValue{Kind: "bool", B: true}
		case "false":
			return MustAccept, TypedValue{Kind: "bool", B: false}
		case "1", "0", "t", "f", "T", "F", "TRUE", "FALSE", "True", "False":
			return DontCare, TypedValue{}
		}
		return MustReject, TypedValue{}
	}
	return DontCare, TypedValue{}
}

var (
	reRFC1123Z      = regexp.MustCompile(`^(Mon|Tue|Wed|Thu|Fri|Sat|Sun), ([0-9]{2}) (Jan|Feb|Mar|Apr|May|Jun|Jul|Aug|Sep|Oct|Nov|Dec) ([0-9]{4}) ([0-9]{2}):([0-9]{2}):([0-9]{2}) ([+-])([0-9]{2})([0-9]{2})$`)
	reRFC1123ZLoose = regexp.MustCompile(`^[A-Za-z]{3}, [0-9]{1,2} [A-Za-z]{3} [0-9]{4,} [0-9]{1,2}:[0-9]{2}:[0-9]{2}([.,][0-9]+)? [+-][0-9]{4}$`)
	reDateOnly      = regexp.MustCompile(`^([0-9]{4})-([0-9]{2})-([0-9]{2})$`)
	reDateOnlyLoose = regexp.MustCompile(`^[0-9]{1,}-[0-9]{1,2}-[0-9]{1,2}$`)
	reDateTime      = regexp.MustCompile(`^([0-9]{4})-([0-9]{2})-([0-9]{2}) ([0-9]{2}):([0-9]{2}):([0-9]{2})$`)
	reDateTimeLoose = regexp.MustCompile(`^[0-9]{1,}-[0-9]{1,2}-[0-9]{1,2} [0-9]{1,2}:[0-9]{2}:[0-9]{2}([.,][0-9]+)?$`)
)

func daysIn(y, mo int) int {
	dim := []int{31, 28, 31, 30, 31, 30, 31, 31, 30, 31, 30, 31}[mo-1]
	if mo == 2 && (y%4 == 0 && y%100 != 0 || y%400 == 0) {
		dim = 29
	}
	return dim
}

// judgeLayout is the lexical space of a date-time whose Go layout is given by the
// x-goag-go-time-format extension (time.RFC1123Z, time.DateOnly, time.DateTime):
// must-accept = text in exactly that layout with a real date and time (zone-less
// layouts mean UTC); text that only resembles the layout (fractions, one-digit
// fields, a weekday that does not fit the date, second 60, year 0) is a don't-care;
// everything else, RFC 3339 text included, must be rejected.
func judgeLayout(layout, s string) (Verdict, TypedValue) {
	atoi := func(x string) int { n, _ := strconv.Atoi(x); return n }
	check := func(y, mo, d, h, mi, sec int) Verdict {
		if y < 1 {
			return DontCare
		}
		if mo < 1 || mo > 12 || d < 1 || d > daysIn(y, mo) || h > 23 || mi > 59 || sec > 60 {
			return MustReject
		}
		if sec == 60 {
			return DontCare
		}
		return MustAccept
	}
	switch layout {
	case "time.DateOnly":
		m := reDateOnly.FindStringSubmatch(s)
		if m == nil {
			if reDateOnlyLoose.MatchString(s) {
				return DontCare, TypedValue{}
			}
			return MustReject, TypedValue{}
		}
		y, mo, d := atoi(m[1]), atoi(m[2]), atoi(m[3])
		if v := check(y, mo, d, 0, 0, 0); v != MustAccept {
			return v, TypedValue{}
		}
		return MustAccept, TypedValue{Kind: "time", T: time.Date(y, time.Month(mo), d, 0, 0, 0, 0, time.UTC)}
	case "time.DateTime":
		m := reDateTime.FindStringSubmatch(s)
		if m == nil {
			if reDateTimeLoose.MatchString(s) {
				return DontCare, TypedValue{}
			}
			return MustReject, TypedValue{}
		}
		y, mo, d, h, mi, sec := atoi(m[1]), atoi(m[2]), atoi(m[3]), atoi(m[4]), atoi(m[5]), atoi(m[6])
		if v := check(y, mo, d, h, mi, sec); v != MustAccept {
			return v, TypedValue{}
		}
		return MustAccept, TypedValue{Kind: "time", T: time.Date(y, time.Month(mo), d, h, mi, sec, 0, time.UTC)}
	case "time.RFC1123Z":
		m := reRFC1123Z.FindStringSubmatch(s)
		if m == nil {
			if reRFC1123ZLoose.MatchString(s) {
				return DontCare, TypedValue{}
			}
			return MustReject, TypedValue{}
		}
		months := map[string]int{"Jan": 1, "Feb": 2, "Mar": 3, "Apr": 4, "May": 5, "Jun": 6, "Jul": 7, "Aug": 8, "Sep": 9, "Oct": 10, "Nov": 11, "Dec": 12}
		d, mo, y, h, mi, sec := atoi(m[2]), months[m[3]], atoi(m[4]), atoi(m[5]), atoi(m[6]), atoi(m[7])
		if v := check(y, mo, d, h, mi, sec); v != MustAccept {
			return v, TypedValue{}
		}
		oh, om := atoi(m[9]), atoi(m[10])
		if oh > 23 || om > 59 {
			return DontCare, TypedValue{}
		}
		off := oh*3600 + om*60
		if m[8] == "-" {
			off = -off
		}
		t := time.Date(y, time.Month(mo), d, h, mi, sec, 0, time.FixedZone("", off))
		if t.Weekday().String()[:3] != m[1] {
			return DontCare, TypedValue{}
		}
		return MustAccept, TypedValue{Kind: "time", T: t}
	}
	return DontCare, TypedValue{}
}

func judgeTime(s string) (Verdict, TypedValue) {
	m := reRFC3339.FindStringSubmatch(s)
	if m == nil {
		if reRFCLoose.MatchString(s) {
			return DontCare, TypedValue{} // lower-case t/z, comma fraction, year > 9999
		}
		return MustReject, TypedValue{}
	}
	atoi := func(x string) int { n, _ := strconv.Atoi(x); return n }
	y, mo, d, h, mi, sec := atoi(m[1]), atoi(m[2]), atoi(m[3]), atoi(m[4]), atoi(m[5]), atoi(m[6])
	if mo < 1 || mo > 12 || d < 1 || h > 23 || mi > 59 {
		return MustReject, TypedValue{}
	}
	if sec == 60 {
		return DontCare, TypedValue{}
	}
	if sec > 60 {
		return MustReject, TypedValue{}
	}
	dim := []int{31, 28, 31, 30, 31, 30, 31, 31, 30, 31, 30, 31}[mo-1]
	if mo == 2 && (y%4 == 0 && y%100 != 0 || y%400 == 0) {
		dim = 29
	}
	if d > dim {
		return MustReject, TypedValue{}
	}
	off := 0
	if m[8] != "Z" {
		oh, om := atoi(m[8][1:3]), atoi(m[8][4:6])
		if oh > 23 || om > 59 {
			return DontCare, TypedValue{}
		}
		off = oh*3600 + om*60
		if m[8][0] == '-' {
			off = -off
		}
	}
	ns := 0
	if m[7] != "" {
		frac := (m[7][1:] + "000000000")[:9]
		ns = atoi(frac)
	}
	t := time.Date(y, time.Month(mo), d, h, mi, sec, ns, time.FixedZone("", off))
	if y == 0 {
		return DontCare, TypedValue{}
	}
	return MustAccept, TypedValue{Kind: "time", T: t}
}

// LexClass is a named class of lexemes for one primitive.
type LexClass struct {
	Name    string
	Lexemes []string
}

// LexClasses lists fixed lexeme classes per primitive (rapid adds random members).
func LexClasses(p specgen.Prim) []LexClass {
	garbage := []string{"abc", "tru", "1,5", "--1", "1e", "0x10", " 5", "5 ", "１２", "nil", "null", "{}", "1 2", "１"}
	switch p.Type {
	case "integer":
		min, max := intRange(p)
		bmin, bmax := big.NewInt(min), big.NewInt(max)
		below := new(big.Int).Sub(bmin, big.NewInt(1)).String()
		above := new(big.Int).Add(bmax, big.NewInt(1)).String()
		return []LexClass{
			{"canonical", []string{"0", "1", "-1", "42", "-7", "1000000", "123456789"}},
			{"boundary", []string{bmin.String(), bmax.String(), new(big.Int).Add(bmin, big.NewInt(1)).String(), new(big.Int).Sub(bmax, big.NewInt(1)).String(), "2147483647", "-2147483648", "2147483648", "-2147483649", "9007199254740993"}},
			{"out-of-range", []string{below, above, "99999999999999999999999", "-99999999999999999999999", "1e3", "1.0", "1.5"}},
			{"garbage", garbage},
			{"empty", []string{""}},
			{"dont-care", []string{"+5", "007", "-0", "1_000"}},
		}
	case "number":
		cl := []LexClass{
			{"canonical", []string{"0", "1", "-1", "1.5", "-2.25", "3.14159", "1e3", "1E-3", "2.5e+10", "100", "0.1", "123456.789"}},
			{"boundary", []string{"1.7976931348623157e308", "-1.7976931348623157e308", "4.9e-324", "3.4028234e38", "-3.4028234e38", "1e38", "1e-45", "0.30000000000000004", "1.00000005960464477539062500000000001", "16777217", "9007199254740993", "3.5e38", "1e39", "1e308"}},
			{"out-of-range", []string{"1e400", "-1e400", "1e309", "2e308"}},
			{"garbage", garbage},
			{"empty", []string{""}},
			{"dont-care", []string{"NaN", "Inf", "-Inf", ".5", "5.", "+1.5", "0x1p-2", "1e-400", "01.5"}},
		}
		return cl
	case "boolean":
		return []LexClass{
			{"canonical", []string{"true", "false"}},
			{"garbage", []string{"yes", "no", "2", "tru", "on", "truee", " true", "TRUe", "-1", "null"}},
			{"empty", []string{""}},
			{"dont-care", []string{"1", "0", "t", "f", "T", "F", "TRUE", "FALSE", "True", "False"}},
		}
	case "string":
		if p.Format == "date-time" {
			rfc3339 := []string{"2021-03-04T05:06:07Z", "1999-12-31T23:59:59+02:00", "2020-02-29T00:00:00.5Z"}
			switch p.Layout() {
			case "time.DateOnly":
				return []LexClass{
					{"canonical", []string{"2021-03-04", "1999-12-31", "2020-02-29", "0001-01-01", "9999-12-31"}},
					{"out-of-range", []string{"2021-13-01", "2021-02-30", "2021-00-10", "2021-01-32", "2023-02-29"}},
					{"other-layout", append([]string{"Thu, 04 Mar 2021 05:06:07 +0000", "2021-03-04 05:06:07", "04/03/2021", "20210304"}, rfc3339...)},
					{"garbage", []string{"yesterday", "1614834367", "2021-03", "2021-03-04T", "2021-03-04 "}},
					{"empty", []string{""}},
					{"dont-care", []string{"2021-3-4", "0000-01-01", "10000-01-01"}},
				}
			case "time.DateTime":
				return []LexClass{
					{"canonical", []string{"2021-03-04 05:06:07", "1999-12-31 23:59:59", "2020-02-29 00:00:00", "0001-01-01 00:00:00", "9999-12-31 23:59:59"}},
					{"out-of-range", []string{"2021-13-01 00:00:00", "2021-02-30 00:00:00", "2021-01-01 24:00:00", "2021-01-01 00:60:00", "2023-02-29 00:00:00", "2021-01-01 00:00:61"}},
					{"other-layout", append([]string{"Thu, 04 Mar 2021 05:06:07 +0000", "2021-03-04", "2021-03-04 05:06:07Z", "2021-03-04 05:06"}, rfc3339...)},
					{"garbage", []string{"yesterday", "1614834367", "05:06:07"}},
					{"empty", []string{""}},
					{"dont-care", []string{"2021-03-04 05:06:07.5", "2021-3-4 5:06:07", "2016-12-31 23:59:60"}},
				}
			case "time.RFC1123Z":
				return []LexClass{
					{"canonical", []string{"Thu, 04 Mar 2021 05:06:07 +0000", "Fri, 31 Dec 1999 23:59:59 +0200", "Sat, 29 Feb 2020 00:00:00 -0730", "Mon, 01 Jan 0001 00:00:00 +0000", "Fri, 31 Dec 9999 23:59:59 +0000"}},
					{"boundary", []string{"Thu, 29 Feb 2024 12:00:00 +1400", "Fri, 31 Dec 2021 00:00:00 -1200"}},
					{"out-of-range", []string{"Thu, 32 Mar 2021 05:06:07 +0000", "Tue, 30 Feb 2021 00:00:00 +0000", "Thu, 04 Mar 2021 24:06:07 +0000", "Thu, 04 Mar 2021 05:60:07 +0000"}},
					{"other-layout", append([]string{"Thu, 04 Mar 2021 05:06:07 GMT", "Thu, 04 Mar 2021 05:06:07 UTC", "04 Mar 2021 05:06:07 +0000", "Thu, 04 Mar 2021 05:06:07", "2021-03-04", "Thursday, 04-Mar-21 05:06:07 UTC", "Thu, 04 Mar 2021 05:06:07 +00:00"}, rfc3339...)},
					{"garbage", []string{"yesterday", "1614834367", "Thu, 04 Foo 2021 05:06:07 +0000", "Xyz, 04 Mar 2021 05:06:07 +0000"}},
					{"empty", []string{""}},
					{"dont-care", []string{"Fri, 04 Mar 2021 05:06:07 +0000", "Thu, 4 Mar 2021 05:06:07 +0000", "Thu, 04 Mar 2021 05:06:07.5 +0000", "Sat, 31 Dec 2016 23:59:60 +0000"}},
				}
			}
			return []LexClass{
				{"canonical", []string{"2021-03-04T05:06:07Z", "1999-12-31T23:59:59+02:00", "2020-02-29T00:00:00.123456789-07:30", "2000-01-01T12:00:00.5Z", "0001-01-01T00:00:00Z", "9999-12-31T23:59:59Z"}},
				{"boundary", []string{"2021-02-28T23:59:59.999999999Z", "2024-02-29T12:00:00+14:00", "2021-12-31T00:00:00-12:00"}},
				{"out-of-range", []string{"2021-13-01T00:00:00Z", "2021-02-30T00:00:00Z", "2021-00-10T00:00:00Z", "2021-01-32T00:00:00Z", "2021-01-01T24:00:00Z", "2021-01-01T00:60:00Z", "2023-02-29T00:00:00Z", "2021-01-01T00:00:61Z"}},
				{"garbage", []string{"2021-03-04", "2021-03-04 05:06:07Z", "05:06:07Z", "yesterday", "2021-03-04T05:06:07", "2021-3-4T05:06:07Z", "1614834367", "2021-03-04T05:06Z"}},
				{"empty", []string{""}},
				{"dont-care", []string{"2021-03-04t05:06:07z", "2016-12-31T23:59:60Z", "10000-01-01T00:00:00Z", "2021-03-04T05:06:07,5Z"}},
			}
		}
		return []LexClass{
			{"canonical", []string{"abc", "hello world", "x"}},
			{"boundary", []string{"?#%&+=; ", "..", "a/b", "äöü€😀", "%2F", "a%20b", "a+b", " lead", "trail ", "\"quoted\"", "a,b", "null", "0", strings.Repeat("x", 300)}},
			{"empty", []string{""}},
		}
	}
	return nil
}

package refmodel

import (
	"math"
	"math/big"
	"regexp"
	"strconv"
	"strings"
	"time"

	"verif/specgen"
)

// Three-valued lexical spaces (DESIGN.md §6.2). The typed value of a must-accept
// lexeme is computed with math/big so that the oracle does not share strconv's
// parsing code with the generated parser.

type Verdict int

const (
	MustReject Verdict = iota
	MustAccept
	DontCare
)

func (v Verdict) String() string { return [...]string{"must-reject", "must-accept", "dont-care"}[v] }

// TypedValue is the reference value of a lexeme.
type TypedValue struct {
	Kind string // string | int | float | bool | time
	S    string
	I    int64
	F    float64 // already rounded to the carrier width
	B    bool
	T    time.Time
}

var (
	reInt      = regexp.MustCompile(`^-?(0|[1-9][0-9]*)$`)
	reIntLoose = regexp.MustCompile(`^[+-]?[0-9]+$`)
	reFloat    = regexp.MustCompile(`^-?(0|[1-9][0-9]*)(\.[0-9]+)?([eE][+-]?[0-9]+)?$`)
	reFloatAny = regexp.MustCompile(`^[+-]?([0-9]+\.?[0-9]*|\.[0-9]+)([eE][+-]?[0-9]+)?$`)
	reRFC3339  = regexp.MustCompile(`^([0-9]{4})-([0-9]{2})-([0-9]{2})T([0-9]{2}):([0-9]{2}):([0-9]{2})(\.[0-9]{1,9})?(Z|[+-][0-9]{2}:[0-9]{2})$`)
	reRFCLoose = regexp.MustCompile(`^([0-9]{4,})-([0-9]{2})-([0-9]{2})[Tt]([0-9]{2}):([0-9]{2}):([0-9]{2})([.,][0-9]+)?([Zz]|[+-][0-9]{2}:[0-9]{2})$`)
)

func intRange(p specgen.Prim) (min, max int64) {
	if p.Format == "int32" {
		return math.MinInt32, math.MaxInt32
	}
	return math.MinInt64, math.MaxInt64
}

// Judge classifies lexeme s for primitive type p and returns its reference value.
func Judge(p specgen.Prim, s string) (Verdict, TypedValue) {
	switch p.Type {
	case "string":
		if p.Format == "date-time" {
			return judgeTime(s)
		}
		return MustAccept, TypedValue{Kind: "string", S: s}
	case "integer":
		if reInt.MatchString(s) {
			if s == "-0" {
				return DontCare, TypedValue{}
			}
			n, ok := new(big.Int).SetString(s, 10)
			if !ok {
				return MustReject, TypedValue{}
			}
			min, max := intRange(p)
			if n.Cmp(big.NewInt(min)) < 0 || n.Cmp(big.NewInt(max)) > 0 {
				return MustReject, TypedValue{}
			}
			return MustAccept, TypedValue{Kind: "int", I: n.Int64()}
		}
		if reIntLoose.MatchString(s) {
			return DontCare, TypedValue{} // +5, leading zeros
		}
		if strings.Contains(s, "_") && reIntLoose.MatchString(strings.ReplaceAll(s, "_", "")) {
			return MustReject, TypedValue{}
		}
		return MustReject, TypedValue{}
	case "number":
		bits := 64
		if p.Format == "float" {
			bits = 32
		}
		if reFloat.MatchString(s) {
			f, _, err := big.ParseFloat(s, 10, 2000, big.ToNearestEven)
			if err != nil {
				return DontCare, TypedValue{}
			}
			var v float64
			if bits == 32 {
				f32, _ := f.Float32()
				v = float64(f32)
			} else {
				v, _ = f.Float64()
			}
			if math.IsInf(v, 0) {
				return MustReject, TypedValue{} // overflow
			}
			if v == 0 && f.Sign() != 0 {
				return DontCare, TypedValue{} // underflow to zero
			}
			// values so close to the overflow boundary that rounding decides
			if bits == 32 && math.Abs(v) >= math.MaxFloat32 || bits == 64 && math.Abs(v) >= math.MaxFloat64 {
				return DontCare, TypedValue{}
			}
			return MustAccept, TypedValue{Kind: "float", F: v}
		}
		if reFloatAny.MatchString(s) {
			return DontCare, TypedValue{} // .5, 5., +1.5, leading zeros
		}
		ls := strings.ToLower(strings.TrimLeft(s, "+-"))
		if ls == "nan" || ls == "inf" || ls == "infinity" || strings.HasPrefix(ls, "0x") || strings.Contains(s, "_") {
			return DontCare, TypedValue{}
		}
		return MustReject, TypedValue{}
	case "boolean":
		switch s {
		case "true":
			return MustAccept, TypedValue{Kind: "bool", B: true}
		case "false":
			return MustAccept, TypedValue{Kind: "bool", B: false}
		case "1", "0", "t", "f", "T", "F", "TRUE", "FALSE", "True", "False":
			return DontCare, TypedValue{}
		}
		return MustReject, TypedValue{}
	}
	return DontCare, TypedValue{}
}

func judgeTime(s string) (Verdict, TypedValue) {
	m := reRFC3339.FindStringSubmatch(s)
	if m == nil {
		if reRFCLoose.MatchString(s) {
			return DontCare, TypedValue{} // lower-case t/z, comma fraction, year > 9999
		}
		return MustReject, TypedValue{}
	}
	atoi := func(x string) int { n, _ := strconv.Atoi(x); return n }
	y, mo, d, h, mi, sec := atoi(m[1]), atoi(m[2]), atoi(m[3]), atoi(m[4]), atoi(m[5]), atoi(m[6])
	if mo < 1 || mo > 12 || d < 1 || h > 23 || mi > 59 {
		return MustReject, TypedValue{}
	}
	if sec == 60 {
		return DontCare, TypedValue{}
	}
	if sec > 60 {
		return MustReject, TypedValue{}
	}
	dim := []int{31, 28, 31, 30, 31, 30, 31, 31, 30, 31, 30, 31}[mo-1]
	if mo == 2 && (y%4 == 0 && y%100 != 0 || y%400 == 0) {
		dim = 29
	}
	if d > dim {
		return MustReject, TypedValue{}
	}
	off := 0
	if m[8] != "Z" {
		oh, om := atoi(m[8][1:3]), atoi(m[8][4:6])
		if oh > 23 || om > 59 {
			return DontCare, TypedValue{}
		}
		off = oh*3600 + om*60
		if m[8][0] == '-' {
			off = -off
		}
	}
	ns := 0
	if m[7] != "" {
		frac := (m[7][1:] + "000000000")[:9]
		ns = atoi(frac)
	}
	t := time.Date(y, time.Month(mo), d, h, mi, sec, ns, time.FixedZone("", off))
	if y == 0 {
		return DontCare, TypedValue{}
	}
	return MustAccept, TypedValue{Kind: "time", T: t}
}

// LexClass is a named class of lexemes for one primitive.
type LexClass struct {
	Name    string
	Lexemes []string
}

// LexClasses lists fixed lexeme classes per primitive (rapid adds random members).
func LexClasses(p specgen.Prim) []LexClass {
	garbage := []string{"abc", "tru", "1,5", "--1", "1e", "0x10", " 5", "5 ", "１２", "nil", "null", "{}", "1 2", "１"}
	switch p.Type {
	case "integer":
		min, max := intRange(p)
		bmin, bmax := big.NewInt(min), big.NewInt(max)
		below := new(big.Int).Sub(bmin, big.NewInt(1)).String()
		above := new(big.Int).Add(bmax, big.NewInt(1)).String()
		return []LexClass{
			{"canonical", []string{"0", "1", "-1", "42", "-7", "1000000", "123456789"}},
			{"boundary", []string{bmin.String(), bmax.String(), new(big.Int).Add(bmin, big.NewInt(1)).String(), new(big.Int).Sub(bmax, big.NewInt(1)).String(), "2147483647", "-2147483648", "2147483648", "-2147483649", "9007199254740993"}},
			{"out-of-range", []string{below, above, "99999999999999999999999", "-99999999999999999999999", "1e3", "1.0", "1.5"}},
			{"garbage", garbage},
			{"empty", []string{""}},
			{"dont-care", []string{"+5", "007", "-0", "1_000"}},
		}
	case "number":
		cl := []LexClass{
			{"canonical", []string{"0", "1", "-1", "1.5", "-2.25", "3.14159", "1e3", "1E-3", "2.5e+10", "100", "0.1", "123456.789"}},
			{"boundary", []string{"1.7976931348623157e308", "-1.7976931348623157e308", "4.9e-324", "3.4028234e38", "-3.4028234e38", "1e38", "1e-45", "0.30000000000000004", "1.00000005960464477539062500000000001", "16777217", "9007199254740993", "3.5e38", "1e39", "1e308"}},
			{"out-of-range", []string{"1e400", "-1e400", "1e309", "2e308"}},
			{"garbage", garbage},
			{"empty", []string{""}},
			{"dont-care", []string{"NaN", "Inf", "-Inf", ".5", "5.", "+1.5", "0x1p-2", "1e-400", "01.5"}},
		}
		return cl
	case "boolean":
		return []LexClass{
			{"canonical", []string{"true", "false"}},
			{"garbage", []string{"yes", "no", "2", "tru", "on", "truee", " true", "TRUe", "-1", "null"}},
			{"empty", []string{""}},
			{"dont-care", []string{"1", "0", "t", "f", "T", "F", "TRUE", "FALSE", "True", "False"}},
		}
	case "string":
		if p.Format == "date-time" {
			return []LexClass{
				{"canonical", []string{"2021-03-04T05:06:07Z", "1999-12-31T23:59:59+02:00", "2020-02-29T00:00:00.123456789-07:30", "2000-01-01T12:00:00.5Z", "0001-01-01T00:00:00Z", "9999-12-31T23:59:59Z"}},
				{"boundary", []string{"2021-02-28T23:59:59.999999999Z", "2024-02-29T12:00:00+14:00", "2021-12-31T00:00:00-12:00"}},
				{"out-of-range", []string{"2021-13-01T00:00:00Z", "2021-02-30T00:00:00Z", "2021-00-10T00:00:00Z", "2021-01-32T00:00:00Z", "2021-01-01T24:00:00Z", "2021-01-01T00:60:00Z", "2023-02-29T00:00:00Z", "2021-01-01T00:00:61Z"}},
				{"garbage", []string{"2021-03-04", "2021-03-04 05:06:07Z", "05:06:07Z", "yesterday", "2021-03-04T05:06:07", "2021-3-4T05:06:07Z", "1614834367", "2021-03-04T05:06Z"}},
				{"empty", []string{""}},
				{"dont-care", []string{"2021-03-04t05:06:07z", "2016-12-31T23:59:60Z", "10000-01-01T00:00:00Z", "2021-03-04T05:06:07,5Z"}},
			}
		}
		return []LexClass{
			{"canonical", []string{"abc", "hello world", "x"}},
			{"boundary", []string{"?#%&+=; ", "..", "a/b", "äöü€😀", "%2F", "a%20b", "a+b", " lead", "trail ", "\"quoted\"", "a,b", "null", "0", strings.Repeat("x", 300)}},
			{"empty", []string{""}},
		}
	}
	return nil
}

package refmodel

import (
	"bytes"
	"encoding/json"
	"fmt"
	"math/big"
	"sort"
	"strings"
	"time"

	"verif/specgen"
)

// DecodeJSON decodes a JSON text into a generic tree with json.Number numbers; it
// rejects trailing garbage.
func DecodeJSON(bs []byte) (any, error) {
	dec := json.NewDecoder(bytes.NewReader(bs))
	dec.UseNumber()
	var v any
	if err := dec.Decode(&v); err != nil {
		return nil, err
	}
	if dec.More() {
		return nil, fmt.Errorf("trailing data after the JSON value")
	}
	return v, nil
}

func jsonType(v any) string {
	switch v.(type) {
	case nil:
		return "null"
	case bool:
		return "boolean"
	case json.Number, float64, int, int64:
		return "number"
	case string:
		return "string"
	case []any:
		return "array"
	case map[string]any:
		return "object"
	}
	return fmt.Sprintf("%T", v)
}

func numRat(v any) (*big.Rat, bool) {
	switch n := v.(type) {
	case json.Number:
		r, ok := new(big.Rat).SetString(n.String())
		return r, ok
	case float64:
		r := new(big.Rat)
		if r.SetFloat64(n) == nil {
			return nil, false
		}
		return r, true
	case int:
		return new(big.Rat).SetInt64(int64(n)), true
	case int64:
		return new(big.Rat).SetInt64(n), true
	}
	return nil, false
}

// Mode of validation: Output forbids undeclared keys on objects without
// additionalProperties (the property's reading of "names are exactly the declared
// names"); Input tolerates them.
type Mode int

const (
	Output Mode = iota
	Input
)

type Validator struct {
	Doc  *specgen.Doc
	Mode Mode
}

// Validate returns the list of violations of v against schema s ("" path = root).
func (va Validator) Validate(s *specgen.Schema, v any) []string {
	var errs []string
	va.validate(s, v, "$", &errs, 0)
	return errs
}

// objectView flattens allOf into (properties, required, additionalProperties).
type objectView struct {
	props    map[string]*specgen.Schema
	required map[string]bool
	addProps *specgen.AddProps
	isObject bool
}

// ObjectView computes the merged object view of a schema (object or allOf).
func ObjectView(d *specgen.Doc, s *specgen.Schema) (props map[string]*specgen.Schema, required map[string]bool, addProps *specgen.AddProps, ok bool) {
	ov := objectView{props: map[string]*specgen.Schema{}, required: map[string]bool{}}
	collectObject(d, s, &ov, 0)
	return ov.props, ov.required, ov.addProps, ov.isObject
}

func collectObject(d *specgen.Doc, s *specgen.Schema, ov *objectView, depth int) {
	s = d.ResolveSchema(s)
	if s == nil || depth > 8 {
		return
	}
	if len(s.AllOf) > 0 {
		ov.isObject = true
		for _, m := range s.AllOf {
			collectObject(d, m, ov, depth+1)
		}
		return
	}
	if s.Type == "object" {
		ov.isObject = true
		for k, p := range s.Properties {
			ov.props[k] = p
		}
		for _, r := range s.Required {
			ov.required[r] = true
		}
		if s.AdditionalProperties != nil {
			ov.addProps = s.AdditionalProperties
		}
	}
}

func (va Validator) validate(s *specgen.Schema, v any, path string, errs *[]string, depth int) {
	add := func(format string, args ...any) {
		if len(*errs) < 20 {
			*errs = append(*errs, path+": "+fmt.Sprintf(format, args...))
		}
	}
	if depth > 40 {
		return
	}
	rs := va.Doc.ResolveSchema(s)
	if rs == nil {
		add("unresolved schema")
		return
	}
	if v == nil {
		untyped := rs.Type == "" && len(rs.AllOf) == 0 && len(rs.OneOf) == 0
		if !rs.Nullable && !untyped {
			add("null where the schema is not nullable")
		}
		return
	}
	switch {
	case len(rs.OneOf) > 0:
		va.validateOneOf(rs, v, path, errs, depth)
		return
	case len(rs.AllOf) > 0 || rs.Type == "object":
		obj, ok := v.(map[string]any)
		if !ok {
			add("%s where an object is declared", jsonType(v))
			return
		}
		props, required, ap, _ := ObjectView(va.Doc, rs)
		for name := range required {
			if _, ok := obj[name]; !ok {
				add("required property %q is missing", name)
			}
		}
		keys := make([]string, 0, len(obj))
		for k := range obj {
			keys = append(keys, k)
		}
		sort.Strings(keys)
		for _, k := range keys {
			if ps, ok := props[k]; ok {
				va.validate(ps, obj[k], path+"."+k, errs, depth+1)
				continue
			}
			switch {
			case ap == nil:
				if va.Mode == Output {
					add("undeclared property %q on an object without additionalProperties", k)
				}
			case ap.Schema != nil:
				va.validate(ap.Schema, obj[k], path+"."+k, errs, depth+1)
			case ap.Bool != nil && !*ap.Bool:
				add("undeclared property %q although additionalProperties is false", k)
			}
		}
		return
	case rs.Type == "array":
		arr, ok := v.([]any)
		if !ok {
			add("%s where an array is declared", jsonType(v))
			return
		}
		for i, it := range arr {
			va.validate(rs.Items, it, fmt.Sprintf("%s[%d]", path, i), errs, depth+1)
		}
		return
	case rs.Type == "":
		return // any
	}
	switch rs.Type {
	case "string":
		str, ok := v.(string)
		if !ok {
			add("%s where a string is declared", jsonType(v))
			return
		}
		if rs.Format == "date-time" {
			// (a schema that names a Go layout of its own declares that text form)
			if l := specgen.CanonLayout(rs.TimeFormat); l != "" && l != "time.RFC3339" {
				if verdict, _ := judgeLayout(l, str); verdict == MustReject {
					add("%q is not a date-time in the declared layout %s", str, rs.TimeFormat)
				}
			} else if verdict, _ := judgeTime(str); verdict == MustReject {
				add("%q is not an RFC 3339 date-time", str)
			}
		}
	case "integer":
		r, ok := numRat(v)
		if !ok || jsonType(v) != "number" {
			add("%s where an integer is declared", jsonType(v))
			return
		}
		if !r.IsInt() {
			add("%v is not an integer", v)
			return
		}
		min, max := intRange(specgen.Prim{Type: "integer", Format: rs.Format})
		if r.Cmp(new(big.Rat).SetInt64(min)) < 0 || r.Cmp(new(big.Rat).SetInt64(max)) > 0 {
			add("%v is outside the range of the declared format", v)
		}
	case "number":
		if jsonType(v) != "number" {
			add("%s where a number is declared", jsonType(v))
		}
	case "boolean":
		if _, ok := v.(bool); !ok {
			add("%s where a boolean is declared", jsonType(v))
		}
	}
}

// DiscriminatorVariants returns, for a oneOf schema with a discriminator, the
// accepted discriminator values of each variant index.
func DiscriminatorVariants(d *specgen.Doc, s *specgen.Schema) map[string]int {
	out := map[string]int{}
	if s.Discriminator == nil {
		return out
	}
	names := make([]string, len(s.OneOf))
	for i, m := range s.OneOf {
		if m.Ref != "" {
			names[i] = strings.TrimPrefix(m.Ref, specgen.RefSchemas)
			out[names[i]] = i
		}
	}
	for k, target := range s.Discriminator.Mapping {
		tn := strings.TrimPrefix(target, specgen.RefSchemas)
		for i, n := range names {
			if n == tn {
				out[k] = i
			}
		}
	}
	return out
}

func (va Validator) validateOneOf(rs *specgen.Schema, v any, path string, errs *[]string, depth int) {
	if rs.Discriminator != nil {
		obj, ok := v.(map[string]any)
		if !ok {
			*errs = append(*errs, path+": "+jsonType(v)+" where a discriminated object is declared")
			return
		}
		key, _ := obj[rs.Discriminator.PropertyName].(string)
		idx, ok := DiscriminatorVariants(va.Doc, rs)[key]
		if !ok {
			*errs = append(*errs, fmt.Sprintf("%s: discriminator %q=%q selects no variant", path, rs.Discriminator.PropertyName, key))
			return
		}
		va.validate(rs.OneOf[idx], v, path, errs, depth+1)
		return
	}
	var all []string
	for i, m := range rs.OneOf {
		var sub []string
		va.validate(m, v, path, &sub, depth+1)
		if len(sub) == 0 {
			return // at least one variant accepts (overlapping variants are legal)
		}
		all = append(all, fmt.Sprintf("variant %d: %s", i, strings.Join(sub, "; ")))
	}
	*errs = append(*errs, path+": no oneOf variant accepts the value ("+strings.Join(all, " | ")+")")
}

// Equiv is schema-aware JSON equivalence: numbers numerically, object key order
// irrelevant, strings at date-time positions as (instant, zone offset).
func Equiv(d *specgen.Doc, s *specgen.Schema, a, b any) (bool, string) {
	return equiv(d, s, a, b, "$", 0)
}

func equiv(d *specgen.Doc, s *specgen.Schema, a, b any, path string, depth int) (bool, string) {
	var rs *specgen.Schema
	if s != nil {
		rs = d.ResolveSchema(s)
	}
	if jsonType(a) != jsonType(b) {
		return false, fmt.Sprintf("%s: %s vs %s", path, jsonType(a), jsonType(b))
	}
	switch av := a.(type) {
	case nil:
		return true, ""
	case bool:
		if av != b.(bool) {
			return false, path + ": booleans differ"
		}
		return true, ""
	case string:
		bv := b.(string)
		if av == bv {
			return true, ""
		}
		if rs != nil && (rs.Type == "string" && rs.Format == "date-time" || len(rs.OneOf) > 0) {
			va, ta := judgeTime(av)
			vb, tb := judgeTime(bv)
			if va == MustAccept && vb == MustAccept && ta.T.Equal(tb.T) {
				_, oa := ta.T.Zone()
				_, ob := tb.T.Zone()
				if oa == ob {
					return true, ""
				}
			}
		}
		return false, fmt.Sprintf("%s: %q vs %q", path, clipStr(av), clipStr(bv))
	case map[string]any:
		bv := b.(map[string]any)
		if len(av) != len(bv) {
			return false, fmt.Sprintf("%s: objects have %d vs %d keys (%v vs %v)", path, len(av), len(bv), mapKeys(av), mapKeys(bv))
		}
		var props map[string]*specgen.Schema
		var ap *specgen.AddProps
		if rs != nil {
			props, _, ap, _ = ObjectView(d, rs)
			if len(rs.OneOf) > 0 {
				// pick the variant through the discriminator when there is one
				if rs.Discriminator != nil {
					if key, ok := av[rs.Discriminator.PropertyName].(string); ok {
						if idx, ok := DiscriminatorVariants(d, rs)[key]; ok {
							props, _, ap, _ = ObjectView(d, rs.OneOf[idx])
						}
					}
				} else {
					props, ap = nil, nil
				}
			}
		}
		for k, x := range av {
			y, ok := bv[k]
			if !ok {
				return false, fmt.Sprintf("%s: key %q only on one side", path, k)
			}
			var sub *specgen.Schema
			if p, ok := props[k]; ok {
				sub = p
			} else if ap != nil && ap.Schema != nil {
				sub = ap.Schema
			}
			if ok, why := equiv(d, sub, x, y, path+"."+k, depth+1); !ok {
				return false, why
			}
		}
		return true, ""
	case []any:
		bv := b.([]any)
		if len(av) != len(bv) {
			return false, fmt.Sprintf("%s: arrays have %d vs %d elements", path, len(av), len(bv))
		}
		var items *specgen.Schema
		if rs != nil && rs.Type == "array" {
			items = rs.Items
		}
		for i := range av {
			if ok, why := equiv(d, items, av[i], bv[i], fmt.Sprintf("%s[%d]", path, i), depth+1); !ok {
				return false, why
			}
		}
		return true, ""
	default:
		ra, ok1 := numRat(a)
		rb, ok2 := numRat(b)
		if ok1 && ok2 {
			if ra.Cmp(rb) == 0 {
				return true, ""
			}
			// float32 carriers: equality after rounding both to float32
			if rs != nil && rs.Type == "number" && rs.Format == "float" {
				fa, _ := ra.Float32()
				fb, _ := rb.Float32()
				if fa == fb {
					return true, ""
				}
			}
			return false, fmt.Sprintf("%s: numbers %v vs %v", path, a, b)
		}
		return false, fmt.Sprintf("%s: %v vs %v", path, a, b)
	}
}

func mapKeys(m map[string]any) []string {
	ks := make([]string, 0, len(m))
	for k := range m {
		ks = append(ks, k)
	}
	sort.Strings(ks)
	return ks
}

func clipStr(s string) string {
	if len(s) > 60 {
		return s[:60] + "…"
	}
	return s
}

var _ = time.Now

package refmodel

import (
	"encoding/json"
	"fmt"
	"math"
	"sort"
	"strconv"
	"strings"
	"time"

	"pgregory.net/rapid"

	"verif/specgen"
)

// Schema-directed document generator (DESIGN.md §5.4): draws documents valid for a
// schema: optional subsets, null where nullable, extra keys where allowed, allOf
// = union of the members' draws, oneOf = one variant.

type DocGen struct {
	Doc *specgen.Doc
	T   *rapid.T
	// ExtraKeys: add undeclared keys where additionalProperties is declared (true/schema)
	ExtraKeys bool
	// TolerateUndeclared: also add keys on objects without the keyword
	TolerateUndeclared bool
	n                  int
}

// hostile strings for JSON string positions
var jsonStrings = []string{"", "plain", "with \"quotes\"", "back\\slash", "line\nbreak", "tab\tchar", "ctrl\x01\x1f", "  ", "<script>&amp;", "😀 astral 𝄞", "ünïcödé", "null", "true", "123", "{\"a\":1}", " padded ", strings.Repeat("long", 40)}

func (g *DocGen) label(s string) string { g.n++; return fmt.Sprintf("%s%d", s, g.n) }

func (g *DocGen) str() string {
	if rapid.IntRange(0, 2).Draw(g.T, g.label("strkind")) == 0 {
		return rapid.SampledFrom(jsonStrings).Draw(g.T, g.label("hostile"))
	}
	return rapid.StringN(0, 10, 40).Draw(g.T, g.label("str"))
}

func (g *DocGen) timeStr() string {
	sec := rapid.Int64Range(-62135596800+86400, 253402300799-86400).Draw(g.T, g.label("sec"))
	ns := rapid.SampledFrom([]int64{0, 0, 500000000, 120000000, 123456789, 1}).Draw(g.T, g.label("ns"))
	off := rapid.SampledFrom([]int{0, 0, 3600, -7 * 3600, 5*3600 + 1800, -12 * 3600, 14 * 3600}).Draw(g.T, g.label("off"))
	return time.Unix(sec, ns).In(time.FixedZone("", off)).Format(time.RFC3339Nano)
}

func (g *DocGen) intNum(format string) json.Number {
	min, max := intRange(specgen.Prim{Type: "integer", Format: format})
	switch rapid.IntRange(0, 5).Draw(g.T, g.label("intkind")) {
	case 0:
		return json.Number(strconv.FormatInt(min, 10))
	case 1:
		return json.Number(strconv.FormatInt(max, 10))
	case 2:
		b := rapid.SampledFrom([]int64{0, 1, -1, 9007199254740993, -9007199254740993, 2147483647, -2147483648}).Draw(g.T, g.label("intb"))
		if b < min || b > max {
			b = 0
		}
		return json.Number(strconv.FormatInt(b, 10))
	}
	v := rapid.Int64Range(min, max).Draw(g.T, g.label("int"))
	return json.Number(strconv.FormatInt(v, 10))
}

func (g *DocGen) floatNum(format string) json.Number {
	if format == "float" {
		f := rapid.Float32Range(-1e30, 1e30).Draw(g.T, g.label("f32"))
		if rapid.IntRange(0, 4).Draw(g.T, g.label("f32b")) == 0 {
			f = rapid.SampledFrom([]float32{0, 1.5, -2.25, math.MaxFloat32, -math.MaxFloat32, math.SmallestNonzeroFloat32, 16777216, 0.1}).Draw(g.T, g.label("f32v"))
		}
		return json.Number(strconv.FormatFloat(float64(f), 'g', -1, 32))
	}
	f := rapid.Float64Range(-1e300, 1e300).Draw(g.T, g.label("f64"))
	if rapid.IntRange(0, 4).Draw(g.T, g.label("f64b")) == 0 {
		f = rapid.SampledFrom([]float64{0, 1.5, -2.25, math.MaxFloat64, -math.MaxFloat64, math.SmallestNonzeroFloat64, 9007199254740993, 0.1, 0.30000000000000004, 1e21, 1e-7}).Draw(g.T, g.label("f64v"))
	}
	return json.Number(strconv.FormatFloat(f, 'g', -1, 64))
}

// anyJSON draws an arbitrary JSON value (for `{}` schemas and additionalProperties: true).
func (g *DocGen) anyJSON(depth int) any {
	k := rapid.IntRange(0, 6).Draw(g.T, g.label("anykind"))
	if depth <= 0 && k >= 5 {
		k = 0
	}
	switch k {
	case 0:
		return g.str()
	case 1:
		return g.floatNum("")
	case 2:
		return rapid.Bool().Draw(g.T, g.label("anybool"))
	case 3:
		return nil
	case 4:
		// numbers at untyped positions travel through float64: stay within +-2^53
		return json.Number(strconv.FormatInt(rapid.Int64Range(-9007199254740992, 9007199254740992).Draw(g.T, g.label("anyint")), 10))
	case 5:
		n := rapid.IntRange(0, 3).Draw(g.T, g.label("anyarr"))
		arr := make([]any, 0, n)
		for i := 0; i < n; i++ {
			arr = append(arr, g.anyJSON(depth-1))
		}
		return arr
	}
	n := rapid.IntRange(0, 3).Draw(g.T, g.label("anyobj"))
	obj := map[string]any{}
	for i := 0; i < n; i++ {
		obj[fmt.Sprintf("k%d", i)] = g.anyJSON(depth - 1)
	}
	return obj
}

// extraKey draws an undeclared key disjoint from declared names.
func (g *DocGen) extraKey(declared map[string]*specgen.Schema) string {
	for i := 0; ; i++ {
		k := rapid.SampledFrom([]string{"extra", "x-key", "zz_top", "Extra Key", "k\"q", "k\\b", "ключ", "0", "esc\x1b[0m", "del\x7f", "bel\a", "tag\U000E0001"}).Draw(g.T, g.label("extrakey"))
		if i > 0 {
			k += strconv.Itoa(i)
		}
		if _, ok := declared[k]; !ok {
			return k
		}
	}
}

// Gen draws a document valid for s.
func (g *DocGen) Gen(s *specgen.Schema, depth int) any {
	rs := g.Doc.ResolveSchema(s)
	if rs == nil {
		return nil
	}
	if rs.Nullable && rapid.IntRange(0, 3).Draw(g.T, g.label("null")) == 0 {
		return nil
	}
	switch {
	case len(rs.OneOf) > 0:
		idx := rapid.IntRange(0, len(rs.OneOf)-1).Draw(g.T, g.label("variant"))
		v := g.Gen(rs.OneOf[idx], depth-1)
		if rs.Discriminator != nil {
			if obj, ok := v.(map[string]any); ok {
				var keys []string
				for k, i := range DiscriminatorVariants(g.Doc, rs) {
					if i == idx {
						keys = append(keys, k)
					}
				}
				sort.Strings(keys)
				if len(keys) > 0 {
					obj[rs.Discriminator.PropertyName] = rapid.SampledFrom(keys).Draw(g.T, g.label("disc"))
				}
			}
		}
		return v
	case len(rs.AllOf) > 0 || rs.Type == "object":
		props, required, ap, _ := ObjectView(g.Doc, rs)
		obj := map[string]any{}
		names := make([]string, 0, len(props))
		for k := range props {
			names = append(names, k)
		}
		sort.Strings(names)
		for _, k := range names {
			if required[k] || rapid.Bool().Draw(g.T, g.label("opt")) {
				obj[k] = g.Gen(props[k], depth-1)
			}
		}
		if g.ExtraKeys {
			switch {
			case ap != nil && ap.Schema != nil:
				for i, n := 0, rapid.IntRange(0, 2).Draw(g.T, g.label("nextra")); i < n; i++ {
					obj[g.extraKey(props)] = g.Gen(ap.Schema, depth-1)
				}
			case ap != nil && (ap.Bool == nil || *ap.Bool):
				for i, n := 0, rapid.IntRange(0, 2).Draw(g.T, g.label("nextra")); i < n; i++ {
					obj[g.extraKey(props)] = g.anyJSON(1)
				}
			case ap == nil && g.TolerateUndeclared && rapid.IntRange(0, 3).Draw(g.T, g.label("undeclared")) == 0:
				obj[g.extraKey(props)] = g.anyJSON(1)
			}
		}
		return obj
	case rs.Type == "array":
		n := rapid.IntRange(0, 3).Draw(g.T, g.label("nitems"))
		arr := make([]any, 0, n)
		for i := 0; i < n; i++ {
			arr = append(arr, g.Gen(rs.Items, depth-1))
		}
		return arr
	case rs.Type == "":
		return g.anyJSON(2)
	}
	switch rs.Type {
	case "string":
		if rs.Format == "date-time" {
			return g.timeStr()
		}
		return g.str()
	case "integer":
		return g.intNum(rs.Format)
	case "number":
		return g.floatNum(rs.Format)
	case "boolean":
		return rapid.Bool().Draw(g.T, g.label("bool"))
	}
	return nil
}

// ---------------------------------------------------------------------------
// single-fault mutants (C08)

type FaultSite struct {
	Path     []string // object keys / array indexes from the root
	Kind     string   // drop-required | wrong-type
	Property string   // JSON name of the property at fault
}

// FaultSites enumerates the places of document v (valid for s) where a single fault
// can be planted: a required key to drop, or a declared property whose schema
// admits exactly one JSON type and whose value is non-null.
func FaultSites(d *specgen.Doc, s *specgen.Schema, v any) []FaultSite {
	var out []FaultSite
	faultSites(d, s, v, nil, &out, 0)
	return out
}

func singleJSONType(d *specgen.Doc, s *specgen.Schema) (string, bool) {
	rs := d.ResolveSchema(s)
	if rs == nil || len(rs.OneOf) > 0 {
		return "", false
	}
	switch {
	case len(rs.AllOf) > 0 || rs.Type == "object":
		return "object", true
	case rs.Type == "array":
		return "array", true
	case rs.Type == "string":
		return "string", true
	case rs.Type == "integer", rs.Type == "number":
		return "number", true
	case rs.Type == "boolean":
		return "boolean", true
	}
	return "", false
}

func faultSites(d *specgen.Doc, s *specgen.Schema, v any, path []string, out *[]FaultSite, depth int) {
	rs := d.ResolveSchema(s)
	if rs == nil || v == nil || depth > 12 {
		return
	}
	switch {
	case len(rs.OneOf) > 0:
		if rs.Discriminator == nil {
			return // undiscriminated oneOf: a fault may turn the value into another variant
		}
		obj, ok := v.(map[string]any)
		if !ok {
			return
		}
		key, _ := obj[rs.Discriminator.PropertyName].(string)
		if idx, ok := DiscriminatorVariants(d, rs)[key]; ok {
			var sub []FaultSite
			faultSites(d, rs.OneOf[idx], v, path, &sub, depth+1)
			for _, f := range sub {
				// the discriminator property itself selects the variant: leave it alone
				if len(f.Path) == len(path)+1 && f.Property == rs.Discriminator.PropertyName {
					continue
				}
				*out = append(*out, f)
			}
		}
	case len(rs.AllOf) > 0 || rs.Type == "object":
		obj, ok := v.(map[string]any)
		if !ok {
			return
		}
		props, required, _, _ := ObjectView(d, rs)
		names := make([]string, 0, len(props))
		for k := range props {
			names = append(names, k)
		}
		sort.Strings(names)
		for _, k := range names {
			val, present := obj[k]
			if !present {
				continue
			}
			p := append(append([]string{}, path...), k)
			if required[k] {
				*out = append(*out, FaultSite{Path: p, Kind: "drop-required", Property: k})
			}
			if _, single := singleJSONType(d, props[k]); single && val != nil {
				*out = append(*out, FaultSite{Path: p, Kind: "wrong-type", Property: k})
			}
			faultSites(d, props[k], val, p, out, depth+1)
		}
	case rs.Type == "array":
		arr, ok := v.([]any)
		if !ok {
			return
		}
		for i, it := range arr {
			faultSites(d, rs.Items, it, append(append([]string{}, path...), strconv.Itoa(i)), out, depth+1)
		}
	}
}

// wrongTypeValue returns a value of a JSON type different from the declared one.
func wrongTypeValue(t *rapid.T, declared string, integer bool) any {
	alts := map[string]any{"string": "oops", "number": json.Number("17"), "boolean": true, "array": []any{json.Number("1")}, "object": map[string]any{"zz": "y"}}
	var names []string
	for k := range alts {
		if k != declared {
			names = append(names, k)
		}
	}
	if integer {
		names = append(names, "fraction")
	}
	sort.Strings(names)
	k := rapid.SampledFrom(names).Draw(t, "wrongtype")
	if k == "fraction" {
		return json.Number("1.5")
	}
	return alts[k]
}

// ApplyFault returns a deep copy of v with the fault planted.
func ApplyFault(t *rapid.T, d *specgen.Doc, s *specgen.Schema, v any, f FaultSite) any {
	cp := deepCopyJSON(v)
	var cur any = cp
	for i, seg := range f.Path {
		last := i == len(f.Path)-1
		switch node := cur.(type) {
		case map[string]any:
			if last {
				if f.Kind == "drop-required" {
					delete(node, seg)
				} else {
					ps := propertySchema(d, s, v, f.Path)
					declared, _ := singleJSONType(d, ps)
					rs := d.ResolveSchema(ps)
					node[seg] = wrongTypeValue(t, declared, rs != nil && rs.Type == "integer")
				}
				return cp
			}
			cur = node[seg]
		case []any:
			idx, _ := strconv.Atoi(seg)
			cur = node[idx]
		}
	}
	return cp
}

// propertySchema finds the schema of the node at path.
func propertySchema(d *specgen.Doc, s *specgen.Schema, v any, path []string) *specgen.Schema {
	cur := s
	val := v
	for _, seg := range path {
		rs := d.ResolveSchema(cur)
		if rs == nil {
			return nil
		}
		if len(rs.OneOf) > 0 && rs.Discriminator != nil {
			if obj, ok := val.(map[string]any); ok {
				key, _ := obj[rs.Discriminator.PropertyName].(string)
				if idx, ok := DiscriminatorVariants(d, rs)[key]; ok {
					rs = d.ResolveSchema(rs.OneOf[idx])
				}
			}
		}
		switch {
		case len(rs.AllOf) > 0 || rs.Type == "object":
			props, _, _, _ := ObjectView(d, rs)
			cur = props[seg]
			if obj, ok := val.(map[string]any); ok {
				val = obj[seg]
			}
		case rs.Type == "array":
			cur = rs.Items
			if arr, ok := val.([]any); ok {
				idx, _ := strconv.Atoi(seg)
				if idx < len(arr) {
					val = arr[idx]
				}
			}
		default:
			return nil
		}
	}
	return cur
}

func deepCopyJSON(v any) any {
	switch n := v.(type) {
	case map[string]any:
		out := make(map[string]any, len(n))
		for k, x := range n {
			out[k] = deepCopyJSON(x)
		}
		return out
	case []any:
		out := make([]any, len(n))
		for i, x := range n {
			out[i] = deepCopyJSON(x)
		}
		return out
	}
	return v
}

// Render writes a JSON tree with rapid-chosen key order and insignificant
// whitespace (C08: permutations and whitespace are part of the input space).
func Render(t *rapid.T, v any, permute bool) []byte {
	var sb strings.Builder
	n := 0
	var ws func() string
	ws = func() string {
		if !permute {
			return ""
		}
		n++
		return rapid.SampledFrom([]string{"", "", " ", "\n", "\t", "  "}).Draw(t, fmt.Sprintf("ws%d", n))
	}
	var rec func(v any)
	rec = func(v any) {
		switch x := v.(type) {
		case map[string]any:
			keys := make([]string, 0, len(x))
			for k := range x {
				keys = append(keys, k)
			}
			sort.Strings(keys)
			if permute && len(keys) > 1 {
				n++
				keys = rapid.Permutation(keys).Draw(t, fmt.Sprintf("perm%d", n))
			}
			sb.WriteString("{" + ws())
			for i, k := range keys {
				if i > 0 {
					sb.WriteString("," + ws())
				}
				kb, _ := json.Marshal(k)
				sb.Write(kb)
				sb.WriteString(ws() + ":" + ws())
				rec(x[k])
			}
			sb.WriteString(ws() + "}")
		case []any:
			sb.WriteString("[" + ws())
			for i, it := range x {
				if i > 0 {
					sb.WriteString("," + ws())
				}
				rec(it)
			}
			sb.WriteString(ws() + "]")
		case json.Number:
			sb.WriteString(x.String())
		default:
			bs, _ := json.Marshal(x)
			sb.Write(bs)
		}
	}
	rec(v)
	return []byte(sb.String())
}

// HostileTokens are JSON values of every type in their shortest and oddest spellings.
var HostileTokens = []string{"7", "0", "-1", "-0", "1e3", "1.5", "1E400", "12345678901234567890", "true", "false", "null", `""`, `"x"`, `" "`, `"7"`, `"2020-01-01"`, `"\u0000"`,
	"[]", "{}", "[null]", "[[]]", `{"":null}`, `[7]`, `["x"]`}

// jsonSlots lists setters for every object member and array element below v (document order).
func jsonSlots(v any) []func(any) {
	var slots []func(any)
	var walk func(node any)
	walk = func(node any) {
		switch x := node.(type) {
		case map[string]any:
			keys := make([]string, 0, len(x))
			for k := range x {
				keys = append(keys, k)
			}
			sort.Strings(keys)
			for _, k := range keys {
				k := k
				slots = append(slots, func(nv any) { x[k] = nv })
				walk(x[k])
			}
		case []any:
			for i := range x {
				i := i
				slots = append(slots, func(nv any) { x[i] = nv })
				walk(x[i])
			}
		}
	}
	walk(v)
	return slots
}

// CountSlots is the number of nodes below the root of a JSON tree.
func CountSlots(v any) int { return len(jsonSlots(deepCopyJSON(v))) }

// SwapAt returns a deep copy of v with node number at replaced by the raw token.
func SwapAt(v any, at int, token string) any {
	cp := deepCopyJSON(v)
	if slots := jsonSlots(cp); at < len(slots) {
		slots[at](json.Number(token))
	}
	return cp
}

// SwapNodes returns a deep copy of a JSON tree in which one to three nodes (object
// members, array elements, possibly the root) are replaced by hostile tokens: the
// document stays well-formed JSON, single values are of an unexpected type or spelling.
func SwapNodes(t *rapid.T, v any) any {
	cp := deepCopyJSON(v)
	slots := jsonSlots(cp)
	if len(slots) == 0 {
		return json.Number(rapid.SampledFrom(HostileTokens).Draw(t, "swap_root"))
	}
	for i, n := 0, rapid.IntRange(1, 3).Draw(t, "nswaps"); i < n; i++ {
		slots[rapid.IntRange(0, len(slots)-1).Draw(t, "swap_at")](json.Number(rapid.SampledFrom(HostileTokens).Draw(t, "swap_token")))
	}
	return cp
}

// StretchNumber returns a deep copy of v in which one integral number is replaced by a
// value just outside the int32 / int64 ranges (ok=false: v holds no integral number).
func StretchNumber(t *rapid.T, v any) (any, bool) {
	cp := deepCopyJSON(v)
	var sets []func(any)
	var walk func(node any, set func(any))
	walk = func(node any, set func(any)) {
		switch x := node.(type) {
		case map[string]any:
			keys := make([]string, 0, len(x))
			for k := range x {
				keys = append(keys, k)
			}
			sort.Strings(keys)
			for _, k := range keys {
				k := k
				walk(x[k], func(nv any) { x[k] = nv })
			}
		case []any:
			for i := range x {
				i := i
				walk(x[i], func(nv any) { x[i] = nv })
			}
		case json.Number:
			if set != nil && !strings.ContainsAny(x.String(), ".eE") {
				sets = append(sets, set)
			}
		}
	}
	walk(cp, nil)
	if len(sets) == 0 {
		return cp, false
	}
	tok := rapid.SampledFrom([]string{"2147483648", "-2147483649", "4294967297", "2147483647", "-2147483648", "9223372036854775808", "-9223372036854775809", "18446744073709551616", "32768", "128", "-129"}).Draw(t, "stretched")
	sets[rapid.IntRange(0, len(sets)-1).Draw(t, "stretch_at")](json.Number(tok))
	return cp, true
}

#!/bin/bash
# quick look: apply seeded/<name>/patch.diff in a scratch worktree and run checks against it
# usage: tools/try_mutant.sh C04-B3 [check ...]      (never touches /repo)
name="$1"; shift
pid="${name%%-*}"; checks="${@:-$pid}"
wt=/tmp/wt/R${pid#C}
head=$(git -C /repo rev-parse HEAD)
[ -d "$wt" ] || git -C /repo worktree add -q --detach "$wt" "$head"
git -C "$wt" checkout -q --detach "$head" && git -C "$wt" checkout -- . && git -C "$wt" clean -fdq
git -C "$wt" apply /verif/seeded/$name/patch.diff || { echo "patch does not apply"; exit 3; }
for c in $checks; do
  VERIF_SEED=${VERIF_SEED:-1} VERIF_REPO="$wt" /verif/run.sh "$c" quick 2>&1 | grep -a "kind=\|quick seed\|INCONCL" | sed 's/ clause.*//' | sort | uniq -c | sort -rn | head -${TOP:-6} | cut -c1-220
done
git -C "$wt" checkout -- . && git -C "$wt" clean -fdq

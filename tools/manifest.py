#!/usr/bin/env python3
"""Regenerates /verif/MANIFEST.json from the table below."""
import json
CHECKS = {
 "C01": dict(technique="property-based testing: enumerated feature matrix + rapid-drawn spec compositions, oracle = go/parser + gofmt fixed point + go/types (std-only importer) on goag's output",
             level="Exploration by generated search. ~12,500 single-feature specs (schema kind x position x nullable x ref/inline/alias x required, name shapes, text shapes, operation rows, negative rows) under client off/on, plus rapid-drawn whole documents with rapid-drawn configs (500 quick / 20,000 thorough, shrunk by rapid). Every success of goag is checked to parse, be gofmt-stable and type-check against the standard library; a failure is matched against KNOWN_FINDINGS.txt by exact row id.",
             note="Trusts go/types with the source importer as the definition of 'compiles'. Features behind a known finding are excluded from the random compositions by construction (counted in evidence). Custom types and --api-handler=false are outside the dialect (DESIGN.md §3.7/3.8).", ref="§4 C01"),
}
ALL = ["C%02d" % i for i in range(1, 21)]
NA_REASON = "check not built yet in this session (planned: see DESIGN.md §4); not claimed until its check runs clean on the unchanged tree"
m = {
 "version": 1,
 "setup_cmd": "./setup.sh",
 "hooks": {"guard": "verif (Go build tag)", "enable": "go build -tags verif (run.sh builds the orchestrator, which links goag from /repo, with -tags verif)",
           "baseline_off_cmd": "cd /repo && GOFLAGS=-mod=mod GOPROXY=off GOSUMDB=off GOTOOLCHAIN=local go test -vet=off -count=1 ./...",
           "source_commits": ["2427a71"], "add_only": True},
 "engines": [{"name": "goagverif", "path": "/verif/cmd/goagverif", "serves_properties": sorted(CHECKS), "kind_free_text": "Go orchestrator: rapid (pgregory.net/rapid v1.3.0) generators for OpenAPI documents and inputs, goag linked in-process from /repo, go/types oracle, batch-compiled reflection driver for behavioural checks"}],
 "checks": [], "not_applicable": [],
 "notes": "Every check: ./run.sh <ID> <quick|thorough>; exit 0 held / 1 VIOLATION / 2 inconclusive. Known findings: KNOWN_FINDINGS.txt (+ findings/). Replay: ./run.sh <ID> replay <dir>.",
}
for cid in ALL:
    if cid in CHECKS:
        c = CHECKS[cid]
        m["checks"].append({"property_id": cid, "quick_cmd": "./run.sh %s quick" % cid, "thorough_cmd": "./run.sh %s thorough" % cid,
            "evidence_file": "/verif/evidence/%s.json" % cid, "replay_cmd_template": "./run.sh %s replay {path}" % cid, "engine": "goagverif",
            "level_claimed": {"category": "exploration", "text": c["level"], "design_ref": c["ref"]}, "level_note": c["note"], "technique": c["technique"]})
    else:
        m["not_applicable"].append({"property_id": cid, "reason": NA_REASON})
json.dump(m, open("/verif/MANIFEST.json", "w"), indent=1)
print("checks:", len(m["checks"]), "not_applicable:", len(m["not_applicable"]))

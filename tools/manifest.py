#!/usr/bin/env python3
"""Regenerates /verif/MANIFEST.json from the table below."""
import json
CHECKS = {
 "C01": dict(technique="property-based testing: enumerated feature matrix + rapid-drawn spec compositions, oracle = go/parser + gofmt fixed point + go/types (std-only importer) on goag's output",
             level="Exploration by generated search. ~12,500 single-feature specs (schema kind x position x nullable x ref/inline/alias x required, name shapes, text shapes, operation rows, negative rows) under client off/on, plus rapid-drawn whole documents with rapid-drawn configs (500 quick / 20,000 thorough, shrunk by rapid). Every success of goag is checked to parse, be gofmt-stable and type-check against the standard library; a failure is matched against KNOWN_FINDINGS.txt by exact row id.",
             note="Trusts go/types with the source importer as the definition of 'compiles'. Features behind a known finding are excluded from the random compositions by construction (counted in evidence). Custom types and --api-handler=false are outside the dialect (DESIGN.md §3.7/3.8).", ref="§4 C01"),
 "C12": dict(technique="property-based testing: repetition invariant (k in-process + CLI runs must hash identically) over rapid-drawn map-fat specs and matrix rows",
             level="Exploration: each generated spec is rendered 6 (12) times in one process and 3 (6) times by the CLI in separate processes; Go re-randomises every map range, so repetition samples iteration orders. Any difference in file set or sha256 is a violation.",
             note="Probabilistic: a 2-way unordered choice is missed with probability 2^-(k-1). Error texts are not compared.", ref="§4 C12"),
 "C13": dict(technique="property-based testing: exhaustive short strings + rapid text + real specs, oracle = go/types constant value of SpecFile equals input (round trip); served half through the compiled driver",
             level="Exploration with an exhaustive core: all 2800 strings of length <=4 over the hostile alphabet, rapid-drawn text and real specs in several renderings; the constant compiled into spec_file.go is evaluated with go/types and compared byte for byte; the served body is compared through the generated router.",
             note="Contents are valid UTF-8 without NUL. The HTTP method on the spec route is not constrained.", ref="§4 C13"),
 "C15": dict(technique="property-based testing / structural mutation fuzzing of OpenAPI documents, goag run in a child process per document, oracle = no panic / fatal exit / hang, error mentions a named element of the document",
             level="Exploration: 1-3 rapid-chosen structural mutations of seed documents; loader-accepted mutants are generated in a child process so that stack overflows and hangs are observed; a 5% sample also goes through the real CLI and exit statuses must agree.",
             note="'says where' is implemented as 'mentions some named element of the document' (weak, sound). Timeouts are inconclusive unless reproduced 3x at 60 s.", ref="§4 C15"),
 "C19": dict(technique="model-based / stateful property-based testing: exhaustive histories of length <=3 plus rapid state machine, model = fresh run into an empty directory",
             level="Exhaustive for the stated finite part (all 584 histories over the 8 invocations, a sample through the CLI) plus rapid state-machine histories up to length 8 with user files and stale goag-owned files; after every step the directory is compared with a fresh run of the same invocation and re-running must change nothing.",
             note="goag-owned files are the five fixed names; the specs used are small fixed documents (with/without components, three sizes).", ref="§4 C19"),
}
ALL = ["C%02d" % i for i in range(1, 21)]
NA_REASON = "check not built yet in this session (planned: see DESIGN.md §4); not claimed until its check runs clean on the unchanged tree"
m = {
 "version": 1,
 "setup_cmd": "./setup.sh",
 "hooks": {"guard": "verif (Go build tag)", "enable": "go build -tags verif (run.sh builds the orchestrator, which links goag from /repo, with -tags verif)",
           "baseline_off_cmd": "cd /repo && GOFLAGS=-mod=mod GOPROXY=off GOSUMDB=off GOTOOLCHAIN=local go test -vet=off -count=1 ./...",
           "source_commits": ["2427a71"], "add_only": True},
 "engines": [{"name": "goagverif", "path": "/verif/cmd/goagverif", "serves_properties": sorted(CHECKS), "kind_free_text": "Go orchestrator: rapid (pgregory.net/rapid v1.3.0) generators for OpenAPI documents and inputs, goag linked in-process from /repo, go/types oracle, batch-compiled reflection driver for behavioural checks"}],
 "checks": [], "not_applicable": [],
 "notes": "Every check: ./run.sh <ID> <quick|thorough>; exit 0 held / 1 VIOLATION / 2 inconclusive. Known findings: KNOWN_FINDINGS.txt (+ findings/). Replay: ./run.sh <ID> replay <dir>.",
}
for cid in ALL:
    if cid in CHECKS:
        c = CHECKS[cid]
        m["checks"].append({"property_id": cid, "quick_cmd": "./run.sh %s quick" % cid, "thorough_cmd": "./run.sh %s thorough" % cid,
            "evidence_file": "/verif/evidence/%s.json" % cid, "replay_cmd_template": "./run.sh %s replay {path}" % cid, "engine": "goagverif",
            "level_claimed": {"category": "exploration", "text": c["level"], "design_ref": c["ref"]}, "level_note": c["note"], "technique": c["technique"]})
    else:
        m["not_applicable"].append({"property_id": cid, "reason": NA_REASON})
json.dump(m, open("/verif/MANIFEST.json", "w"), indent=1)
print("checks:", len(m["checks"]), "not_applicable:", len(m["not_applicable"]))

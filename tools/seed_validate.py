#!/usr/bin/env python3
"""Validate one seeded mutant and record it under /verif/seeded/<ID>-<variant>/.
usage: seed_validate.py C03 A [check ids...]   (default check = the property id)
Steps (all in the scratch worktree /tmp/wt/<ID>, never in /repo):
  1 reset the worktree to /repo's HEAD, apply the patch (rebased copy if present)
  2 go build ./... && go test -vet=off -count=1 ./...   -> must pass
  3 demo.sh <worktree>  with the change   -> must fail
  4 revert, demo.sh <worktree>            -> must pass
  5 VERIF_REPO=<worktree with change> ./run.sh <check> quick  -> record exit status / VIOLATION lines
"""
import json, os, shutil, subprocess, sys, glob, time
pid, var = sys.argv[1], sys.argv[2]
checks = sys.argv[3:] or [pid]
rnd = os.environ.get('ROUND', '1')
wt = '/tmp/wt/%s' % pid if rnd == '1' else '/tmp/wt/R%s' % pid[1:]
src = ('/tmp/wt/out/%s/%s' if rnd == '1' else '/tmp/wt/out' + rnd + '/%s/%s') % (pid, var)
dst = '/verif/seeded/%s-%s' % (pid, var) if rnd == '1' else '/verif/seeded/%s-%s%s' % (pid, var, rnd)
env = dict(os.environ, GOFLAGS='-mod=mod', GOPROXY='off', GOSUMDB='off', GOTOOLCHAIN='local')
def run(cmd, cwd=None, timeout=1800, extra=None):
    e = dict(env); e.update(extra or {})
    p = subprocess.run(cmd, shell=True, cwd=cwd, env=e, capture_output=True, text=True, timeout=timeout)
    return p.returncode, (p.stdout + p.stderr)
head = subprocess.check_output('git -C /repo rev-parse HEAD', shell=True, text=True).strip()
run('git checkout -q --detach %s && git checkout -- . && git clean -fdq' % head, cwd=wt)
patch = src + '/patch.diff'
reb = ('/tmp/wt/rebased/%s-%s.diff' if rnd == '1' else '/tmp/wt/rebased' + rnd + '/%s-%s.diff') % (pid, var)
rebased = os.path.exists(reb)
if rebased: patch = reb
meta = {'property': pid, 'variant': var, 'round': int(rnd), 'repo_head': head, 'patch_rebased_onto_fix_commits': rebased}
try: meta['agent_meta'] = json.load(open(src + '/meta.json'))
except Exception as ex: meta['agent_meta'] = str(ex)
rc, out = run('git apply %s' % patch, cwd=wt)
meta['patch_applies'] = rc == 0
if rc != 0:
    meta['error'] = out[-500:]
else:
    rc, out = run('go build ./... && go test -vet=off -count=1 ./... 2>&1 | tail -60', cwd=wt)
    meta['suite_passes_with_change'] = rc == 0 and 'FAIL' not in out
    rc1, out1 = run('bash %s/demo.sh %s' % (src, wt), cwd=src, timeout=1200)
    meta['demo_fails_with_change'] = rc1 != 0
    meta['demo_output_with_change_tail'] = out1[-400:]
    results = {}
    for c in checks:
        t0 = time.time()
        rc3, out3 = run('./run.sh %s quick' % c, cwd=os.environ.get('VROOT', '/verif'), timeout=3000, extra={'VERIF_REPO': wt})
        viol = [l for l in out3.split('\n') if l.startswith('VIOLATION')]
        kinds = sorted(set(l.strip().split(' clause=')[0].replace('kind=', '') for l in out3.split('\n') if l.strip().startswith('kind=')))
        results[c] = {'exit': rc3, 'violations': len(viol), 'kinds': kinds[:8], 'wall_s': round(time.time() - t0, 1), 'cmd': 'VERIF_REPO=%s ./run.sh %s quick' % (wt, c)}
    meta['checks'] = results
    meta['detected'] = any(r['exit'] == 1 and r['violations'] > 0 for r in results.values())
    run('git checkout -- . && git clean -fdq', cwd=wt)
    rc2, out2 = run('bash %s/demo.sh %s' % (src, wt), cwd=src, timeout=1200)
    meta['demo_passes_without_change'] = rc2 == 0
    if rc2 != 0: meta['demo_output_without_change_tail'] = out2[-400:]
os.makedirs(dst, exist_ok=True)
for f in glob.glob(src + '/*'):
    if os.path.isfile(f) and os.path.basename(f) not in ('meta.json',):
        shutil.copy(f, dst)
shutil.copy(patch, dst + '/patch.diff')
if rebased: shutil.copy(src + '/patch.diff', dst + '/patch.original-snapshot.diff')
json.dump(meta, open(dst + '/meta.json', 'w'), indent=1)
print(pid, var, 'applies', meta.get('patch_applies'), 'suite', meta.get('suite_passes_with_change'), 'demo_fails', meta.get('demo_fails_with_change'), 'demo_passes_clean', meta.get('demo_passes_without_change'), 'detected', meta.get('detected'), {c: (r['exit'], r['violations']) for c, r in meta.get('checks', {}).items()})

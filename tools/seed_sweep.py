#!/usr/bin/env python3
"""Re-run the registered quick checks against every kept seeded change of one property.
usage: seed_sweep.py C03 [worktree]   (worktree default /tmp/wt/R<nn>; created if missing)
For each /verif/seeded/<ID>-*: reset the scratch worktree to /repo's HEAD, apply
patch.diff, run the checks named in meta.json with VERIF_REPO=<worktree>, undo.
Prints one line per change; updates meta.json["last_sweep"]."""
import json, os, subprocess, sys, glob, time
pid = sys.argv[1]
wt = sys.argv[2] if len(sys.argv) > 2 else '/tmp/wt/R%s' % pid[1:]
env = dict(os.environ, GOFLAGS='-mod=mod', GOPROXY='off', GOSUMDB='off', GOTOOLCHAIN='local')
def run(cmd, cwd=None, extra=None, timeout=3000):
    e = dict(env); e.update(extra or {})
    p = subprocess.run(cmd, shell=True, cwd=cwd, env=e, capture_output=True, text=True, timeout=timeout)
    return p.returncode, p.stdout + p.stderr
head = subprocess.check_output('git -C /repo rev-parse HEAD', shell=True, text=True).strip()
if not os.path.isdir(wt):
    run('git -C /repo worktree add --detach %s %s' % (wt, head))
for d in sorted(glob.glob('/verif/seeded/%s-*' % pid)):
    meta = json.load(open(d + '/meta.json'))
    run('git checkout -q --detach %s && git checkout -- . && git clean -fdq' % head, cwd=wt)
    rc, out = run('git apply %s/patch.diff' % d, cwd=wt)
    if rc != 0:
        print(os.path.basename(d), 'PATCH DOES NOT APPLY', out[-200:]); continue
    res = {}
    for c in meta.get('checks', {pid: 0}):
        rc, out = run('./run.sh %s quick' % c, cwd='/verif', extra={'VERIF_REPO': wt})
        res[c] = (rc, sum(1 for l in out.split('\n') if l.startswith('VIOLATION')))
    run('git checkout -- . && git clean -fdq', cwd=wt)
    det = any(rc == 1 and n > 0 for rc, n in res.values())
    meta['last_sweep'] = {'repo_head': head, 'verif_head': subprocess.check_output('git -C /verif rev-parse --short HEAD', shell=True, text=True).strip(), 'results': res, 'detected': det}
    json.dump(meta, open(d + '/meta.json', 'w'), indent=1)
    print(os.path.basename(d), 'detected', det, res, flush=True)

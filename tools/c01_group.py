#!/usr/bin/env python3
"""Group the failing C01 matrix rows of a run log by root-cause family.
Usage: c01_group.py <run.log> [--write]   (--write regenerates findings/C01-*.rows)"""
import re,sys,collections,os
log=open(sys.argv[1]).read().split('\n')
rows={}
for i,l in enumerate(log):
    m=re.match(r'\s+kind=row:(\S+) clause=(\S+)',l)
    if m:
        det=log[i+1]
        rows[m.group(1)]=det.split('goag reported success but: ',1)[1] if 'goag reported success but: ' in det else det
FAM=[
 # (family id, predicate on (row id, message), description)
 ("C01-F01", lambda r,m: re.search(r'cannot convert \w+ \(variable of type Nullable\[',m) and 'oneOfValue' not in m, "nullable schema at a component / body top level (or $ref to one): New<Name>/accessor convert Nullable[T] to the named type"),
 ("C01-F02", lambda r,m: 'oneOfValue' in m or re.search(r'oneOf\d+\.\w+ undefined',m) or 'as []byte value in return statement' in m, "oneOf member that is nullable, a $ref to a primitive component, or date-time: marshal/unmarshal snippet does not fit the variant type"),
 ("C01-F03", lambda r,m: 'too many arguments in call to json.Marshal' in m, "oneOf with an array variant: SliceType_RenderMarshalJSON calls json.Marshal with two arguments"),
 ("C01-F04", lambda r,m: 'undefined: vItem' in m or 'as time.Time value in assignment' in m or re.search(r'vItem\.\w+ undefined',m) or 'undefined: v' == m.split(': ',1)[-1].strip() or m.endswith('undefined: v'), "array items / nullable any that are `{}`, nullable, date-time or $ref to a primitive: item (un)marshal snippet composition"),
 ("C01-F05", lambda r,m: re.search(r'cannot use vn \(variable of type Nullable\[',m), "array items (or property) $ref/inline composite marked nullable: Schema_Ref_RenderUnmarshalJSON assigns Nullable[T] to T"),
 ("C01-F06", lambda r,m: re.search(r'c\.\w+(\.\w+)* undefined',m) or 'marshalJSONInnerBody undefined' in m or 'unmarshalJSONInnerBody' in m, "property / allOf member that is a $ref to a non-object component: Ref snippets assume object methods"),
 ("C01-F07", lambda r,m: r.startswith('kind/') and ('handler.go' in m or 'client.go' in m) and re.search(r'/(query|header|path|component-parameter-\w+|response-header|component-header)/',r), "nullable or nullable-item array parameters / response headers: slice + nullable parse/format snippets"),
 ("C01-F08", lambda r,m: r.startswith('name/'), "identifier derivation from hostile or colliding names (quotes, braces, dashes in component names, keywords, non-letters only, non-ASCII, id-suffix header with --client, colliding pairs)"),
 ("C01-F09", lambda r,m: 'status-2XX' in r, "status code pattern 2XX spliced into identifiers"),
 ("C01-F10", lambda r,m: 'redeclared' in m, "generated type names collide (nested inline object vs component)"),
 ("C01-F15", lambda r,m: '/alias' in r and ('HoistedAlias' in m or 'ambiguous selector' in m), "$ref to a schema component that is itself an alias ($ref) of another component: the alias type lacks the methods/conversions the Ref snippets use"),
 ("C01-F13", lambda r,m: 'component-alias-raw' in r, "alias of a component request body whose content is not JSON refers to an undeclared <Target>JSON type"),
 ("C01-F12", lambda r,m: 'invalid recursive type' in m, "self-referential schema"),
 ("C01-F14", lambda r,m: 'already declared' in m and 'path/' in r, "path template with an empty inner segment (//) yields duplicate route method names"),
 ("C01-F11", lambda r,m: re.search(r'undefined: \w+ResponseJSONBody',m) or 'ResponseJSONBodyItem' in m or r.startswith('text/component-response-description'), "alias of a component response with an inline JSON body refers to an undeclared <Alias>ResponseJSONBody type"),
]
fam=collections.defaultdict(list)
un=[]
for r,m in sorted(rows.items()):
    for fid,pred,_ in FAM:
        if pred(r,m):
            fam[fid].append(r); break
    else:
        un.append((r,m))
for fid,_,desc in FAM:
    print(fid,len(fam[fid]),desc)
print("UNCLASSIFIED",len(un))
for r,m in un: print("   ",r,"::",m[:160])
if '--write' in sys.argv:
    os.makedirs('/verif/findings',exist_ok=True)
    # dialect boundary (not findings): rows goag rejects with an error. Produced by
    # running the check with VERIF_DUMP_LISTS=/tmp/c01lists
    try:
        nc=set(open('/tmp/c01lists.rejected_noclient').read().split())
        cl=set(open('/tmp/c01lists.rejected_client').read().split())-nc
        open('/verif/findings/D-rejected-noclient.rows','w').write(''.join(x+'\n' for x in sorted(nc) if x.startswith('kind/')))
        open('/verif/findings/D-rejected-client.rows','w').write(''.join(x+'\n' for x in sorted(cl) if x.startswith('kind/')))
        print('rejected rows: noclient',len(nc),'client-only',len(cl))
    except FileNotFoundError:
        print('no rejected lists dumped')
    for fid,_,desc in FAM:
        with open('/verif/findings/%s.rows'%fid,'w') as f:
            for r in fam[fid]: f.write('row:'+r+'\n')

#!/bin/bash
# Warms the Go build cache; nothing it produces is required by the checks.
cd "$(dirname "$0")"
export GOFLAGS=-mod=mod GOPROXY=off GOSUMDB=off GOTOOLCHAIN=local
[ -f go.sum ] || cp /repo/go.sum go.sum
go build -tags verif -o /dev/null ./cmd/goagverif

package main

import (
	"time"

	"pgregory.net/rapid"

	"verif/inproc"
	"verif/res"
	"verif/specgen"
)

func init() {
	register(&Check{
		ID: "C03",
		Rule: "rapid-drawn sets of 1-7 pairwise non-equivalent path templates (depth <=4 over {a, b, {v}, empty last segment}; variable names differ between templates) x method subsets of {GET,POST,DELETE} x base-path forms (none, absolute URL, relative, trailing slash, '/', URL with {var} defaults, --basepath, flag over servers); per spec ALL 1364 request paths of depth <=5 over {a,b,x,empty} x {under the base path, without it, near-miss prefixes} x {GET,POST,DELETE,PATCH} are served (thorough: also every template set of size <=2 over depth <=3); " +
			"oracle: reference matcher returning the admissible outcome set (dispatch to the most literal matching template that declares the method; not-found; both where a variable binds an empty segment or a more literal template lacks the method), exactly one handler or the (custom/default) not-found handler, SchemaPath seen by a middleware = the dispatched template; " +
			"non-trivial = request that matches a template or misses one by a segment/slash/method/prefix; distinct by (spec, prefix form, path, method)",
		Assume: []string{"request paths are r.URL.Path as net/http delivers them (decoded)", "dispatching an empty segment to a variable and the method-fallback case admit two outcomes (DESIGN.md §11)"},
		Main:      c03Main,
		MinNonTrv: 1000,
	})
}

func routerSpecs(e *Env, family string, n int, typed bool) []PkgSpec {
	disabled := disabledTags()
	forms := specgen.BaseForms()
	return collect(e, family, n, func(t *rapid.T) PkgSpec {
		c := specgen.NewCtx(t, disabled)
		bf := rapid.SampledFrom(forms).Draw(t, "baseform")
		d := c.RouterDoc(specgen.RouterOpts{Typed: typed})
		d.Servers = bf.Servers
		return PkgSpec{Doc: d, Cfg: inproc.Config{BasePath: bf.Flag, DoNotEdit: true}, Meta: map[string]any{"baseform": bf.Name}}
	})
}

func c03Main(e *Env) (*res.Result, error) {
	n := 64
	if !e.Quick() {
		n = 640
	}
	specs := routerSpecs(e, "C03", n, false)
	return compiledMain(e, "C03", specs, false, 20*time.Minute)
}

package main

import (
	"fmt"
	"time"

	"pgregory.net/rapid"

	"verif/inproc"
	"verif/res"
	"verif/specgen"
)

func init() {
	register(&Check{
		ID: "C03",
		Rule: "rapid-drawn sets of 1-7 pairwise non-equivalent path templates (depth <=4 over {a, b, {v}, empty last segment}; variable names differ between templates) x method subsets of {GET,POST,DELETE} x base-path forms (none, absolute URL, relative, trailing slash, '/', URL with {var} defaults, --basepath, flag over servers); per spec ALL 1364 request paths of depth <=5 over {a,b,x,empty} x {under the base path, without it, near-miss prefixes} x {GET,POST,DELETE,PATCH} are served (thorough: also every template set of size <=2 over depth <=3); " +
			"oracle: reference matcher returning the admissible outcome set (dispatch to the most literal matching template that declares the method; not-found; both where a variable binds an empty segment or a more literal template lacks the method), exactly one handler or the (custom/default) not-found handler, SchemaPath seen by a middleware = the dispatched template; " +
			"non-trivial = request that matches a template or misses one by a segment/slash/method/prefix; distinct by (spec, prefix form, path, method)",
		Assume:    []string{"request paths are r.URL.Path as net/http delivers them (decoded)", "dispatching an empty segment to a variable admits two outcomes (DESIGN.md §11); a more literal template without the method does not stop the dispatch to a less literal one that has it"},
		Main:      c03Main,
		MinNonTrv: 1000,
	})
}

func routerSpecs(e *Env, family string, n int, typed bool) []PkgSpec {
	disabled := disabledTags()
	nextForm := formWalker(e, specgen.BaseForms())
	return collect(e, family, n, func(t *rapid.T) PkgSpec {
		c := specgen.NewCtx(t, disabled)
		bf := nextForm()
		// (every method a path item can declare is an operation like any other)
		d := c.RouterDoc(specgen.RouterOpts{Typed: typed, Methods: []string{"GET", "POST", "DELETE", "PUT", "PATCH", "HEAD", "OPTIONS", "TRACE"}})
		d.Servers = bf.Servers
		return PkgSpec{Doc: d, Cfg: inproc.Config{BasePath: bf.Flag, DoNotEdit: true}, Meta: map[string]any{"baseform": bf.Name}}
	})
}

func c03Main(e *Env) (*res.Result, error) {
	n := 64
	if !e.Quick() {
		n = 640
	}
	specs := routerSpecs(e, "C03", n, false)
	if !e.Quick() {
		specs = append(specs, exhaustiveTemplateSets()...)
	}
	r, err := compiledMain(e, "C03", specs, false, 30*time.Minute)
	if r != nil && !e.Quick() {
		r.Extra["exhaustive"] = true
		r.Extra["exhaustive_note"] = "thorough tier: ALL sets of one or two non-equivalent templates of depth <=3 over {a, b, {v}, empty last segment} (52 templates, 1378 sets; GET on the first, GET+POST on the second; base path none or /v1 alternating) were generated and served with the full request enumeration; the rapid-drawn larger sets are sampled"
	}
	return r, err
}

// exhaustiveTemplateSets enumerates every set of one or two non-equivalent templates
// of depth <= 3 over {a, b, {v}, empty last segment}.
func exhaustiveTemplateSets() []PkgSpec {
	var tpls []specgen.Template
	var rec func(prefix specgen.Template, depth int)
	rec = func(prefix specgen.Template, depth int) {
		for _, seg := range []string{"a", "b", "{}", ""} {
			tp := append(append(specgen.Template{}, prefix...), seg)
			tpls = append(tpls, tp)
			if seg != "" && depth < 3 {
				rec(tp, depth+1)
			}
		}
	}
	rec(nil, 1)
	mk := func(tp specgen.Template, methods []string, tag string) (string, *specgen.PathItem) {
		pi := &specgen.PathItem{}
		named := append(specgen.Template{}, tp...)
		for i, s := range named {
			if s == "{}" {
				name := fmt.Sprintf("v%s%d", tag, i)
				named[i] = "{" + name + "}"
				pi.Parameters = append(pi.Parameters, &specgen.Parameter{Name: name, In: "path", Required: true, Schema: &specgen.Schema{Type: "string"}})
			}
		}
		for _, m := range methods {
			pi.SetOp(m, specgen.MinimalOp())
		}
		return named.String(), pi
	}
	var out []PkgSpec
	add := func(set []specgen.Template) {
		d := specgen.NewDoc()
		for i, tp := range set {
			methods := []string{"GET"}
			if i == 1 {
				methods = []string{"GET", "POST"}
			}
			path, pi := mk(tp, methods, string(rune('x'+i)))
			d.Paths[path] = pi
		}
		cfg := inproc.Config{DoNotEdit: true}
		form := "none"
		if len(out)%2 == 1 {
			d.Servers = []*specgen.Server{{URL: "/v1"}}
			form = "rel-path"
		}
		out = append(out, PkgSpec{Name: fmt.Sprintf("pc03x%04d", len(out)), Doc: d, Cfg: cfg, Meta: map[string]any{"baseform": form, "exhaustive": true}})
	}
	for i := range tpls {
		add([]specgen.Template{tpls[i]})
		for j := i + 1; j < len(tpls); j++ {
			if tpls[i].Class() != tpls[j].Class() {
				add([]specgen.Template{tpls[i], tpls[j]})
			}
		}
	}
	return out
}

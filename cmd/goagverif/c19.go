package main

import (
	"bytes"
	"fmt"
	"os"
	"os/exec"
	"path/filepath"
	"sort"
	"strings"
	"time"

	"pgregory.net/rapid"

	"verif/inproc"
	"verif/res"
	"verif/rt"
	"verif/specgen"
)

func init() {
	register(&Check{
		ID: "C19",
		Rule: "all 584 histories of length <=3 over the 8 invocations {spec with/without components} x {client on/off} x {api-handler on/off} into one directory (exhaustive), plus rapid state-machine histories of length <=8 whose steps draw the spec from {small, larger} x {plain, upper-case path constants (output differs in letter case only), no paths at all, components holding only a shared parameter} and also create/modify user files, pre-seed stale goag-owned files and tamper with generated ones (case flips, truncation, appended text, one byte, same-length garbage), a sample replayed through the CLI; " +
			"oracle (model = fresh run of the same invocation into an empty directory): after every step the goag-owned names and bytes equal the fresh run's, user files are byte-identical, and repeating the step changes nothing; " +
			"non-trivial = history whose last step removes or rewrites a file an earlier step created; distinct by history",
		Assume:    []string{"goag-owned files are exactly components.go, handler.go, router.go, spec_file.go, client.go (DESIGN.md §11)"},
		Worker:    c19Worker,
		MinNonTrv: 100,
	})
}

var ownedFiles = []string{"client.go", "components.go", "handler.go", "router.go", "spec_file.go"}

type invocation struct {
	Components bool
	Client     bool
	APIHandler bool
	// the state machine also varies these (zero value = what the exhaustive part uses:
	// --donotedit=true, cors off)
	NoHeader bool // --donotedit=false
	Cors     bool // cors: {enable: true} in the config file
}

func (iv invocation) String() string {
	s := fmt.Sprintf("{components:%v client:%v api-handler:%v", iv.Components, iv.Client, iv.APIHandler)
	if iv.NoHeader {
		s += " donotedit:false"
	}
	if iv.Cors {
		s += " cors:true"
	}
	return s + "}"
}

func allInvocations() []invocation {
	var out []invocation
	for _, a := range []bool{false, true} {
		for _, b := range []bool{false, true} {
			for _, c := range []bool{false, true} {
				out = append(out, invocation{Components: a, Client: b, APIHandler: c})
			}
		}
	}
	return out
}

// spec builds the document of one invocation. variant%10 is the size (0 small, 1-2
// larger); variant/10 is the shape: 0 plain, 1 the same with upper-case path
// constants (the output differs from shape 0 in letter case only), 2 no paths at all
// (a models-only spec).
func (iv invocation) spec(variant int) []byte {
	shape := variant / 10
	variant = variant % 10
	d := specgen.NewDoc()
	if shape == 2 {
		if iv.Components {
			d.Components = &specgen.Components{Schemas: map[string]*specgen.Schema{"Thing": {Type: "object", Properties: map[string]*specgen.Schema{"name": {Type: "string"}}}}}
		}
		return d.JSON()
	}
	if shape == 3 {
		// the components section holds nothing but a shared parameter (no components.go
		// results from it) - or, with Components, a shared response as well
		d.Components = &specgen.Components{Parameters: map[string]*specgen.Parameter{"Limit": {Name: "limit", In: "query", Schema: &specgen.Schema{Type: "integer"}}}}
		op := specgen.MinimalOp()
		op.Parameters = []*specgen.Parameter{{Ref: specgen.RefParameters + "Limit"}}
		if iv.Components {
			d.Components.Responses = map[string]*specgen.Response{"Gone": {Description: specgen.Str("gone")}}
			op.Responses["410"] = &specgen.Response{Ref: specgen.RefResponses + "Gone"}
		}
		d.Paths["/x"] = &specgen.PathItem{Get: op}
		return d.JSON()
	}
	d.Paths["/x"] = &specgen.PathItem{Get: specgen.MinimalOp()}
	if variant > 0 {
		// a larger spec: files shrink when a later step uses the small one
		for i := 0; i < 4*variant; i++ {
			d.Paths[fmt.Sprintf("/y%d/{id}", i)] = &specgen.PathItem{Post: &specgen.Operation{
				Parameters: []*specgen.Parameter{{Name: "id", In: "path", Required: true, Schema: &specgen.Schema{Type: "integer"}}},
				Responses:  map[string]*specgen.Response{"200": {Description: specgen.Str("ok")}, "default": {Description: specgen.Str("")}}}}
		}
	}
	if iv.Components {
		d.Components = &specgen.Components{Schemas: map[string]*specgen.Schema{"Thing": {Type: "object", Properties: map[string]*specgen.Schema{"name": {Type: "string"}}}}}
		if variant > 0 {
			for i := 0; i < 3*variant; i++ {
				d.Components.Schemas[fmt.Sprintf("Extra%d", i)] = &specgen.Schema{Type: "object", Properties: map[string]*specgen.Schema{"n": {Type: "integer"}, "s": {Type: "string"}}}
			}
		}
	}
	if shape == 1 {
		up := map[string]*specgen.PathItem{}
		for k, v := range d.Paths {
			up[strings.ReplaceAll(strings.ToUpper(k), "{ID}", "{id}")] = v
		}
		d.Paths = up
	}
	return d.JSON()
}

func (iv invocation) cfg() inproc.Config {
	return inproc.Config{Client: iv.Client, NoAPIHandler: !iv.APIHandler, DoNotEdit: !iv.NoHeader, Cors: iv.Cors}
}

func readOwned(dir string) map[string][]byte {
	out := map[string][]byte{}
	for _, f := range ownedFiles {
		if bs, err := os.ReadFile(filepath.Join(dir, f)); err == nil {
			out[f] = bs
		}
	}
	return out
}

func compareOwned(got, want map[string][]byte) string {
	var diffs []string
	for _, f := range ownedFiles {
		g, gok := got[f]
		w, wok := want[f]
		switch {
		case gok && !wok:
			diffs = append(diffs, f+": present but a fresh run does not produce it")
		case !gok && wok:
			diffs = append(diffs, f+": missing but a fresh run produces it")
		case gok && wok && !bytes.Equal(g, w):
			diffs = append(diffs, fmt.Sprintf("%s: content differs from a fresh run (%d vs %d bytes)", f, len(g), len(w)))
		}
	}
	return strings.Join(diffs, "; ")
}

type c19Runner struct {
	dir   string
	fresh map[string]map[string][]byte
	cli   string
	n     int
}

// run performs one invocation into outDir (in-process or through the CLI).
func (cr *c19Runner) run(iv invocation, variant int, outDir string, useCLI bool) error {
	work := filepath.Join(cr.dir, "work")
	os.RemoveAll(work)
	os.MkdirAll(work, 0o755)
	if useCLI && cr.cli != "" {
		cfg := iv.cfg()
		specFile := filepath.Join(work, cfg.SpecName())
		os.WriteFile(specFile, iv.spec(variant), 0o644)
		cfgFile := filepath.Join(work, ".goag.yaml")
		if y := cfg.GoagYAML(); y != nil {
			os.WriteFile(cfgFile, y, 0o644)
		}
		cmd := exec.Command(cr.cli, cfg.CLIArgs(specFile, cfgFile, outDir)...)
		cmd.Dir = work
		// every other CLI run names the output directory relative to the working directory
		// ("", ".", "./"), as a user standing in it would
		cr.n++
		if cr.n%2 == 0 {
			args := cfg.CLIArgs(specFile, cfgFile, outDir)
			for i := range args {
				if args[i] == "--out" && i+1 < len(args) {
					args[i+1] = []string{"", ".", "./"}[(cr.n/2)%3]
				}
			}
			cmd = exec.Command(cr.cli, args...)
			cmd.Dir = outDir
		}
		if out, err := cmd.CombinedOutput(); err != nil {
			return fmt.Errorf("cli: %v: %s", err, out)
		}
		return nil
	}
	oc := inproc.Generate(iv.spec(variant), iv.cfg(), work, outDir)
	if oc.Panic != "" {
		return fmt.Errorf("panic: %s", oc.Panic)
	}
	return oc.Err
}

func (cr *c19Runner) freshOf(iv invocation, variant int) (map[string][]byte, error) {
	key := fmt.Sprintf("%v/%d", iv, variant)
	if m, ok := cr.fresh[key]; ok {
		return m, nil
	}
	dir := filepath.Join(cr.dir, "fresh")
	os.RemoveAll(dir)
	os.MkdirAll(dir, 0o755)
	// the model run happens in a process of its own when the command is available:
	// nothing an earlier generation left in this process can reach it
	if err := cr.run(iv, variant, dir, cr.cli != ""); err != nil {
		return nil, err
	}
	m := readOwned(dir)
	cr.fresh[key] = m
	return m, nil
}

// step runs iv into outDir and checks the model; returns a failure text or "".
func (cr *c19Runner) step(iv invocation, variant int, outDir string, users map[string][]byte, useCLI bool) string {
	if err := cr.run(iv, variant, outDir, useCLI); err != nil {
		return "goag failed: " + err.Error()
	}
	want, err := cr.freshOf(iv, variant)
	if err != nil {
		return "fresh run failed: " + err.Error()
	}
	got := readOwned(outDir)
	if d := compareOwned(got, want); d != "" {
		return d
	}
	for name, content := range users {
		bs, err := os.ReadFile(filepath.Join(outDir, name))
		if err != nil {
			return "user file " + name + " is gone"
		}
		if !bytes.Equal(bs, content) {
			return "user file " + name + " was modified"
		}
	}
	// idempotence
	if err := cr.run(iv, variant, outDir, useCLI); err != nil {
		return "re-run failed: " + err.Error()
	}
	if d := compareOwned(readOwned(outDir), got); d != "" {
		return "re-running the same invocation changed the directory: " + d
	}
	return ""
}

func c19Worker(e *Env) *res.Result {
	r := res.New()
	cli, _ := cliBinaryShared(e)
	cr := &c19Runner{dir: filepath.Join(e.Scratch, "c19"), fresh: map[string]map[string][]byte{}, cli: cli}
	os.MkdirAll(cr.dir, 0o755)
	invs := allInvocations()
	// (a) exhaustive histories of length <= 3
	var hist [][]int
	for a := 0; a < 8; a++ {
		hist = append(hist, []int{a})
		for b := 0; b < 8; b++ {
			hist = append(hist, []int{a, b})
			for c := 0; c < 8; c++ {
				hist = append(hist, []int{a, b, c})
			}
		}
	}
	for hi, h := range hist {
		if hi%e.NShards != e.Shard {
			continue
		}
		out := filepath.Join(cr.dir, "out")
		os.RemoveAll(out)
		os.MkdirAll(out, 0o755)
		var names []string
		created := map[string]bool{}
		nontrivial := false
		useCLI := hi%37 == 0
		for si, idx := range h {
			iv := invs[idx]
			names = append(names, iv.String())
			variant := 0
			if si == 0 {
				variant = 1 // first step writes larger files
			}
			fail := cr.step(iv, variant, out, nil, useCLI)
			r.Evaluations++
			want, _ := cr.freshOf(iv, variant)
			if si == len(h)-1 {
				for f := range created {
					if _, ok := want[f]; !ok || true {
						nontrivial = len(h) > 1
					}
				}
			}
			for f := range want {
				created[f] = true
			}
			if fail != "" {
				r.Fail(res.Failure{Property: "C19", Kind: "history:" + strings.Join(names, ">"), Clause: "model", Detail: fmt.Sprintf("history %v (cli=%v), after step %d: %s", names, useCLI, si+1, fail),
					Replay: map[string]any{"history.txt": strings.Join(names, "\n")}})
				break
			}
		}
		if nontrivial {
			r.NonTrivial("hist", fmt.Sprint(h))
		}
		r.Label(fmt.Sprintf("exhaustive:len%d", len(h)))
		if useCLI {
			r.Label("exhaustive:via-cli")
		}
		r.Sample(map[string]any{"history": names, "via_cli": useCLI, "held": true}, 3)
	}
	// (b) rapid state machine: longer histories with user files and stale files
	// (files in sub-directories are the user's too, whatever their names)
	userNames := []string{"notes.txt", "custom.go", "client_helpers.go", "handler_test.go", "components.go.bak", "router.go~", "README.md",
		"v2/handler.go", "v2/router.go", "internal/spec_file.go", "internal/deep/client.go", "sub/components.go"}
	n := 40
	if !e.Quick() {
		n = 300
	}
	var lastFail *res.Failure
	prop := func(t *rapid.T) {
		out := filepath.Join(cr.dir, "sm")
		os.RemoveAll(out)
		os.MkdirAll(out, 0o755)
		users := map[string][]byte{}
		var trace []string
		steps := 0
		tampered := false
		// a fifth of the histories runs every step through the command (separate processes,
		// output directory named "", "." or "./" relative to the working directory now and then)
		smViaCLI := cr.cli != "" && rapid.IntRange(0, 4).Draw(t, "history_via_cli") == 0
		t.Repeat(map[string]func(*rapid.T){
			"generate": func(t *rapid.T) {
				if steps >= 8 {
					t.Skip("history long enough")
				}
				steps++
				iv := rapid.SampledFrom(invs).Draw(t, "invocation")
				iv.NoHeader = rapid.IntRange(0, 3).Draw(t, "donotedit_false") == 0
				iv.Cors = rapid.IntRange(0, 3).Draw(t, "cors") == 0
				variant := rapid.IntRange(0, 2).Draw(t, "variant") + 10*rapid.SampledFrom([]int{0, 0, 1, 1, 2, 3, 3}).Draw(t, "shape")
				trace = append(trace, fmt.Sprintf("generate %v variant=%d", iv, variant))
				fail := cr.step(iv, variant, out, users, smViaCLI)
				r.Evaluations++
				if fail != "" {
					lastFail = &res.Failure{Property: "C19", Kind: "statemachine", Clause: "model", Detail: fmt.Sprintf("history %v: %s", trace, fail),
						Replay: map[string]any{"history.txt": strings.Join(trace, "\n")}}
					t.Fatalf("%s", fail)
				}
			},
			"usergofile": func(t *rapid.T) {
				// a hand-written Go file of the same package that imports third-party packages
				// under the names of standard-library packages the generated code uses: what
				// goag writes must not depend on it
				name := rapid.SampledFrom([]string{"server.go", "logging.go", "zz_user.go"}).Draw(t, "usergofile")
				content := []byte("package gen\n\nimport (\n\tlog \"github.com/sirupsen/logrus\"\n\tjson \"github.com/goccy/go-json\"\n\tstrings \"example.com/x/strings\"\n)\n\n" +
					"func userHelper(v any) {\n\tlog.Println(v)\n\tbs, _ := json.Marshal(v)\n\t_ = json.Unmarshal(bs, &v)\n\t_ = json.NewDecoder(nil)\n\t_ = json.NewEncoder(nil)\n\t_ = json.RawMessage(nil)\n\t_ = strings.HasPrefix(\"a\", \"b\")\n\t_ = strings.TrimPrefix(\"a\", \"b\")\n\t_ = strings.Index(\"a\", \"b\")\n}\n")
				trace = append(trace, "write user go file "+name)
				os.WriteFile(filepath.Join(out, name), content, 0o644)
				users[name] = content
			},
			"userfile": func(t *rapid.T) {
				name := rapid.SampledFrom(userNames).Draw(t, "userfile")
				content := []byte(rapid.StringN(0, 40, 80).Draw(t, "content"))
				trace = append(trace, "write user file "+name)
				os.MkdirAll(filepath.Dir(filepath.Join(out, name)), 0o755)
				os.WriteFile(filepath.Join(out, name), content, 0o644)
				users[name] = content
			},
			"tamper": func(t *rapid.T) {
				// an edit of a file goag owns is overwritten by the next run, whatever it was
				name := rapid.SampledFrom(ownedFiles).Draw(t, "tampered")
				bs, err := os.ReadFile(filepath.Join(out, name))
				if err != nil || len(bs) == 0 {
					t.Skip("no such file yet")
				}
				how := rapid.SampledFrom([]string{"upper-case", "lower-case", "truncate", "append", "one-byte", "same-length-garbage"}).Draw(t, "how")
				switch how {
				case "upper-case":
					bs = bytes.ToUpper(bs)
				case "lower-case":
					bs = bytes.ToLower(bs)
				case "truncate":
					bs = bs[:len(bs)/2]
				case "append":
					bs = append(bs, []byte("\n// appended by hand\nvar appendedByHand = 1\n")...)
				case "one-byte":
					i := rapid.IntRange(0, len(bs)-1).Draw(t, "at")
					bs[i] ^= 0x20
				case "same-length-garbage":
					bs = bytes.Repeat([]byte("x"), len(bs))
				}
				trace = append(trace, "tamper "+name+" "+how)
				os.WriteFile(filepath.Join(out, name), bs, 0o644)
				tampered = true
			},
			"stale": func(t *rapid.T) {
				name := rapid.SampledFrom(ownedFiles).Draw(t, "stale")
				trace = append(trace, "pre-seed stale "+name)
				os.WriteFile(filepath.Join(out, name), []byte("package stale\n// "+strings.Repeat("stale content ", 400)+"\n"), 0o644)
			},
		})
		if steps >= 2 {
			r.NonTrivial("sm", strings.Join(trace, "|"))
			r.Label("statemachine:history")
			if tampered {
				r.Label("statemachine:with-tampered-owned-file")
			}
			r.Sample(map[string]any{"statemachine_history": trace}, 6)
		}
	}
	ok, _ := rt.Check("C19-statemachine", rt.Seed(e.Seed, rt.SeedStr("C19"), uint64(e.Shard)), n, 20*time.Second, prop)
	if !ok && lastFail != nil {
		r.Fail(*lastFail)
	}
	if e.Shard == 0 {
		r.Extra["exhaustive_histories"] = float64(len(hist))
		r.Extra["exhaustive"] = true
		r.Extra["exhaustive_note"] = "all 584 histories of length <=3 over the 8 invocations were run (split over the shards); the state-machine part is sampled"
	}
	sort.Strings(userNames)
	return r
}

package main

import (
	"crypto/sha256"
	"fmt"
	"os"
	"os/exec"
	"path/filepath"
	"sort"
	"strings"
	"time"

	"pgregory.net/rapid"

	"verif/inproc"
	"verif/res"
	"verif/rt"
	"verif/specgen"
)

func init() {
	register(&Check{
		ID: "C12",
		Rule: "rapid-drawn map-fat specs (>=4 entries in every map-typed construct: paths, component maps, properties, responses, headers, parameters, security schemes, schemes inside one requirement, discriminator mapping, interacting server variables, oauth scopes) and a sample of C01 matrix rows, each generated k times in one process (k=6 quick, 12 thorough; Go re-randomises every map range) and 3 (6) times by the CLI in separate processes; " +
			"oracle: identical file sets and sha256 per file across all runs; a spec goag rejects must be rejected on every run (error text not compared); " +
			"non-trivial = spec with a multi-scheme requirement, >=2 discriminator mappings or interacting server variables, or a matrix row with >=4 map entries; distinct by spec hash",
		Assume:    []string{"k repetitions miss a 2-way unordered choice with probability 2^-(k-1) per choice point (probabilistic evidence)"},
		Worker:    c12Worker,
		Replay:    c12Replay,
		MinNonTrv: 20,
	})
}

func dirDigest(dir string) (map[string]string, error) {
	out := map[string]string{}
	es, err := os.ReadDir(dir)
	if err != nil {
		return nil, err
	}
	for _, e := range es {
		if e.IsDir() {
			continue
		}
		bs, err := os.ReadFile(filepath.Join(dir, e.Name()))
		if err != nil {
			return nil, err
		}
		out[e.Name()] = fmt.Sprintf("%x", sha256.Sum256(bs))
	}
	return out, nil
}

func digestString(m map[string]string) string {
	var ks []string
	for k := range m {
		ks = append(ks, k)
	}
	sort.Strings(ks)
	var sb strings.Builder
	for _, k := range ks {
		sb.WriteString(k + ":" + m[k][:12] + " ")
	}
	return sb.String()
}

func diffDigests(a, b map[string]string) string {
	var out []string
	for k, v := range a {
		if b[k] != v {
			out = append(out, k)
		}
	}
	for k := range b {
		if _, ok := a[k]; !ok {
			out = append(out, k)
		}
	}
	sort.Strings(out)
	return strings.Join(out, ",")
}

// c12One checks one (spec, config); returns a failure description or "".
var c12LastErr string

func c12One(e *Env, dir string, spec []byte, cfg inproc.Config, k, kcli int, cli string) (fail string, rejected bool) {
	var first map[string]string
	firstErr := false
	for i := 0; i < k; i++ {
		work := filepath.Join(dir, "work")
		out := filepath.Join(dir, fmt.Sprintf("out%d", i))
		os.RemoveAll(work)
		os.RemoveAll(out)
		os.MkdirAll(work, 0o755)
		os.MkdirAll(out, 0o755)
		oc := inproc.Generate(spec, cfg, work, out)
		isErr := oc.Err != nil || oc.Panic != ""
		if oc.Err != nil {
			c12LastErr = oc.Err.Error()
		}
		dg, _ := dirDigest(out)
		os.RemoveAll(out)
		if i == 0 {
			first, firstErr = dg, isErr
			continue
		}
		if isErr != firstErr {
			return fmt.Sprintf("in-process run %d: error=%v but run 0: error=%v", i, isErr, firstErr), firstErr
		}
		if !isErr && digestString(dg) != digestString(first) {
			return fmt.Sprintf("in-process run %d differs from run 0 in files [%s]", i, diffDigests(first, dg)), false
		}
	}
	if cli != "" {
		work := filepath.Join(dir, "cliwork")
		os.RemoveAll(work)
		os.MkdirAll(work, 0o755)
		specFile := filepath.Join(work, cfg.SpecName())
		cfgFile := filepath.Join(work, ".goag.yaml")
		os.WriteFile(specFile, spec, 0o644)
		if y := cfg.GoagYAML(); y != nil {
			os.WriteFile(cfgFile, y, 0o644)
		}
		for i := 0; i < kcli; i++ {
			out := filepath.Join(dir, fmt.Sprintf("cliout%d", i))
			os.RemoveAll(out)
			os.MkdirAll(out, 0o755)
			cmd := exec.Command(cli, cfg.CLIArgs(specFile, cfgFile, out)...)
			cmd.Dir = work
			err := cmd.Run()
			isErr := err != nil
			dg, _ := dirDigest(out)
			os.RemoveAll(out)
			if isErr != firstErr {
				return fmt.Sprintf("CLI run %d: error=%v but in-process: error=%v", i, isErr, firstErr), firstErr
			}
			if !isErr && digestString(dg) != digestString(first) {
				return fmt.Sprintf("CLI run %d differs from in-process run 0 in files [%s]", i, diffDigests(first, dg)), false
			}
		}
	}
	return "", firstErr
}

func c12Worker(e *Env) *res.Result {
	r := res.New()
	dir := filepath.Join(e.Scratch, "c12")
	os.MkdirAll(dir, 0o755)
	k, kcli, nfat, rowEvery := 6, 3, 25, 40
	if !e.Quick() {
		k, kcli, nfat, rowEvery = 12, 6, 150, 6
	}
	cli, err := cliBinaryShared(e)
	if err != nil {
		r.Inconclusive = append(r.Inconclusive, err.Error())
		cli = ""
	}
	// (a) matrix rows sample
	rows := specgen.AllRows()
	for i, row := range rows {
		if i%e.NShards != e.Shard || (i/e.NShards)%rowEvery != int(splitmix(e.Seed)%uint64(rowEvery)) {
			continue
		}
		spec := row.Raw
		if spec == nil {
			spec = row.Doc.JSON()
		}
		cfg := inproc.Config{Client: true, DoNotEdit: true, Cors: true}
		fail, rejected := c12One(e, dir, spec, cfg, k, 1, cli)
		r.Evaluations++
		if rejected {
			r.Label("row:rejected-consistently")
		} else {
			r.Label("row:generated")
		}
		if fail != "" {
			r.Fail(res.Failure{Property: "C12", Kind: "row:" + row.ID, Clause: "nondeterministic", Detail: "row " + row.ID + ": " + fail,
				Replay: map[string]any{"openapi.json": string(spec), "config.json": cfgString(cfg)}})
		}
	}
	// (b) map-fat specs
	disabled := disabledTags()
	var lastFail *res.Failure
	prop := func(t *rapid.T) {
		c := specgen.NewCtx(t, disabled)
		d := c.MapFat()
		specgen.DecorateOps(t, d)
		cfg := drawConfig(t)
		spec := d.JSON()
		if n := 0; rapid.Bool().Draw(t, "decorate_extensions") {
			spec, n = decorateExtensions(t, spec)
			if n > 0 {
				r.Label("fat:with-x-goag-extensions")
			}
		}
		fail, rejected := c12One(e, dir, spec, cfg, k, kcli, cli)
		r.Evaluations++
		if rejected {
			r.Label("fat:rejected-consistently")
			r.Label("fat:rejected:" + lastWords(c12LastErr, 8))
		} else {
			r.Label("fat:generated")
			r.NonTrivialHash(hashStr(string(spec)))
			r.Sample(map[string]any{"kind": "map-fat", "tags": tagList(c.Tags), "paths": len(d.Paths), "schemas": len(d.Components.Schemas), "security": d.Security, "servers": d.Servers[0].URL, "runs_in_process": k, "runs_cli": kcli, "identical": fail == ""}, 3)
		}
		if fail != "" {
			lastFail = &res.Failure{Property: "C12", Kind: "mapfat", Clause: "nondeterministic", Detail: fail,
				Replay: map[string]any{"openapi.json": string(spec), "config.json": cfgString(cfg)}}
			t.Fatalf("%s", fail)
		}
	}
	ok, _ := rt.Check("C12-mapfat", rt.Seed(e.Seed, rt.SeedStr("C12"), uint64(e.Shard)), nfat, 30*time.Second, prop)
	if !ok && lastFail != nil {
		r.Fail(*lastFail)
	}
	if e.Shard == 0 {
		r.Extra["repetitions_in_process"] = float64(k)
		r.Extra["repetitions_cli"] = float64(kcli)
	}
	return r
}

// decorateExtensions adds several x-goag-* vendor extensions (string and
// non-string values, known and unknown keys) to schemas of the document; goag
// reads them through a Go map, and the generated bytes must not depend on the
// order in which it meets them.
func decorateExtensions(t *rapid.T, spec []byte) ([]byte, int) {
	var root map[string]any
	if jsonUnmarshal(spec, &root) != nil {
		return spec, 0
	}
	var sites []site
	collectSites(root, nil, &sites)
	keys := []string{"x-goag-go-time-format", "x-goag-a", "x-goag-note", "x-goag-z", "x-goag-go-time-layout"}
	vals := []any{"time.RFC1123", "time.RFC850", "time.Kitchen", float64(20060102150405), nil, true, []any{"time.RFC822"}, map[string]any{"layout": "x"}}
	n := 0
	for _, s := range sites {
		m, ok := s.get().(map[string]any)
		if !ok {
			continue
		}
		if ty, _ := m["type"].(string); ty == "" {
			continue
		}
		if _, isSchemaMap := m["in"]; isSchemaMap {
			continue
		}
		isTime := m["format"] == "date-time"
		if !isTime && rapid.IntRange(0, 5).Draw(t, "ext_here") != 0 {
			continue
		}
		cnt := rapid.IntRange(2, 4).Draw(t, "ext_count")
		perm := rapid.Permutation(keys).Draw(t, "ext_keys")
		for _, k := range perm[:cnt] {
			m[k] = rapid.SampledFrom(vals).Draw(t, "ext_val")
		}
		n++
	}
	if n == 0 {
		return spec, 0
	}
	return mustIndent(root), n
}

func c12Replay(e *Env, path string) *res.Result {
	r := res.New()
	spec, err := os.ReadFile(filepath.Join(path, "openapi.json"))
	if err != nil {
		r.Inconclusive = append(r.Inconclusive, err.Error())
		return r
	}
	var cfg inproc.Config
	if bs, err := os.ReadFile(filepath.Join(path, "config.json")); err == nil {
		jsonUnmarshal(bs, &cfg)
	}
	dir := filepath.Join(e.Scratch, "c12replay")
	os.MkdirAll(dir, 0o755)
	cli, _ := cliBinaryShared(e)
	fail, _ := c12One(e, dir, spec, cfg, 24, 6, cli)
	r.Evaluations = 1
	fmt.Println("replay:", fail)
	if fail != "" {
		r.Fail(res.Failure{Property: "C12", Kind: "replay:" + filepath.Base(path), Clause: "nondeterministic", Detail: fail})
	}
	return r
}

// cliBinaryShared returns the CLI built once per run by the parent (env
// VERIF_CLI), building it when absent.
func cliBinaryShared(e *Env) (string, error) {
	if p := os.Getenv("VERIF_CLI"); p != "" {
		if _, err := os.Stat(p); err == nil {
			return p, nil
		}
	}
	return cliBinary(e)
}

func lastWords(s string, n int) string {
	f := strings.Fields(s)
	if len(f) > n {
		f = f[len(f)-n:]
	}
	return strings.Join(f, " ")
}

package main

import (
	"fmt"
	"go/ast"
	"go/constant"
	"go/parser"
	"go/token"
	"go/types"
	"os"
	"path/filepath"
	"strings"
	"time"
	"unicode/utf8"

	"pgregory.net/rapid"

	"verif/inproc"
	"verif/res"
	"verif/rt"
	"verif/specgen"
)

func init() {
	register(&Check{
		ID: "C13",
		Rule: "spec-file contents: ALL strings of length <=4 over {backtick, quote, backslash, LF, CR, $, a} (2800, exhaustive), rapid text mixing those with arbitrary code points, and real specs (repo fixtures and generated documents) as multi-line JSON, one-line JSON, CRLF, no trailing newline, with BOM; " +
			"constant half: goag.Generate(valid doc, raw bytes) then the value of constant SpecFile (go/types constant folding of spec_file.go) must equal the input bytes; " +
			"served half (compiled driver): GET <base>/<spec name> with SpecFileHandler installed and a 418-answering middleware stack returns 200 and the exact bytes for every base-path form / --spec-handler-name, is not found when the handler is nil, and near-miss paths are never answered by it (also when a catch-all /{v} template matches the spec path); " +
			"non-trivial = content with a backtick, quote, backslash or CR, or without LF; distinct by content hash",
		Assume:    []string{"contents are valid UTF-8 without NUL (DESIGN.md §11); the HTTP method on the spec route is unconstrained"},
		Main:      c13Main,
		MinNonTrv: 500,
	})
	register(&Check{ID: "C13const", Worker: c13ConstWorker})
}

// specConst evaluates the SpecFile constant of dir/spec_file.go.
func specConst(dir string) (string, error) {
	fset := token.NewFileSet()
	f, err := parser.ParseFile(fset, filepath.Join(dir, "spec_file.go"), nil, 0)
	if err != nil {
		return "", fmt.Errorf("spec_file.go does not parse: %v", err)
	}
	conf := types.Config{Error: func(error) {}}
	pkg, err := conf.Check("p", fset, []*ast.File{f}, nil)
	if pkg == nil {
		return "", fmt.Errorf("spec_file.go does not type-check: %v", err)
	}
	c, ok := pkg.Scope().Lookup("SpecFile").(*types.Const)
	if !ok || c.Val().Kind() != constant.String {
		return "", fmt.Errorf("no string constant SpecFile (type check: %v)", err)
	}
	return constant.StringVal(c.Val()), nil
}

func contentClass(s string) string {
	var cl []string
	if strings.Contains(s, "`") {
		cl = append(cl, "backtick")
	}
	if strings.Contains(s, `"`) {
		cl = append(cl, "quote")
	}
	if strings.Contains(s, `\`) {
		cl = append(cl, "backslash")
	}
	if strings.Contains(s, "\r") {
		cl = append(cl, "CR")
	}
	if !strings.Contains(s, "\n") {
		cl = append(cl, "noLF")
	}
	if strings.HasPrefix(s, "\ufeff") {
		cl = append(cl, "BOM")
	}
	if len(cl) == 0 {
		return "plain"
	}
	return strings.Join(cl, "+")
}

func c13NonTrivial(s string) bool { return contentClass(s) != "plain" }

var c13ValidSpec = func() []byte {
	d := specgen.NewDoc()
	d.Paths["/x"] = &specgen.PathItem{Get: specgen.MinimalOp()}
	return d.JSON()
}()

func c13CheckConst(dir string, content string) string {
	out := filepath.Join(dir, "out")
	os.RemoveAll(out)
	os.MkdirAll(out, 0o755)
	oc := inproc.GenerateRaw(c13ValidSpec, []byte(content), inproc.Config{DoNotEdit: true, SpecHandlerName: "openapi.yaml"}, out)
	if oc.Panic != "" {
		return "goag panicked: " + firstWords(oc.Panic, 12)
	}
	if oc.Err != nil {
		return "goag failed: " + oc.Err.Error()
	}
	got, err := specConst(out)
	if err != nil {
		return err.Error()
	}
	if got != content {
		return fmt.Sprintf("SpecFile constant differs from the input: got %q want %q", clip(got, 60), clip(content, 60))
	}
	return ""
}

func clip(s string, n int) string {
	if len(s) > n {
		return s[:n] + "…"
	}
	return s
}

// c13Kind classifies a failing content narrowly for the known-findings matcher.
func c13Kind(content string) string { return "const:" + contentClass(content) }

func c13ConstWorker(e *Env) *res.Result {
	r := res.New()
	dir := filepath.Join(e.Scratch, "c13")
	os.MkdirAll(dir, 0o755)
	check := func(content, origin string) bool {
		fail := c13CheckConst(dir, content)
		r.Evaluations++
		r.Label("class:" + contentClass(content))
		r.Label("origin:" + origin)
		if c13NonTrivial(content) {
			r.NonTrivialHash(hashStr(content))
		}
		if fail != "" {
			r.Fail(res.Failure{Property: "C13", Kind: c13Kind(content), Clause: "constant", Detail: fmt.Sprintf("content %q (%s): %s", clip(content, 80), origin, fail),
				Replay: map[string]any{"content.txt": content}})
			return false
		}
		r.Sample(map[string]any{"content": clip(content, 60), "class": contentClass(content), "origin": origin, "constant_equals_input": true}, 6)
		return true
	}
	// (a) exhaustive strings of length <= 4 over the hostile alphabet
	alpha := []string{"`", `"`, `\`, "\n", "\r", "$", "a"}
	var all []string
	var rec func(prefix string, n int)
	rec = func(prefix string, n int) {
		if n == 0 {
			return
		}
		for _, a := range alpha {
			s := prefix + a
			all = append(all, s)
			rec(s, n-1)
		}
	}
	rec("", 4)
	for i, s := range all {
		if i%e.NShards == e.Shard {
			check(s, "exhaustive")
		}
	}
	// (b) real specs in several renderings
	var reals []string
	fixtures, _ := filepath.Glob(filepath.Join(e.Repo, "tests", "*", "openapi.yaml"))
	fixtures = append(fixtures, filepath.Join(e.Repo, "examples", "petstore", "openapi.yaml"))
	for _, f := range fixtures {
		if bs, err := os.ReadFile(f); err == nil && utf8.Valid(bs) {
			s := string(bs)
			reals = append(reals, s, strings.ReplaceAll(s, "\n", "\r\n"), strings.TrimRight(s, "\n"), "\ufeff"+s)
		}
	}
	for i, row := range specgen.OperationRows() {
		if row.Doc != nil && i%7 == 0 {
			reals = append(reals, string(row.Doc.JSON()), string(row.Doc.OneLineJSON()), strings.ReplaceAll(string(row.Doc.JSON()), "\n", "\r\n"))
		}
	}
	for _, tx := range specgen.TextShapes {
		d := specgen.NewDoc()
		d.Info.Description = tx.Text
		d.Paths["/x"] = &specgen.PathItem{Get: specgen.MinimalOp()}
		reals = append(reals, string(d.JSON()), string(d.OneLineJSON()))
	}
	for i, s := range reals {
		if i%e.NShards == e.Shard {
			check(s, "real-spec")
			// the same content through the file-based entry point the CLI uses
			// (GenerateFile: read the file, load it, embed it); content the loader
			// refuses is outside this path's domain
			out := filepath.Join(dir, "fileout")
			work := filepath.Join(dir, "filework")
			os.RemoveAll(out)
			os.RemoveAll(work)
			os.MkdirAll(out, 0o755)
			os.MkdirAll(work, 0o755)
			name := "openapi.yaml"
			oc := inproc.Generate([]byte(s), inproc.Config{DoNotEdit: true, SpecFilename: name}, work, out)
			r.Evaluations++
			if oc.Err != nil || oc.Panic != "" {
				r.Label("file-entry:refused")
				continue
			}
			r.Label("file-entry:generated")
			got, err := specConst(out)
			if err != nil || got != s {
				msg := fmt.Sprintf("through GenerateFile the SpecFile constant differs from the file: got %q want %q (%v)", clip(got, 60), clip(s, 60), err)
				r.Fail(res.Failure{Property: "C13", Kind: "file-entry:" + contentClass(s), Clause: "constant", Detail: msg, Replay: map[string]any{"content.txt": s}})
			}
		}
	}
	// (c) rapid text
	n := 150
	if !e.Quick() {
		n = 3000
	}
	var lastFail *res.Failure
	hostile := []rune{'`', '"', '\\', '\n', '\r', '$', '%', '\t', '{', '}', '\'', 'a', ' ', 0xfeff, 0x2028, 0x1F600, 0x7f, 0x1}
	gen := rapid.Custom(func(t *rapid.T) string {
		parts := rapid.SliceOfN(rapid.OneOf(
			rapid.Map(rapid.SampledFrom(hostile), func(r rune) string { return string(r) }),
			rapid.StringN(0, 6, 24),
			rapid.SampledFrom([]string{"`+\"`\"+`", "\\n", "\\\"", "${x}", "*/", "//", "\r\n", "`\"", "\"`", "\\`"}),
		), 0, 12).Draw(t, "parts")
		s := strings.Join(parts, "")
		s = strings.ReplaceAll(s, "\x00", "")
		if !utf8.ValidString(s) {
			s = strings.ToValidUTF8(s, "?")
		}
		return s
	})
	prop := func(t *rapid.T) {
		content := gen.Draw(t, "content")
		failBefore := len(r.Failures)
		if !check(content, "rapid") {
			f := r.Failures[len(r.Failures)-1]
			r.Failures = r.Failures[:failBefore]
			if e.Known.MatchKind("C13", f.Kind) != nil {
				// a known finding: counted, search continues behind it
				r.KnownHits[e.Known.MatchKind("C13", f.Kind).ID]++
				return
			}
			lastFail = &f
			t.Fatalf("%s", f.Detail)
		}
	}
	ok, _ := rt.Check("C13-rapid", rt.Seed(e.Seed, rt.SeedStr("C13"), uint64(e.Shard)), n, 20*time.Second, prop)
	if !ok && lastFail != nil {
		r.Fail(*lastFail)
	}
	if e.Shard == 0 {
		r.Extra["exhaustive"] = true
		r.Extra["exhaustive_note"] = fmt.Sprintf("all %d strings of length <=4 over {backtick,quote,backslash,LF,CR,$,a} were checked (constant half); rapid text, real specs and the served half are sampled", len(all))
	}
	return r
}

// c13Main runs the constant half in-process shards and then the served half in
// the compiled driver (added once the driver exists).
func c13Main(e *Env) (*res.Result, error) {
	if cli, err := cliBinary(e); err == nil {
		os.Setenv("VERIF_CLI", cli)
	}
	sub := *e
	sub.ID = "C13const"
	merged, incon := runWorkers(&sub, 10*time.Minute)
	merged.Inconclusive = append(merged.Inconclusive, incon...)
	if c13Served != nil {
		served, err := c13Served(e)
		if served != nil {
			merged.Merge(served, 12)
		}
		if err != nil {
			return merged, err
		}
	}
	return merged, nil
}

var c13Served func(e *Env) (*res.Result, error)

func init() { c13Served = c13ServedMain }

// c13ServedMain: the served half through the compiled driver.
func c13ServedMain(e *Env) (*res.Result, error) {
	n := 40
	if !e.Quick() {
		n = 240
	}
	disabled := disabledTags()
	nextForm := formWalker(e, specgen.BaseForms())
	hostile := []string{"`", "a`b\n", "\"quoted\"", `back\slash`, "tab\there", "line1\r\nline2\r\n", "no newline at end", "\ufeffwith bom\n", "`+\"`\"+`", "${x} $$ `\n`", "multi\nline\n", "\r", "a\\nb", "x\n\"y\"\n`z`\n\\", "100% off\n", "%s %d %v %% %!(EXTRA)", "q=red%20shoes&x=%2F\n"}
	specs := collect(e, "C13", n, func(t *rapid.T) PkgSpec {
		c := specgen.NewCtx(t, disabled)
		bf := nextForm()
		d := c.RouterDoc(specgen.RouterOpts{MaxN: 4, MaxDepth: 3})
		// a root-level catch-all template that can match the spec path
		hasRootVar := false
		for tpl := range d.Paths {
			if strings.HasPrefix(tpl, "/{") && strings.Count(strings.TrimSuffix(tpl, "/"), "/") == 1 {
				hasRootVar = true // a second /{x} would be the same template twice
			}
		}
		if !hasRootVar && rapid.IntRange(0, 2).Draw(t, "catch_all") == 0 {
			v := c.PlainName("v", "catchall")
			d.Paths["/{"+v+"}"] = &specgen.PathItem{Get: &specgen.Operation{Parameters: []*specgen.Parameter{{Name: v, In: "path", Required: true, Schema: &specgen.Schema{Type: "string"}}}, Responses: specgen.EmptyResponses()}}
		}
		d.Servers = bf.Servers
		cfg := inproc.Config{BasePath: bf.Flag, DoNotEdit: true}
		cfg.SpecHandlerName = rapid.SampledFrom([]string{"openapi.yaml", "openapi.yaml", "spec.json", "openapi", "api-docs.yml", "docs/openapi.yaml", "v2/spec/api.json", ".openapi.yaml", ".well-known/openapi.json", "..spec", "openapi.yaml.", "a.b/c.d"}).Draw(t, "spec_handler_name")
		ps := PkgSpec{Doc: d, Cfg: cfg, Meta: map[string]any{"baseform": bf.Name}}
		switch rapid.IntRange(0, 2).Draw(t, "content_kind") {
		case 0:
			ps.Embed = []byte(rapid.SampledFrom(hostile).Draw(t, "hostile"))
		case 1:
			ps.Embed = d.OneLineJSON()
		}
		return ps
	})
	return compiledMain(e, "C13", specs, false, 20*time.Minute)
}

package main

import (
	"fmt"
	"os"
	"os/exec"
	"path/filepath"
	"sort"
	"strings"
	"time"

	"pgregory.net/rapid"

	"verif/inproc"
	"verif/res"
	"verif/rt"
	"verif/specgen"
)

func init() {
	register(&Check{
		ID: "C01",
		Rule: "feature matrix rows (schema kind x position x required x nullable x ref/inline, name shapes, text shapes, operation rows, negative rows) enumerated deterministically, each under seed-derived configs (thorough: full 2x2x2x4 cross on a row sample), plus rapid-drawn random compositions with rapid-drawn configs; " +
			"oracle: goag returns error, or every written .go file parses, is a gofmt fixed point and the package type-checks against the standard library only with the expected file set; " +
			"non-trivial = goag returned nil and the spec has >=1 operation; distinct by hash of (spec bytes, config)",
		Assume: []string{
			"go/types with the source importer decides 'compiles' (same front end as the compiler's type checker)",
			"custom types (x-goag-go-type, custom Maybe/Nullable) are outside the dialect (DESIGN.md §3.8)",
			"--api-handler=false is not part of C01's quantifier (DESIGN.md §3.7)",
		},
		Worker:    c01Worker,
		Replay:    c01Replay,
		MinNonTrv: 200,
	})
}

// genAndCheck runs goag and applies the C01 oracle. It returns (rejected, problems).
type c01Outcome struct {
	Rejected bool
	ErrText  string
	Panic    string
	Problems []inproc.Problem
	Files    []string
}

func c01Run(chk *inproc.Checker, dir string, spec []byte, cfg inproc.Config) c01Outcome {
	work := filepath.Join(dir, "work")
	out := filepath.Join(dir, "out")
	os.RemoveAll(work)
	os.RemoveAll(out)
	os.MkdirAll(work, 0o755)
	os.MkdirAll(out, 0o755)
	oc := inproc.Generate(spec, cfg, work, out)
	var r c01Outcome
	if oc.Panic != "" {
		r.Panic = oc.Panic
		return r
	}
	if oc.Err != nil {
		r.Rejected = true
		r.ErrText = oc.Err.Error()
		return r
	}
	r.Files = inproc.GoFiles(out)
	_, probs := chk.Check(out)
	r.Problems = probs
	// expected file set
	have := map[string]bool{}
	for _, f := range r.Files {
		have[f] = true
	}
	for _, f := range []string{"handler.go", "router.go", "spec_file.go"} {
		if !have[f] {
			r.Problems = append(r.Problems, inproc.Problem{Kind: "fileset", File: f, Msg: "missing"})
		}
	}
	if cfg.Client != have["client.go"] {
		r.Problems = append(r.Problems, inproc.Problem{Kind: "fileset", File: "client.go", Msg: fmt.Sprintf("client requested=%v present=%v", cfg.Client, have["client.go"])})
	}
	return r
}

func problemClass(ps []inproc.Problem) string {
	if len(ps) == 0 {
		return ""
	}
	return ps[0].Kind
}

func c01Worker(e *Env) *res.Result {
	r := res.New()
	chk := inproc.NewChecker()
	dir := filepath.Join(e.Scratch, "c01")
	os.MkdirAll(dir, 0o755)
	cfgs := allConfigs()
	rows := specgen.AllRows()
	// shrunk compositions that failed in earlier runs are kept as rows of their own
	saved, _ := filepath.Glob(filepath.Join(verifDir, "findings", "C01-specs", "*.json"))
	sort.Strings(saved)
	for _, f := range saved {
		if bs, err := os.ReadFile(f); err == nil {
			rows = append(rows, specgen.Row{ID: "saved/" + strings.TrimSuffix(filepath.Base(f), ".json"), Raw: bs})
		}
	}
	rejected, negRows := 0, 0
	// thorough: the full configuration cross on a deterministic sample of rows
	crossEvery := 0
	if !e.Quick() {
		crossEvery = len(rows)/600 + 1
	}
	for i, row := range rows {
		if i%e.NShards != e.Shard {
			continue
		}
		spec := row.Raw
		if spec == nil {
			spec = row.Doc.JSON()
		}
		h := splitmix(e.Seed ^ hashStr(row.ID))
		// quick: a seed-selected half of the kind matrix (all other rows always)
		if e.Quick() && strings.HasPrefix(row.ID, "kind/") && (h>>20)%2 == 0 {
			continue
		}
		// every row runs without and with --client (a client-side rejection would
		// otherwise mask broken handler code), plus, in thorough, a seed-derived
		// config and the full cross on a sample
		use := []inproc.Config{{DoNotEdit: true}, {Client: true, DoNotEdit: true, Cors: true}}
		if !e.Quick() {
			use = append(use, cfgs[h%uint64(len(cfgs))])
		}
		if crossEvery > 0 && i%crossEvery == 0 {
			use = cfgs
		}
		for ci, cfg := range use {
			_ = ci
			oc := c01Run(chk, dir, spec, cfg)
			r.Evaluations++
			// a sample goes through the real CLI as well: its exit status must agree with
			// the in-process result (0 <=> nil)
			if ci == 0 && (h>>8)%20 == 0 && oc.Panic == "" {
				if cli, cerr := cliBinaryShared(e); cerr == nil {
					cliOut := filepath.Join(dir, "cliout")
					os.RemoveAll(cliOut)
					os.MkdirAll(cliOut, 0o755)
					cmd := exec.Command(cli, cfg.CLIArgs(filepath.Join(dir, "work", cfg.SpecName()), filepath.Join(dir, "work", ".goag.yaml"), cliOut)...)
					cmd.Dir = filepath.Join(dir, "work")
					cliErr := cmd.Run()
					r.Label("cli-sample")
					if (cliErr != nil) != oc.Rejected {
						r.Fail(res.Failure{Property: "C01", Kind: "cli-disagrees:" + row.ID, Clause: "cli-exit-status",
							Detail: fmt.Sprintf("row %s config %s: in-process error=%v (%s) but CLI failure=%v", row.ID, cfgString(cfg), oc.Rejected, oc.ErrText, cliErr != nil),
							Replay: map[string]any{"openapi.json": string(spec), "config.json": cfgString(cfg), "row": row.ID}})
					}
				}
			}
			if row.Negative {
				negRows++
			}
			switch {
			case oc.Panic != "":
				r.Label("outcome:panic")
				// a panic is C15's business; under C01 it is neither success nor broken output
			case oc.Rejected:
				rejected++
				r.Label("outcome:rejected")
				if cfg.Client {
					r.ListAdd("rejected_client", row.ID)
				} else {
					r.ListAdd("rejected_noclient", row.ID)
				}
			case len(oc.Problems) == 0:
				r.Label("outcome:compiles")
				if row.Doc != nil && specHasOps(row.Doc) {
					r.NonTrivial("row", row.ID, cfgString(cfg))
				}
				r.Sample(map[string]any{"row": row.ID, "config": cfg, "outcome": "compiles", "files": oc.Files}, 4)
			default:
				r.Label("outcome:broken")
				r.Fail(res.Failure{Property: "C01", Kind: "row:" + row.ID, Clause: problemClass(oc.Problems),
					Detail: fmt.Sprintf("row %s config %s: goag reported success but: %s", row.ID, cfgString(cfg), problemsString(oc.Problems)),
					Replay: map[string]any{"openapi.json": string(spec), "config.json": cfgString(cfg), "row": row.ID}})
				break
			}
			if len(oc.Problems) > 0 && !oc.Rejected && oc.Panic == "" {
				break // one failing config per row is enough
			}
		}
	}
	// random compositions
	nComp := 500
	if !e.Quick() {
		nComp = 20000
	}
	perShard := nComp / e.NShards
	disabled := disabledTags()
	excluded := map[string]int{}
	var lastFail *res.Failure
	prop := func(t *rapid.T) {
		c := specgen.NewCtx(t, disabled)
		cfg := drawConfig(t)
		c.NeedClient = cfg.Client
		bf := rapid.SampledFrom(specgen.BaseForms()).Draw(t, "baseform")
		d := c.Composition(specgen.DefaultCompOpts())
		d.Servers = bf.Servers
		if bf.Flag != "" && cfg.BasePath == "" {
			cfg.BasePath = bf.Flag
		}
		spec := d.JSON()
		oc := c01Run(chk, dir, spec, cfg)
		r.Evaluations++
		for k, v := range c.Excluded {
			excluded[k] += v
		}
		switch {
		case oc.Panic != "":
			r.Label("comp:panic")
		case oc.Rejected:
			r.Label("comp:rejected")
			r.Label("comp:rejected:" + firstWords(oc.ErrText, 6))
		case len(oc.Problems) == 0:
			r.Label("comp:compiles")
			if specHasOps(d) {
				r.NonTrivialHash(hashStr(string(spec)) ^ hashStr(cfgString(cfg)))
			}
			for k := range c.Tags {
				r.Label("tag:" + k)
			}
			r.Sample(map[string]any{"composition_tags": tagList(c.Tags), "config": cfg, "paths": specgen.SortedKeys(d.Paths), "outcome": "compiles"}, 8)
		default:
			r.Label("comp:broken")
			lastFail = &res.Failure{Property: "C01", Kind: "composition:" + problemClass(oc.Problems) + ":" + normalizeMsg(oc.Problems[0].Msg), Clause: problemClass(oc.Problems),
				Detail: fmt.Sprintf("composition config %s: goag reported success but: %s", cfgString(cfg), problemsString(oc.Problems)),
				Replay: map[string]any{"openapi.json": string(spec), "config.json": cfgString(cfg), "tags": strings.Join(tagList(c.Tags), " ")}}
			t.Fatalf("broken output: %s", problemsString(oc.Problems))
		}
	}
	shrink := 20 * time.Second
	if !e.Quick() {
		shrink = 60 * time.Second
	}
	ok, _ := rt.Check("C01-composition", rt.Seed(e.Seed, rt.SeedStr("C01"), uint64(e.Shard)), perShard, shrink, prop)
	if !ok && lastFail != nil {
		r.Fail(*lastFail)
	}
	for k, v := range excluded {
		r.LabelN("excluded_by_construction:"+k, int64(v))
	}
	r.Extra["rejected"] = float64(rejected)
	if e.Shard == 0 {
		r.Extra["rows_total"] = float64(len(rows))
	}
	if e.Shard == 0 {
		r.Extra["template_coverage"] = templateCoverage()
	}
	return r
}

func firstWords(s string, n int) string {
	f := strings.Fields(s)
	if len(f) > n {
		f = f[:n]
	}
	return strings.Join(f, " ")
}

// normalizeMsg strips identifiers from a compiler message so that failures group
// by root cause.
func normalizeMsg(s string) string {
	var b strings.Builder
	for _, w := range strings.Fields(s) {
		if strings.ContainsAny(w, "0123456789") || len(w) > 24 {
			w = "_"
		}
		b.WriteString(w)
		b.WriteByte(' ')
		if b.Len() > 60 {
			break
		}
	}
	return strings.TrimSpace(b.String())
}

func c01Replay(e *Env, path string) *res.Result {
	r := res.New()
	chk := inproc.NewChecker()
	spec, err := os.ReadFile(filepath.Join(path, "openapi.json"))
	if err != nil {
		r.Inconclusive = append(r.Inconclusive, err.Error())
		return r
	}
	var cfg inproc.Config
	if bs, err := os.ReadFile(filepath.Join(path, "config.json")); err == nil {
		jsonUnmarshal(bs, &cfg)
	}
	oc := c01Run(chk, filepath.Join(e.Scratch, "replay"), spec, cfg)
	r.Evaluations = 1
	if !oc.Rejected && oc.Panic == "" && len(oc.Problems) > 0 {
		r.Fail(res.Failure{Property: "C01", Kind: "replay:" + filepath.Base(path), Clause: problemClass(oc.Problems), Detail: problemsString(oc.Problems)})
	}
	fmt.Printf("replay: rejected=%v err=%s problems=%d\n%s\n", oc.Rejected, oc.ErrText, len(oc.Problems), problemsString(oc.Problems))
	return r
}

// cliBinary builds the goag CLI from the current tree once per run.
func cliBinary(e *Env) (string, error) {
	bin := filepath.Join(e.Scratch, "goag-cli")
	if _, err := os.Stat(bin); err == nil {
		return bin, nil
	}
	args := []string{"build", "-tags", "verif", "-o", bin}
	if mf := os.Getenv("VERIF_MODFILE"); mf != "" {
		args = append(args, "-modfile="+mf)
	}
	args = append(args, "github.com/vkd/goag/cmd/goag")
	cmd := exec.Command("go", args...)
	cmd.Dir = verifDir
	out, err := cmd.CombinedOutput()
	if err != nil {
		return "", fmt.Errorf("build goag CLI: %v: %s", err, out)
	}
	return bin, nil
}

func sortedLabelKeys(m map[string]int64) []string {
	var ks []string
	for k := range m {
		ks = append(ks, k)
	}
	sort.Strings(ks)
	return ks
}

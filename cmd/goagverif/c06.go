package main

import (
	"time"

	"pgregory.net/rapid"

	"verif/inproc"
	"verif/res"
	"verif/specgen"
)

const jsonFamilyRule = "rapid-drawn JSON-family specs: 3-8 component schemas over {13 primitive types, any, arrays, objects with required/optional/nullable properties and additionalProperties absent/true/false/schema, maps, allOf of 1-3 members in every ref/inline order, oneOf of 2-4 members with/without discriminator and mapping, $ref and alias chains}, nesting <=3, at component / property / items / additionalProperties / member / request-body / response-body positions (features behind known findings excluded by construction and counted)"

func init() {
	register(&Check{
		ID: "C06",
		Rule: jsonFamilyRule + "; for every component type and JSON request-body type, type-directed rapid values (boundary integers, finite floats incl. float32, escape-needing strings, nil/empty/non-empty slices and maps, hostile map keys disjoint from declared names, RawMessage with arbitrary valid JSON, zoned times, exactly one oneOf variant with a legal discriminator value); " +
			"oracle: MarshalJSON output is valid JSON, json.Marshal succeeds, json.Unmarshal of it succeeds and the result equals the value (nil == empty collection, times by instant, RawMessage up to JSON equivalence); " +
			"non-trivial = value with an unset optional, a null, a non-empty collection or an escape-needing string; distinct by (type, shape of the JSON)",
		Assume:    []string{"valid UTF-8 strings, finite floats, whole-minute zone offsets, years 1-9999 (DESIGN.md §11)"},
		Main:      func(e *Env) (*res.Result, error) { return jsonMain(e, "C06") },
		MinNonTrv: 500,
	})
	register(&Check{
		ID: "C07",
		Rule: jsonFamilyRule + "; the same type-directed values are encoded and the JSON is judged against the source schema by an independent validator: required present, no undeclared keys unless additionalProperties is declared, null only where nullable, declared JSON types and formats, allOf merged into one object, the discriminated oneOf variant; a fifth of the request-body values also travel through the generated client and the captured wire body is validated; every response type with a JSON body is returned from a handler with type-directed values and the bytes written are validated against the schema documented for that status; every response type with a JSON body is returned from a handler with type-directed values and the bytes written are validated against the schema documented for that status; " +
			"non-trivial = value with an unset optional, a null or a non-empty collection; distinct by (type, shape of the JSON)",
		Assume:    []string{"the purpose-built validator is the oracle; kin-openapi's schema visitor is not used for verdicts (v0.38 quirks must not become alarms)"},
		Main:      func(e *Env) (*res.Result, error) { return jsonMain(e, "C07") },
		MinNonTrv: 500,
	})
	register(&Check{
		ID: "C08",
		Rule: jsonFamilyRule + "; documents are generated FROM the schema by an independent generator (all optional subsets, null where nullable, extra keys where additionalProperties is declared and - tolerance only - where it is absent, chosen oneOf variant), rendered with rapid-chosen key order and whitespace, and a third carry one planted fault (drop one required key at any depth, or replace one declared single-typed property's value by a value of another JSON type); half of the request-body documents are sent over HTTP and read through Parse(); " +
			"oracle: valid => decodes without error and re-encodes to a schema-aware equivalent JSON value (undeclared keys on objects without the keyword need not survive); fault => rejected with an error naming the property; " +
			"non-trivial = every valid document with its shape and every mutant; distinct by (type, shape or fault site)",
		Assume:    []string{"faults are only the two kinds the statement names; bad formats, out-of-range numbers and duplicate keys are don't-cares"},
		Main:      func(e *Env) (*res.Result, error) { return jsonMain(e, "C08") },
		MinNonTrv: 500,
	})
	register(&Check{
		ID: "C09",
		Rule: "rapid-drawn parameter/body specs with --client: typed path variables (adjacent, between literals), query scalars and arrays, headers, operation/path-item level with overriding, inline / schema $ref / component parameter forms, JSON (inline/component/alias) and raw request bodies, base-path forms supplied by the caller in BaseURL; per operation type-directed rapid values of the generated XParams type (reserved URL characters, spaces, unicode, '..', boundary numbers, zoned times, empty optional strings, multi-element arrays); " +
			"oracle A: Client.<Op>(ctx, p) through an in-process transport (thorough: also a loopback httptest.Server) makes the handler's Parse() succeed with parameters equal to p (raw bodies by content); oracle B: the captured wire request satisfies the reference request validator (method, path matches the template under the base path, required parameters present, every value in its lexical space and location, JSON body valid for the schema); " +
			"non-trivial = value with an unset optional, an escape-needing string or a non-empty array; distinct by (operation, shape of the value)",
		Assume:    []string{"path values non-empty and '/'-free, required arrays non-empty, set-but-empty optional array == unset, times compared as instants, header strings are field-value text (DESIGN.md §11)", "kin-openapi's request validator is not used for verdicts"},
		Main:      c09Main,
		MinNonTrv: 500,
	})
}

func jsonMain(e *Env, id string) (*res.Result, error) {
	n := 48
	if !e.Quick() {
		n = 400
	}
	disabled := disabledTags()
	specs := collect(e, "JSON"+id, n, func(t *rapid.T) PkgSpec {
		c := specgen.NewCtx(t, disabled)
		c.NeedClient = id == "C07"
		c.JSONTimeLayouts = id == "C06" || id == "C07"
		d := c.JSONDoc()
		return PkgSpec{Doc: d, Cfg: inproc.Config{DoNotEdit: true, Client: id == "C07"}, Meta: map[string]any{"tags": tagList(c.Tags), "excluded": c.Excluded}}
	})
	return compiledMain(e, id, specs, false, 25*time.Minute)
}

func c09Main(e *Env) (*res.Result, error) {
	n := 48
	if !e.Quick() {
		n = 400
	}
	disabled := disabledTags()
	forms := specgen.BaseForms()
	specs := collect(e, "C09", n, func(t *rapid.T) PkgSpec {
		c := specgen.NewCtx(t, disabled)
		c.NeedClient = true
		bf := rapid.SampledFrom(forms).Draw(t, "baseform")
		c.RealisticHeaders = []string{"Content-Type", "Accept", "Accept-Language", "If-None-Match", "X-Request-Id"}
		d := c.ParamsDoc(true, true)
		d.Servers = bf.Servers
		// half of the specs carry security (bearer / api keys in header and query, globally
		// or per operation): the client sends the credential fields, the server reads them
		if rapid.Bool().Draw(t, "with_security") {
			// (header-borne schemes: the generated request type has a field for those; a key in
			// the query has none, so the client cannot authenticate such an operation at all)
			var names []string
			for _, k := range [][]string{{"bearer"}, {"apikey-header"}, {"bearer", "apikey-header"}, {"apikey-header", "apikey-header"}}[rapid.IntRange(0, 3).Draw(t, "scheme_set")] {
				n := c.SchemeName("sec", "scheme")
				c.Comps().SecuritySchemes = mapSet(c.Comps().SecuritySchemes, n, c.SchemeOf(k, n))
				names = append(names, n)
			}
			req := func() *[]map[string][]string {
				var alts []map[string][]string
				for _, n := range names[:rapid.IntRange(1, len(names)).Draw(t, "nalts")] {
					alts = append(alts, map[string][]string{n: {}})
				}
				return &alts
			}
			if rapid.Bool().Draw(t, "global_security") {
				d.Security = req()
			}
			for _, pi := range d.Paths {
				for _, mo := range pi.Ops() {
					if rapid.IntRange(0, 2).Draw(t, "op_security") == 0 {
						mo.Op.Security = req()
					}
				}
			}
			c.Tag("params:with-security")
		}
		return PkgSpec{Doc: d, Cfg: inproc.Config{DoNotEdit: true, Client: true, BasePath: bf.Flag}, Meta: map[string]any{"baseform": bf.Name, "tags": tagList(c.Tags)}}
	})
	return compiledMain(e, "C09", specs, false, 25*time.Minute)
}

func mapSet(m map[string]*specgen.SecurityScheme, k string, v *specgen.SecurityScheme) map[string]*specgen.SecurityScheme {
	if m == nil {
		m = map[string]*specgen.SecurityScheme{}
	}
	m[k] = v
	return m
}

// Command goagverif is the orchestrator of the goag verification checks
// (DESIGN.md §2.3). Usage:
//
//	goagverif run <ID> <quick|thorough>     run one check end to end
//	goagverif worker <ID> <tier> <i> <n> <out.json>   (internal) one in-process shard
//	goagverif replay <ID> <path>            re-run one saved case
package main

import (
	"encoding/json"
	"fmt"
	"os"
	"os/exec"
	"path/filepath"
	"runtime"
	"sort"
	"strconv"
	"strings"
	"sync"
	"time"

	"verif/known"
	"verif/res"
)

// verifDir is the root of the verification tree (run.sh exports VERIF_ROOT = its own
// directory, so a work copy of /verif runs against itself).
var verifDir = func() string {
	if v := os.Getenv("VERIF_ROOT"); v != "" {
		return v
	}
	return "/verif"
}()

type Tier string

type Env struct {
	ID      string
	Tier    string
	Seed    uint64
	Shard   int
	NShards int
	Scratch string // per-run scratch directory (removed by run.sh)
	Repo    string
	Known   *known.File
}

func (e *Env) Quick() bool { return e.Tier != "thorough" }

// A Check is either in-process (Worker runs in NShards subprocesses) or compiled
// (Main builds packages and a driver binary and runs its shards).
type Check struct {
	ID        string
	Rule      string
	Assume    []string
	Worker    func(e *Env) *res.Result              // in-process shard
	Main      func(e *Env) (*res.Result, error)     // compiled checks: whole pipeline
	Replay    func(e *Env, path string) *res.Result // optional
	Finalize  func(e *Env, r *res.Result)           // optional post-merge (vacuity guards)
	MinNonTrv int
}

var checks = map[string]*Check{}

func register(c *Check) {
	if a := ruleAddenda[c.ID]; a != "" {
		c.Rule += "; later additions: " + a
	}
	if c.Main != nil { // compiled checks
		c.Rule += ruleCommonAddendum
	}
	checks[c.ID] = c
}

func main() {
	if len(os.Args) < 2 {
		fmt.Fprintln(os.Stderr, "usage: goagverif run|worker|replay ...")
		os.Exit(2)
	}
	switch os.Args[1] {
	case "run":
		os.Exit(cmdRun(os.Args[2], os.Args[3]))
	case "worker":
		i, _ := strconv.Atoi(os.Args[4])
		n, _ := strconv.Atoi(os.Args[5])
		os.Exit(cmdWorker(os.Args[2], os.Args[3], i, n, os.Args[6]))
	case "replay":
		os.Exit(cmdReplay(os.Args[2], os.Args[3]))
	case "prep":
		os.Exit(cmdPrep(os.Args[2], os.Args[3], os.Args[4]))
	case "gen1":
		os.Exit(cmdGen1(os.Args[2], os.Args[3], os.Args[4] == "1"))
	default:
		fmt.Fprintln(os.Stderr, "unknown command", os.Args[1])
		os.Exit(2)
	}
}

func newEnv(id, tier string) *Env {
	seed := uint64(1)
	if s := os.Getenv("VERIF_SEED"); s != "" {
		if v, err := strconv.ParseUint(s, 10, 64); err == nil {
			seed = v
		} else if v, err := strconv.ParseInt(s, 10, 64); err == nil {
			seed = uint64(v)
		}
	}
	scratch := os.Getenv("VERIF_SCRATCH")
	if scratch == "" {
		d, err := os.MkdirTemp("", "goagverif.")
		if err != nil {
			panic(err)
		}
		scratch = d
	}
	repo := os.Getenv("VERIF_REPO")
	if repo == "" {
		repo = "/repo"
	}
	kf, err := known.Load(filepath.Join(verifDir, "KNOWN_FINDINGS.txt"))
	if err != nil {
		fmt.Fprintln(os.Stderr, "known findings:", err)
		os.Exit(2)
	}
	return &Env{ID: id, Tier: tier, Seed: seed, Scratch: scratch, Repo: repo, Known: kf, NShards: nShards()}
}

func nShards() int {
	if s := os.Getenv("VERIF_SHARDS"); s != "" {
		if v, err := strconv.Atoi(s); err == nil && v > 0 {
			return v
		}
	}
	n := runtime.NumCPU()
	if n > 16 {
		n = 16
	}
	return n
}

func cmdWorker(id, tier string, i, n int, out string) int {
	c := checks[id]
	if c == nil || c.Worker == nil {
		fmt.Fprintln(os.Stderr, "no worker for", id)
		return 2
	}
	e := newEnv(id, tier)
	e.Shard, e.NShards = i, n
	r := c.Worker(e)
	if err := r.WriteFile(out); err != nil {
		fmt.Fprintln(os.Stderr, err)
		return 2
	}
	return 0
}

// runWorkers launches the in-process shards as subprocesses of this binary.
func runWorkers(e *Env, timeout time.Duration) (*res.Result, []string) {
	self, _ := os.Executable()
	merged := res.New()
	var incon []string
	var mu sync.Mutex
	var wg sync.WaitGroup
	for i := 0; i < e.NShards; i++ {
		wg.Add(1)
		go func(i int) {
			defer wg.Done()
			out := filepath.Join(e.Scratch, fmt.Sprintf("worker-%s-%d.json", e.ID, i))
			cmd := exec.Command(self, "worker", e.ID, e.Tier, strconv.Itoa(i), strconv.Itoa(e.NShards), out)
			cmd.Env = append(os.Environ(), "VERIF_SCRATCH="+filepath.Join(e.Scratch, fmt.Sprintf("w%d", i)), fmt.Sprintf("VERIF_SEED=%d", e.Seed))
			os.MkdirAll(filepath.Join(e.Scratch, fmt.Sprintf("w%d", i)), 0o755)
			var stderr strings.Builder
			cmd.Stderr = &stderr
			cmd.Stdout = &stderr
			done := make(chan error, 1)
			if err := cmd.Start(); err != nil {
				mu.Lock()
				incon = append(incon, fmt.Sprintf("shard %d: start: %v", i, err))
				mu.Unlock()
				return
			}
			go func() { done <- cmd.Wait() }()
			var err error
			select {
			case err = <-done:
			case <-time.After(timeout):
				cmd.Process.Kill()
				<-done
				err = fmt.Errorf("timeout after %v", timeout)
			}
			mu.Lock()
			defer mu.Unlock()
			if err != nil {
				incon = append(incon, fmt.Sprintf("shard %d: %v: %s", i, err, tail(stderr.String(), 2000)))
				return
			}
			r, rerr := res.ReadFile(out)
			if rerr != nil {
				incon = append(incon, fmt.Sprintf("shard %d: read result: %v", i, rerr))
				return
			}
			merged.Merge(r, 8)
		}(i)
	}
	wg.Wait()
	return merged, incon
}

func tail(s string, n int) string {
	if len(s) > n {
		return "..." + s[len(s)-n:]
	}
	return s
}

func cmdRun(id, tier string) int {
	c := checks[id]
	if c == nil {
		fmt.Fprintln(os.Stderr, "unknown check", id)
		return 2
	}
	start := time.Now()
	e := newEnv(id, tier)
	var merged *res.Result
	var incon []string
	if c.Main != nil {
		r, err := c.Main(e)
		if r == nil {
			r = res.New()
		}
		merged = r
		if err != nil {
			incon = append(incon, err.Error())
		}
	} else {
		// the CLI binary is built once from the current tree and shared by the shards
		if cli, err := cliBinary(e); err == nil {
			os.Setenv("VERIF_CLI", cli)
		} else {
			incon = append(incon, err.Error())
		}
		timeout := 12 * time.Minute
		if tier == "thorough" {
			timeout = 40 * time.Minute
		}
		merged, incon = runWorkers(e, timeout)
	}
	merged.Inconclusive = append(merged.Inconclusive, incon...)
	if c.Finalize != nil {
		c.Finalize(e, merged)
	}
	return finish(e, c, merged, time.Since(start))
}

// finish triages failures against KNOWN_FINDINGS.txt, writes evidence and sets the
// exit status (0 held / 1 violation / 2 inconclusive).
func finish(e *Env, c *Check, r *res.Result, wall time.Duration) int {
	knownPrinted := map[string]bool{}
	violations := 0
	replayRoot := filepath.Join(verifDir, "replays", e.ID)
	if e.Repo != "/repo" {
		replayRoot = filepath.Join(verifDir, "replays", "selftest", e.ID)
	}
	var firstViolations []map[string]any
	sort.SliceStable(r.Failures, func(i, j int) bool { return r.Failures[i].Kind < r.Failures[j].Kind })
	seenKind := map[string]bool{}
	for _, f := range r.Failures {
		if ke := e.Known.MatchKind(e.ID, f.Kind); ke != nil {
			r.KnownHits[ke.ID]++
			if !knownPrinted[ke.ID] {
				knownPrinted[ke.ID] = true
				fmt.Printf("KNOWN-FINDING: property=%s id=%s %s\n", e.ID, ke.ID, ke.Text)
			}
			continue
		}
		violations++
		if seenKind[f.Kind] && violations > 20 {
			continue
		}
		seenKind[f.Kind] = true
		dir := filepath.Join(replayRoot, sanitize(f.Kind)+"-"+fmt.Sprintf("%08x", hash32(f.Detail)))
		os.MkdirAll(dir, 0o755)
		bs, _ := json.MarshalIndent(f, "", "  ")
		os.WriteFile(filepath.Join(dir, "failure.json"), bs, 0o644)
		writeReplayFiles(dir, f.Replay)
		fmt.Printf("VIOLATION property=%s replay=%s\n", e.ID, dir)
		fmt.Printf("  kind=%s clause=%s\n  %s\n", f.Kind, f.Clause, strings.ReplaceAll(tail(f.Detail, 1500), "\n", "\n  "))
		if len(firstViolations) < 5 {
			firstViolations = append(firstViolations, map[string]any{"kind": f.Kind, "clause": f.Clause, "detail": tail(f.Detail, 600), "replay": dir})
		}
	}
	for id, n := range r.KnownHits {
		if n > 0 && !knownPrinted[id] {
			for _, ke := range e.Known.Known {
				if ke.ID == id {
					knownPrinted[id] = true
					fmt.Printf("KNOWN-FINDING: property=%s id=%s %s\n", e.ID, ke.ID, ke.Text)
				}
			}
		}
	}
	if p := os.Getenv("VERIF_DUMP_LISTS"); p != "" {
		for k, v := range r.Lists {
			sort.Strings(v)
			os.WriteFile(p+"."+k, []byte(strings.Join(v, "\n")+"\n"), 0o644)
		}
	}
	distinct := r.Distinct()
	if c.MinNonTrv > 0 && distinct < c.MinNonTrv && violations == 0 {
		r.Inconclusive = append(r.Inconclusive, fmt.Sprintf("vacuity guard: only %d distinct non-trivial cases (< %d)", distinct, c.MinNonTrv))
	}
	cov := map[string]any{
		"evaluations":         r.Evaluations,
		"distinct_nontrivial": distinct,
		"rule":                c.Rule,
		"samples":             r.Samples,
		"labels":              r.Labels,
		"known_hits":          r.KnownHits,
		"inconclusive":        r.Inconclusive,
	}
	for k, v := range r.Extra {
		cov[k] = v
	}
	if len(firstViolations) > 0 {
		cov["violations_found"] = firstViolations
	}
	if len(r.Samples) == 0 {
		cov["samples"] = []any{"(no case was generated)"}
	}
	ev := map[string]any{
		"property_id": e.ID,
		"tier":        e.Tier,
		"seed":        int64(e.Seed & 0x7fffffffffffffff),
		"level":       "exploration",
		"coverage":    cov,
		"assumptions": c.Assume,
		"wall_s":      float64(int(wall.Seconds()*10)) / 10,
		"violations":  violations,
	}
	// sensitivity self-tests (VERIF_REPO pointing at a scratch copy) and replays must not
	// overwrite the evidence of the real tree
	evDir := filepath.Join(verifDir, "evidence")
	if e.Repo != "/repo" || os.Getenv("VERIF_NO_EVIDENCE") != "" {
		evDir = filepath.Join(e.Scratch, "evidence")
	}
	os.MkdirAll(evDir, 0o755)
	bs, _ := json.MarshalIndent(ev, "", " ")
	if err := os.WriteFile(filepath.Join(evDir, e.ID+".json"), append(bs, '\n'), 0o644); err != nil {
		fmt.Fprintln(os.Stderr, "write evidence:", err)
		return 2
	}
	fmt.Printf("%s %s seed=%d: evaluations=%d distinct_nontrivial=%d violations=%d known=%d inconclusive=%d wall=%.1fs\n",
		e.ID, e.Tier, e.Seed, r.Evaluations, distinct, violations, len(knownPrinted), len(r.Inconclusive), wall.Seconds())
	if violations > 0 {
		return 1
	}
	if len(r.Inconclusive) > 0 {
		for _, s := range r.Inconclusive {
			fmt.Printf("INCONCLUSIVE: %s\n", tail(s, 800))
		}
		return 2
	}
	return 0
}

func writeReplayFiles(dir string, replay any) {
	m, ok := replay.(map[string]any)
	if !ok {
		return
	}
	for k, v := range m {
		if s, ok := v.(string); ok && (strings.HasSuffix(k, ".json") || strings.HasSuffix(k, ".yaml") || strings.HasSuffix(k, ".txt") || strings.HasSuffix(k, ".go")) {
			os.WriteFile(filepath.Join(dir, k), []byte(s), 0o644)
		}
	}
}

func sanitize(s string) string {
	var b strings.Builder
	for _, r := range s {
		if r >= 'a' && r <= 'z' || r >= 'A' && r <= 'Z' || r >= '0' && r <= '9' || r == '-' || r == '_' || r == '.' {
			b.WriteRune(r)
		} else {
			b.WriteByte('_')
		}
		if b.Len() > 80 {
			break
		}
	}
	return b.String()
}

func hash32(s string) uint32 {
	h := uint32(2166136261)
	for i := 0; i < len(s); i++ {
		h ^= uint32(s[i])
		h *= 16777619
	}
	return h
}

func cmdReplay(id, path string) int {
	c := checks[id]
	if c == nil || c.Replay == nil {
		fmt.Fprintln(os.Stderr, "no replay for", id)
		return 2
	}
	os.Setenv("VERIF_NO_EVIDENCE", "1")
	e := newEnv(id, "quick")
	r := c.Replay(e, path)
	return finish(e, c, r, 0)
}

package main

import (
	"bufio"
	"encoding/json"
	"fmt"
	"os"
	"path/filepath"
	"sort"
	"strings"

	"pgregory.net/rapid"

	"verif/inproc"
	"verif/specgen"
)

// disabledTags reads /verif/DCORE_DISABLED.txt: feature tags switched off in the
// random generators because a known finding sits behind them (DESIGN.md §3.9).
func disabledTags() map[string]bool {
	out := specgen.LoadDisabledRows(filepath.Join(verifDir, "findings"))
	f, err := os.Open(filepath.Join(verifDir, "DCORE_DISABLED.txt"))
	if err != nil {
		return out
	}
	defer f.Close()
	sc := bufio.NewScanner(f)
	for sc.Scan() {
		line := strings.TrimSpace(sc.Text())
		if line == "" || strings.HasPrefix(line, "#") {
			continue
		}
		out[strings.Fields(line)[0]] = true
	}
	return out
}

// splitmix is a pure function of its inputs (used for deterministic, seed-derived
// choices on enumerated rows, where there is nothing for rapid to shrink).
func splitmix(x uint64) uint64 {
	x += 0x9E3779B97F4A7C15
	x = (x ^ (x >> 30)) * 0xBF58476D1CE4E5B9
	x = (x ^ (x >> 27)) * 0x94D049BB133111EB
	return x ^ (x >> 31)
}

func hashStr(s string) uint64 {
	h := uint64(14695981039346656037)
	for i := 0; i < len(s); i++ {
		h ^= uint64(s[i])
		h *= 1099511628211
	}
	return h
}

// allConfigs is the 2x2x2x4 configuration cross of DESIGN.md §3.7.
func allConfigs() []inproc.Config {
	var out []inproc.Config
	for _, client := range []bool{false, true} {
		for _, dne := range []bool{false, true} {
			for _, cors := range []bool{false, true} {
				for _, bp := range []string{"", "/x", "/x/y/", "/"} {
					out = append(out, inproc.Config{Client: client, DoNotEdit: dne, Cors: cors, BasePath: bp})
				}
			}
		}
	}
	return out
}

func drawConfig(t *rapid.T) inproc.Config {
	c := inproc.Config{
		Client:    rapid.Bool().Draw(t, "cfg_client"),
		DoNotEdit: rapid.Bool().Draw(t, "cfg_donotedit"),
		Cors:      rapid.Bool().Draw(t, "cfg_cors"),
		BasePath:  rapid.SampledFrom([]string{"", "", "/x", "/x/y/", "/"}).Draw(t, "cfg_basepath"),
	}
	if rapid.IntRange(0, 4).Draw(t, "cfg_spechandler") == 0 {
		c.SpecHandlerName = rapid.SampledFrom([]string{"spec.json", "api/openapi.yaml", "openapi"}).Draw(t, "cfg_spechandler_name")
	}
	if rapid.IntRange(0, 4).Draw(t, "cfg_package") == 0 {
		c.Package = rapid.SampledFrom([]string{"api", "petstore", "v1"}).Draw(t, "cfg_package_name")
	}
	return c
}

func cfgString(c inproc.Config) string {
	bs, _ := json.Marshal(c)
	return string(bs)
}

func tagList(m map[string]int) []string {
	var out []string
	for k := range m {
		out = append(out, k)
	}
	sort.Strings(out)
	return out
}

func problemsString(ps []inproc.Problem) string {
	var sb strings.Builder
	for i, p := range ps {
		if i > 0 {
			sb.WriteString("\n")
		}
		sb.WriteString(p.String())
	}
	return sb.String()
}

// expectedFiles returns the goag-owned file names a successful run must leave.
func expectedFiles(cfg inproc.Config, hasComponents bool) []string {
	var out []string
	if hasComponents {
		out = append(out, "components.go")
	}
	if cfg.Client {
		out = append(out, "client.go")
	}
	if !cfg.NoAPIHandler {
		out = append(out, "handler.go", "router.go", "spec_file.go")
	}
	sort.Strings(out)
	return out
}

func specHasOps(d *specgen.Doc) bool {
	for _, pi := range d.Paths {
		if len(pi.Ops()) > 0 {
			return true
		}
	}
	return false
}

func fmtErr(err error) string {
	if err == nil {
		return "<nil>"
	}
	return fmt.Sprint(err)
}

func jsonUnmarshal(bs []byte, v any) error { return json.Unmarshal(bs, v) }

package main

import (
	"strings"
	"time"

	"pgregory.net/rapid"

	"verif/inproc"
	"verif/res"
	"verif/specgen"
)

const respFamilyRule = "rapid-drawn response-family specs: operations (with/without operationId, incl. trailing-slash paths and the root path) x response sets of 0-3 numeric statuses plus optional default, each inline or a $ref into components/responses (alias chains <=3, one component shared by several operations and statuses, never twice in one operation nor as default and numbered), bodies JSON (schemas of the JSON dialect) / raw / none, 0-3 headers (required/optional, 13 primitive types, arrays, $ref schema, component headers, names in non-canonical letter case)"

func init() {
	register(&Check{
		ID: "C02",
		Rule: respFamilyRule + "; static half: per operation the registry's implementer set of the handler's result interface (go/types) is linked behaviourally to the documented responses (status written by a probe value) and must be a bijection; dynamic half: type-directed rapid values of every implementer are returned by a stub handler and the recorder is checked: status (caller's code for default), exactly one WriteHeader, Content-Type = the documented media type (absent without content), headers written = exactly the declared headers that are set, each parsing back to the field value under the reference lexical spaces, no undeclared header, body valid for the documented schema and equal to the Body field's encoding / the raw bytes / empty; " +
			"non-trivial = operation with >=2 documented responses, value with headers or a non-empty body; distinct by (operation, response type, shape of the value)",
		Assume:    []string{"default codes are drawn from 200-599 minus the documented statuses, 204 and 304", "header strings are field-value text; required header arrays non-empty", "when a response declares several media types the typed body is the application/json one (goag's documented choice); the other media types are not producible and not checked"},
		Main:      func(e *Env) (*res.Result, error) { return respMain(e, "C02", false) },
		MinNonTrv: 300,
	})
	register(&Check{
		ID: "C10",
		Rule: respFamilyRule + " generated with --client; (a) for every operation and implementer type, a type-directed rapid value is returned by the handler and Client.<Op> must return (r, nil) with r of the same Go type and equal Code, header fields and body (raw bodies by content); (b) a synthetic response with a status the operation does not document (body and headers written by a default-kind value when a default is declared) must come back as the default kind with that code, or as an error when no default is declared; " +
			"non-trivial = value with a set/unset optional header, non-empty array or body, and every undocumented-status case; distinct by (operation, response type, shape) / (operation, status)",
		Assume:    []string{"same value domain as C02"},
		Main:      func(e *Env) (*res.Result, error) { return respMain(e, "C10", true) },
		MinNonTrv: 300,
	})
}

func respMain(e *Env, id string, client bool) (*res.Result, error) {
	n := 48
	if !e.Quick() {
		n = 400
	}
	disabled := disabledTags()
	forms := specgen.BaseForms()
	specs := collect(e, "RESP"+id, n, func(t *rapid.T) PkgSpec {
		c := specgen.NewCtx(t, disabled)
		c.NeedClient = client
		bf := rapid.SampledFrom(forms).Draw(t, "baseform")
		d := c.ResponsesDoc()
		d.Servers = bf.Servers
		return PkgSpec{Doc: d, Cfg: inproc.Config{DoNotEdit: true, Client: client, BasePath: bf.Flag}, Meta: map[string]any{"tags": tagList(c.Tags), "baseform": bf.Name, "may_be_refused": c.MayBeRefused}}
	})
	// generator distribution: specs in which one response component serves >=2
	// distinct numeric statuses (across operations)
	shared := 0
	for _, s := range specs {
		use := map[string]map[string]bool{}
		for _, pi := range s.Doc.Paths {
			for _, mo := range pi.Ops() {
				for st, r := range mo.Op.Responses {
					if r.Ref == "" || st == "default" {
						continue
					}
					tgt := r.Ref
					for i := 0; i < 8; i++ {
						cr := s.Doc.Components.Responses[strings.TrimPrefix(tgt, specgen.RefResponses)]
						if cr == nil || cr.Ref == "" {
							break
						}
						tgt = cr.Ref
					}
					if use[tgt] == nil {
						use[tgt] = map[string]bool{}
					}
					use[tgt][st] = true
				}
			}
		}
		for _, sts := range use {
			if len(sts) >= 2 {
				shared++
				break
			}
		}
	}
	r, err := compiledMain(e, id, specs, false, 25*time.Minute)
	if r != nil {
		r.Extra["specs_with_component_shared_across_statuses"] = shared
	}
	return r, err
}

package main

import (
	"strings"
	"time"

	"pgregory.net/rapid"

	"verif/inproc"
	"verif/res"
	"verif/specgen"
)

func init() {
	register(&Check{
		ID: "C04",
		Rule: "rapid-drawn parameter declarations (13 primitive types x {query scalar, query array, header} x required/optional x {inline, schema $ref, component parameter} x {operation, path-item, path-item overridden at operation level}; 1-6 per operation), and per operation rapid-drawn requests: per parameter a cardinality {absent, one, many} and per value a lexeme of its type's classes (canonical, boundary, out-of-range, garbage, empty, don't-care), built with url.Values.Encode / Header.Add; " +
			"oracle: reference parser (three-valued lexical spaces, values via math/big): error iff a required parameter is absent, a scalar has several values or a value is outside the lexical space/range; the error names an offending parameter; on success every field equals the reference typed value and absent optionals are unset with zero Value; requests containing a don't-care lexeme only count for no-panic; " +
			"non-trivial = request with a non-canonical lexeme or non-unit cardinality; distinct by (operation, per-parameter cardinality and lexeme classes)",
		Assume:    []string{"lexical don't-cares of DESIGN.md §6.2 (+5, leading zeros, NaN/Inf, 1/0/t/f, lower-case t/z, second 60 …)", "header values are field-value text without leading/trailing whitespace", "no security on these operations (it injects header fields)"},
		Main:      c04Main,
		MinNonTrv: 2000,
	})
	register(&Check{
		ID: "C05",
		Rule: "C03's template sets with typed path variables (string, integer/int32/int64, number/float, boolean, date-time, $ref to a primitive component, component path parameters; adjacent variables; declaration order independent of template order; path-item vs operation level) x base-path forms; requests place per variable a lexeme of its type's classes or the empty segment; " +
			"oracle (conditional on dispatch to the intended template): a variable segment that is empty or outside the lexical space => Parse() fails naming that parameter; otherwise each field equals the typed value of exactly its own segment; " +
			"non-trivial = dispatched request to a template with >=1 variable; distinct by (template, per-position lexeme class)",
		Assume:    []string{"whether the dispatch itself is right is C03's question", "lexical don't-cares of DESIGN.md §6.2"},
		Main:      c05Main,
		MinNonTrv: 500,
	})
}

func c04Main(e *Env) (*res.Result, error) {
	n := 64
	if !e.Quick() {
		n = 480
	}
	disabled := disabledTags()
	specs := collect(e, "C04", n, func(t *rapid.T) PkgSpec {
		c := specgen.NewCtx(t, disabled)
		c.RealisticHeaders = []string{"Accept", "Accept-Language", "If-None-Match", "X-Request-Id"}
		d := c.ParamsDoc(false)
		// a third of the specs: one operation is secured by an api key carried in the query
		// under the very name of one of its declared query parameters
		if rapid.IntRange(0, 2).Draw(t, "query_key_named_like_parameter") == 0 {
		outer:
			for _, tpl := range specgen.SortedKeys(d.Paths) {
				for _, mo := range d.Paths[tpl].Ops() {
					for _, prm := range mo.Op.Parameters {
						// (a key name with $, brackets or a space is spliced into identifiers: C01-F08)
						if prm.Ref == "" && prm.In == "query" && strings.Trim(prm.Name, "abcdefghijklmnopqrstuvwxyzABCDEFGHIJKLMNOPQRSTUVWXYZ0123456789_-") == "" {
							d.Components = c.Comps()
							if d.Components.SecuritySchemes == nil {
								d.Components.SecuritySchemes = map[string]*specgen.SecurityScheme{}
							}
							d.Components.SecuritySchemes["querykey"] = &specgen.SecurityScheme{Type: "apiKey", In: "query", Name: prm.Name}
							mo.Op.Security = &[]map[string][]string{{"querykey": {}}}
							c.Tag("params:query-key-named-like-parameter")
							break outer
						}
					}
				}
			}
		}
		return PkgSpec{Doc: d, Cfg: inproc.Config{DoNotEdit: true}, Meta: map[string]any{"tags": tagList(c.Tags)}}
	})
	return compiledMain(e, "C04", specs, false, 20*time.Minute)
}

func c05Main(e *Env) (*res.Result, error) {
	n := 64
	if !e.Quick() {
		n = 480
	}
	specs := routerSpecs(e, "C05", n, true)
	// parameter-family specs with path variables: multi-byte constant segments, layouts,
	// a path variable declared on the path item and re-declared (other type) by an operation
	disabled := disabledTags()
	forms := specgen.BaseForms()
	specs = append(specs, collect(e, "C05p", n/3, func(t *rapid.T) PkgSpec {
		c := specgen.NewCtx(t, disabled)
		bf := rapid.SampledFrom(forms).Draw(t, "baseform")
		d := c.ParamsDoc(true)
		d.Servers = bf.Servers
		// C05 supplies path segments only: every query / header parameter is optional here
		optional := func(ps []*specgen.Parameter) {
			for _, p := range ps {
				if p.Ref == "" && p.In != "path" {
					p.Required = false
				}
			}
		}
		for _, pi := range d.Paths {
			optional(pi.Parameters)
			for _, mo := range pi.Ops() {
				optional(mo.Op.Parameters)
			}
		}
		if d.Components != nil {
			for _, p := range d.Components.Parameters {
				optional([]*specgen.Parameter{p})
			}
		}
		return PkgSpec{Doc: d, Cfg: inproc.Config{DoNotEdit: true, BasePath: bf.Flag}, Meta: map[string]any{"baseform": bf.Name, "tags": tagList(c.Tags)}}
	})...)
	return compiledMain(e, "C05", specs, false, 20*time.Minute)
}

//go:build !verif

package main

func templateCoverage() map[string]any {
	return map[string]any{"note": "built without -tags verif: no template coverage"}
}

package main

import (
	"strings"
	"time"

	"pgregory.net/rapid"

	"verif/inproc"
	"verif/res"
	"verif/specgen"
)

func init() {
	register(&Check{
		ID: "C11",
		Rule: "security configurations: schemes A,B drawn from {http bearer, apiKey header, apiKey query, http basic, oauth2, apiKey cookie, openIdConnect}, global in {none,[A],[A|B]}, and per spec path items realising every per-operation requirement {inherit, [], [A], [B], [A|B], [A&B]} on single-operation paths plus 2-4 paths whose 2-3 operations draw their own; per operation ALL 9 vectors of {absent, invalid, valid} credentials x {all authenticators installed, A nil, B nil}; " +
			"oracle: reference evaluator (effective requirement = own list else global; admitted iff some alternative has all schemes supported, installed, supplied and accepted): admitted => handler runs once and sees the request context returned by an accepting authenticator; otherwise 401 and no handler; " +
			"non-trivial = secured operation or request carrying a credential; distinct by (spec, operation, credential vector, nil mask)",
		Assume:    []string{"a spec goag refuses to generate is an allowed outcome", "bearer credentials are sent as 'Authorization: Bearer <token>'", "empty alternatives ({}) are outside the enumerated domain"},
		Main:      c11Main,
		MinNonTrv: 500,
	})
	register(&Check{
		ID: "C16",
		Rule: "router-family specs (template sets, method subsets incl. explicit OPTIONS, base-path forms, cors on/off) with bearer/apiKey security on some operations x middleware stacks of length 0..4 x {routed public, routed secured with absent/invalid/valid credentials, unrouted, spec-file, preflight/undeclared method} requests, every routed request served twice on the same API value; " +
			"oracle: per-request trace = enter0..enter(k-1), auth*, handler (or status 401), leave(k-1)..leave0, each exactly once; every middleware sees SchemaPath = the operation's template; unrouted, spec-file and preflight requests produce no enter event; " +
			"non-trivial = stack length >=2 on a routed request, or a bypassing request with a non-empty stack; distinct by (spec, class, stack length, request)",
		Assume:    []string{"whether a secured request is admitted is C11's question; C16 only demands the order of events"},
		Main:      c16Main,
		MinNonTrv: 500,
	})
	register(&Check{
		ID: "C17",
		Rule: "CORS-family specs: 1-5 templates, method subsets (incl. explicit OPTIONS), header parameters in several letter cases at path-item and operation level, bearer / apiKey-header / apiKey-query security (global, per operation, public override) x cors on/off x CORSHandler set/nil; one OPTIONS request per declared path; " +
			"oracle: expected(path) = (set of declared methods, set of canonicalised header parameters + Authorization for bearer + canonical apiKey header names): cors on, no own OPTIONS, handler set => CORSHandler constructed exactly once with exactly these sets (no duplicates, order free) and its response is served without user middlewares; own OPTIONS => its stub runs and no CORS handler; otherwise not found; " +
			"non-trivial = path with >=2 methods or >=1 header/security contribution; distinct by (spec, path, state, handler set)",
		Assume:    []string{"paths whose concrete instance is shadowed by a more literal template, and OPTIONS served by a less literal template (method fallback), are skipped"},
		Main:      c17Main,
		MinNonTrv: 100,
	})
}

func c11Main(e *Env) (*res.Result, error) {
	n := 160
	if !e.Quick() {
		n = 1200
	}
	disabled := disabledTags()
	specs := collect(e, "C11", n, func(t *rapid.T) PkgSpec {
		c := specgen.NewCtx(t, disabled)
		d := c.SecurityDoc(specgen.SchemeKinds)
		return PkgSpec{Doc: d, Cfg: inproc.Config{DoNotEdit: true, Cors: rapid.Bool().Draw(t, "cors")}, Meta: map[string]any{"tags": tagList(c.Tags)}}
	})
	return compiledMain(e, "C11", specs, false, 20*time.Minute)
}

func c16Main(e *Env) (*res.Result, error) {
	n := 160
	if !e.Quick() {
		n = 1200
	}
	disabled := disabledTags()
	nextForm := formWalker(e, specgen.BaseForms())
	specs := collect(e, "C16", n, func(t *rapid.T) PkgSpec {
		c := specgen.NewCtx(t, disabled)
		bf := nextForm()
		d := c.RouterDocWithSecurity()
		d.Servers = bf.Servers
		// a root-level single-variable template can match the spec path (any method)
		if rapid.IntRange(0, 2).Draw(t, "catch_all") == 0 {
			hasRootVar := false
			for tpl := range d.Paths {
				if strings.HasPrefix(tpl, "/{") && strings.Count(strings.TrimSuffix(tpl, "/"), "/") == 1 {
					hasRootVar = true
				}
			}
			if !hasRootVar {
				v := c.PlainName("v", "catchall")
				op := func() *specgen.Operation {
					return &specgen.Operation{Parameters: []*specgen.Parameter{{Name: v, In: "path", Required: true, Schema: &specgen.Schema{Type: "string"}}}, Responses: specgen.EmptyResponses()}
				}
				d.Paths["/{"+v+"}"] = &specgen.PathItem{Get: op(), Put: op(), Delete: op()}
			}
		}
		cfg := inproc.Config{BasePath: bf.Flag, DoNotEdit: true, Cors: rapid.Bool().Draw(t, "cors")}
		cfg.SpecHandlerName = rapid.SampledFrom([]string{"openapi.yaml", "openapi.yaml", "spec.json", "docs/openapi.yaml", ".openapi.yaml"}).Draw(t, "spec_handler_name")
		return PkgSpec{Doc: d, Cfg: cfg, Meta: map[string]any{"baseform": bf.Name}}
	})
	return compiledMain(e, "C16", specs, false, 20*time.Minute)
}

func c17Main(e *Env) (*res.Result, error) {
	n := 200
	if !e.Quick() {
		n = 1200
	}
	disabled := disabledTags()
	forms := specgen.BaseForms()
	specs := collect(e, "C17", n, func(t *rapid.T) PkgSpec {
		c := specgen.NewCtx(t, disabled)
		bf := rapid.SampledFrom(forms).Draw(t, "baseform")
		d := c.CorsDoc()
		d.Servers = bf.Servers
		return PkgSpec{Doc: d, Cfg: inproc.Config{BasePath: bf.Flag, DoNotEdit: true, Cors: rapid.IntRange(0, 3).Draw(t, "cors") != 0}, Meta: map[string]any{"baseform": bf.Name}}
	})
	return compiledMain(e, "C17", specs, false, 20*time.Minute)
}

package main

import (
	"time"

	"verif/res"
)

func init() {
	register(&Check{
		ID: "C20",
		Rule: "kitchen-sink, fixture and rapid-drawn composition packages generated with --client and linked into a driver built with -race; per package rapid-drawn rounds: 16/32/64 goroutines released by a barrier, each issuing 1-3 client calls over mixed operations (typed path/query/header parameters, JSON and raw bodies) through ONE API value and ONE Client, in-process or over a loopback httptest.Server, with 0-3 yielding middlewares appended one at a time, spec handler installed, rapid-drawn Gosched points in the stubs, GOMAXPROCS in {1,2,4,16}, BaseURL with and without a trailing slash; " +
			"oracle: every request carries a unique tag; the stub looks the planned request up by tag and the parsed parameters must equal exactly what that caller sent (projection to a type-name-free tree), and answers with the response planned for the tag, which the caller must receive (same kind, code, headers, body); the race detector must stay silent (GORACE=halt_on_error=1); " +
			"non-trivial = round touching >=3 operations (or all of them); distinct by (package, goroutines, calls, GOMAXPROCS, transport, middlewares)",
		Assume:    []string{"the harness does not own the scheduler: a bug needing one specific interleaving can be missed (DESIGN.md §12); the race detector's happens-before analysis covers the accesses that execute", "operations with security requirements are exercised by the other checks only (their request types carry injected credential fields)"},
		Main:      c20Main,
		MinNonTrv: 20,
	})
}

func c20Main(e *Env) (*res.Result, error) {
	n := 8
	if !e.Quick() {
		n = 50
	}
	specs := robustSpecs(e, "C20", n, true)
	return compiledMain(e, "C20", specs, true, 30*time.Minute, "GORACE=halt_on_error=1 exitcode=66")
}

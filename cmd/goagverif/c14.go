package main

import (
	"encoding/json"
	"fmt"
	"os"
	"os/exec"
	"path/filepath"
	"regexp"
	"strconv"
	"time"

	"gopkg.in/yaml.v3"
	"pgregory.net/rapid"

	"verif/inproc"
	"verif/res"
	"verif/specgen"
)

func init() {
	register(&Check{
		ID: "C14",
		Rule: "packages: a hand-built kitchen-sink spec (typed path/query/header parameters, arrays, JSON bodies of every kind, oneOf with/without discriminator, allOf, raw bodies, security of three kinds, explicit OPTIONS, base path), the repository's fixture specs that need no user package, and rapid-drawn compositions; every handler, authenticator, CORS / spec handler and a middleware installed; requests are rapid-structured near the declared shapes (lexemes of the declared types and hostile constants in path segments, query and header values; truncated / over-long / doubled-slash / base-path-near-miss paths; every method incl. unknown ones; bodies valid / truncated / deeply nested / wrong-typed / empty / garbage / huge; odd Content-Types), half of them serialised and re-read with http.ReadRequest; thorough adds native coverage-guided fuzzing of raw request bytes through http.ReadRequest; " +
			"oracle inside the target: no panic in ServeHTTP or in Parse() (called by every stub), Parse() yields a value or an error, and exactly one WriteHeader per request; " +
			"non-trivial = request that reaches a stub or fails in Parse(); distinct by (package, outcome class, operation, body kind, method matches)",
		Assume:    []string{"requests are those net/http can deliver (http.ReadRequest / httptest.NewRequest; Body non-nil)", "three quarters of the requests go through an API with every hook installed, one quarter through the same API with every optional hook (CORS, spec file, not-found handler, authenticators, middlewares) left nil", "native fuzzing cannot be pinned to VERIF_SEED: the saved crasher is the reproducible unit"},
		Main:      c14Main,
		MinNonTrv: 300,
	})
}

// robustSpecs: kitchen sink + fixtures + compositions (shared by C14 and C20).
func robustSpecs(e *Env, family string, nComp int, client bool) []PkgSpec {
	var specs []PkgSpec
	for i, d := range specgen.KitchenSink() {
		// (goag's client cannot format a parameter that is an array of arrays and refuses
		// the spec: with --client the kitchen sink goes without that operation)
		if client {
			delete(d.Paths, "/matrix")
		}
		specs = append(specs, PkgSpec{Name: fmt.Sprintf("pkitchen%02d", i), Doc: d, Cfg: inproc.Config{DoNotEdit: true, Cors: true, Client: client}, Meta: map[string]any{"origin": "kitchen-sink"}})
	}
	skip := map[string]bool{"get_custom_params": true, "custom_type": true, "post_custom_type": true, "schema_one_of": true}
	fixtures, _ := filepath.Glob(filepath.Join(e.Repo, "tests", "*", "openapi.yaml"))
	fixtures = append(fixtures, filepath.Join(e.Repo, "examples", "petstore", "openapi.yaml"))
	for i, f := range fixtures {
		if skip[filepath.Base(filepath.Dir(f))] {
			continue
		}
		bs, err := os.ReadFile(f)
		if err != nil {
			continue
		}
		var tree any
		if yaml.Unmarshal(bs, &tree) != nil {
			continue
		}
		js, err := json.Marshal(tree)
		if err != nil {
			continue
		}
		if _, err := specgen.ParseDoc(js); err != nil {
			continue
		}
		specs = append(specs, PkgSpec{Name: fmt.Sprintf("pfixture%02d", i), Raw: js, Cfg: inproc.Config{DoNotEdit: true, Client: client, Cors: i%2 == 0}, Meta: map[string]any{"origin": "fixture:" + filepath.Base(filepath.Dir(f))}})
	}
	disabled := disabledTags()
	forms := specgen.BaseForms()
	comps := collect(e, family, nComp, func(t *rapid.T) PkgSpec {
		c := specgen.NewCtx(t, disabled)
		c.NeedClient = client
		bf := rapid.SampledFrom(forms).Draw(t, "baseform")
		d := c.Composition(specgen.DefaultCompOpts())
		d.Servers = bf.Servers
		return PkgSpec{Doc: d, Cfg: inproc.Config{DoNotEdit: true, Client: client, Cors: rapid.Bool().Draw(t, "cors"), BasePath: bf.Flag}, Meta: map[string]any{"origin": "composition"}}
	})
	return append(specs, comps...)
}

func c14Main(e *Env) (*res.Result, error) {
	n := 30
	if !e.Quick() {
		n = 300
	}
	specs := robustSpecs(e, "C14", n, false)
	r, err := compiledMain(e, "C14", specs, false, 30*time.Minute)
	if !e.Quick() && c14Fuzz != nil {
		fr, ferr := c14Fuzz(e)
		if fr != nil && r != nil {
			r.Merge(fr, 12)
		}
		if ferr != nil && err == nil {
			err = ferr
		}
	}
	return r, err
}

var c14Fuzz func(e *Env) (*res.Result, error)

func init() { c14Fuzz = c14FuzzMain }

// c14FuzzMain: native coverage-guided fuzzing (thorough tier only), seeded and with
// an empty corpus, 16 workers, bounded -fuzztime.
func c14FuzzMain(e *Env) (*res.Result, error) {
	r := res.New()
	sub := *e
	sub.ID = "C14fuzz"
	specs := robustSpecs(&sub, "C14fuzz", 12, false)
	_, root, kept, _, err := buildDriver(&sub, specs, false)
	if err != nil {
		return r, err
	}
	budget := 150 * time.Second
	if s := os.Getenv("VERIF_FUZZTIME"); s != "" {
		if d, derr := time.ParseDuration(s); derr == nil {
			budget = d
		}
	}
	var incon []string
	for _, mode := range []string{"seeded", "empty"} {
		args := []string{"test", "-run", "^$", "-fuzz", "^FuzzServe$", "-fuzztime", budget.String(), "-parallel", fmt.Sprint(e.NShards), "."}
		cmd := execCommand(root, append(os.Environ(), "VERIF_DRV_DIR="+root, "GOFLAGS=-mod=mod", "GOPROXY=off", "GOSUMDB=off", "GOTOOLCHAIN=local", map[string]string{"seeded": "VERIF_FUZZ_EMPTY_CORPUS=", "empty": "VERIF_FUZZ_EMPTY_CORPUS=1"}[mode]), "go", args...)
		out, runErr := cmd.CombinedOutput()
		text := string(out)
		execs := lastFuzzExecs(text)
		r.Evaluations += execs
		r.LabelN("native-fuzz:"+mode+":execs", execs)
		r.Extra["native_fuzz_"+mode] = map[string]any{"packages": len(kept), "fuzztime": budget.String(), "execs": execs, "tail": tail(text, 300)}
		if runErr != nil {
			crashers, _ := filepath.Glob(filepath.Join(root, "testdata", "fuzz", "FuzzServe", "*"))
			if len(crashers) > 0 {
				bs, _ := os.ReadFile(crashers[0])
				r.Fail(res.Failure{Property: "C14", Kind: "native-fuzz-crasher", Clause: "native-fuzz", Detail: "native fuzzing (" + mode + " corpus) found a failing input: " + tail(text, 1500),
					Replay: map[string]any{"crasher.txt": string(bs)}})
			} else {
				incon = append(incon, "native fuzzing ("+mode+") ended abnormally: "+tail(text, 600))
			}
			break
		}
	}
	if len(incon) > 0 {
		return r, fmt.Errorf("%v", incon)
	}
	return r, nil
}

func execCommand(dir string, env []string, name string, args ...string) *exec.Cmd {
	cmd := exec.Command(name, args...)
	cmd.Dir = dir
	cmd.Env = env
	return cmd
}

var reExecs = regexp.MustCompile(`execs: (\d+)`)

func lastFuzzExecs(out string) int64 {
	ms := reExecs.FindAllStringSubmatch(out, -1)
	if len(ms) == 0 {
		return 0
	}
	n, _ := strconv.ParseInt(ms[len(ms)-1][1], 10, 64)
	return n
}

package main

import (
	"fmt"
	"os"
	"os/exec"
	"path/filepath"
	"strings"
	"time"

	"pgregory.net/rapid"

	"verif/inproc"
	"verif/res"
	"verif/rt"
	"verif/specgen"
)

func init() {
	register(&Check{
		ID: "C18",
		Rule: "pairs (S, S'): S rapid-drawn from the JSON, parameter/body, response and composition families; S' = inline-all (every $ref to a schema, parameter, header, request body or response replaced by a copy of its ultimate target), hoist-all (every inline schema / parameter / response moved to a fresh component, one per site) or a rapid-chosen partial mix, each site rewritten only where the result stays inside the dialect; both are generated and compiled into one binary; " +
			"oracle (metamorphic): shared raw requests (path segments, query, headers from the per-type lexeme classes; JSON bodies from the schema-directed generator and their single-fault mutants) must be routed to the same template, accepted/rejected alike and parsed to equal values after projection to a type-name-free tree; response values drawn in S and injected into S' must be written with the same status, header map and JSON-equivalent body; a rewritten side that does not compile while the original does is a violation; byte-level companion: with customTypes.ignore in the config, a parameter/body spec and the same spec with x-goag-go-type annotations on a third of its primitive schemas (inline and component parameter schemas included) must generate identical files; " +
			"non-trivial = pair whose rewrite changed >=1 site; distinct by (pair, operation, input class)",
		Assume:    []string{"pairs where goag refuses one side are outside the domain", "hoisting never merges two sites into one component", "composite (allOf/oneOf) targets are not inlined at non-component positions"},
		Main:      c18Main,
		MinNonTrv: 200,
	})
}

func c18Main(e *Env) (*res.Result, error) {
	n := 64
	if !e.Quick() {
		n = 400
	}
	disabled := disabledTags()
	// (specs that break goag's default/numbered restriction on shared responses may be
	// refused on one side only: not a pair C18 can use)
	disabled18 := map[string]bool{"responses:break-restriction": true}
	for k, v := range disabled {
		disabled18[k] = v
	}
	forms := specgen.BaseForms()
	type pair struct{ a, b PkgSpec }
	var pairs []pair
	collect(e, "C18", n, func(t *rapid.T) PkgSpec {
		c := specgen.NewCtx(t, disabled18)
		c.LowerCompNames = true
		fam := rapid.SampledFrom([]string{"json", "params", "responses", "composition"}).Draw(t, "family")
		var d *specgen.Doc
		switch fam {
		case "json":
			d = c.JSONDoc()
		case "params":
			d = c.ParamsDoc(true, true)
		case "responses":
			d = c.ResponsesDoc()
		default:
			o := specgen.DefaultCompOpts()
			o.Security, o.Texts = false, false
			d = c.Composition(o)
		}
		// component names are case-sensitive: a twin that differs from an existing object
		// component in the case of its first letter only, with another shape, referenced
		// from an operation of its own
		if d.Components != nil && rapid.IntRange(0, 2).Draw(t, "case_twin") == 0 {
			for _, name := range specgen.SortedKeys(d.Components.Schemas) {
				cs := d.Components.Schemas[name]
				if cs == nil || cs.Ref != "" || cs.Type != "object" || len(name) < 2 {
					continue
				}
				twin := strings.ToLower(name[:1]) + name[1:]
				if twin == name {
					twin = strings.ToUpper(name[:1]) + name[1:]
				}
				if _, taken := d.Components.Schemas[twin]; taken || twin == name {
					continue
				}
				prop := c.SafeName("tw", "twinprop")
				d.Components.Schemas[twin] = &specgen.Schema{Type: "object", Properties: map[string]*specgen.Schema{prop: {Type: "integer", Format: "int32"}}, Required: []string{prop}}
				op := &specgen.Operation{RequestBody: &specgen.RequestBody{Required: true, Content: specgen.JSONContent(&specgen.Schema{Ref: specgen.RefSchemas + twin})},
					Responses: map[string]*specgen.Response{"200": {Description: specgen.Str("ok"), Content: specgen.JSONContent(&specgen.Schema{Ref: specgen.RefSchemas + twin})}}}
				d.Paths["/"+c.PlainName("twin", "twinpath")] = &specgen.PathItem{Put: op}
				c.Tag("components:case-twin")
				break
			}
		}
		// a component that is an array of sized integers, used as a property and as a body
		// (a component array decodes its items itself, an inline one is left to encoding/json)
		if rapid.IntRange(0, 2).Draw(t, "sized_int_array") == 0 {
			if d.Components == nil {
				d.Components = &specgen.Components{}
			}
			if d.Components.Schemas == nil {
				d.Components.Schemas = map[string]*specgen.Schema{}
			}
			format := rapid.SampledFrom([]string{"int32", "int32", "int64", ""}).Draw(t, "sized_int_format")
			list := c.CompName("Ints", "sizedints")
			d.Components.Schemas[list] = &specgen.Schema{Type: "array", Items: &specgen.Schema{Type: "integer", Format: format}}
			prop := c.SafeName("counts", "sizedintsprop")
			body := &specgen.Schema{Type: "object", Properties: map[string]*specgen.Schema{prop: {Ref: specgen.RefSchemas + list}, "n": {Type: "integer", Format: format}}, Required: []string{prop}}
			base := "/" + c.PlainName("ints", "sizedintspath")
			d.Paths[base] = &specgen.PathItem{Post: &specgen.Operation{RequestBody: &specgen.RequestBody{Required: true, Content: specgen.JSONContent(body)}, Responses: specgen.EmptyResponses()},
				Put: &specgen.Operation{RequestBody: &specgen.RequestBody{Required: true, Content: specgen.JSONContent(&specgen.Schema{Ref: specgen.RefSchemas + list})}, Responses: specgen.EmptyResponses()}}
			c.Tag("components:sized-integer-array")
		}
		bf := rapid.SampledFrom(forms).Draw(t, "baseform")
		d.Servers = bf.Servers
		cfg := inproc.Config{DoNotEdit: true, BasePath: bf.Flag}
		orig := specgen.CloneDoc(d)
		kind := rapid.SampledFrom([]string{"inline-all", "hoist-all", "partial"}).Draw(t, "rewrite")
		rw := &specgen.Rewriter{C: c}
		if kind == "partial" {
			mask := rapid.SliceOfN(rapid.Bool(), 64, 64).Draw(t, "mask")
			rw.Decide = func(i int, s specgen.Site) bool { return mask[i%len(mask)] }
		}
		switch kind {
		case "inline-all":
			rw.InlineRefs()
		case "hoist-all":
			rw.HoistInline()
		default:
			rw.InlineRefs()
			rw.HoistInline()
		}
		changed := specgen.SiteSummary(rw.Changed)
		i := len(pairs)
		na, nb := fmt.Sprintf("pc18a%04d", i), fmt.Sprintf("pc18b%04d", i)
		pairs = append(pairs, pair{
			PkgSpec{Name: na, Doc: orig, Cfg: cfg, Meta: map[string]any{"side": "A", "other": nb, "rewrite": kind, "family": fam, "changed": changed, "baseform": bf.Name}},
			PkgSpec{Name: nb, Doc: c.Doc, Cfg: cfg, Meta: map[string]any{"side": "B", "other": na, "rewrite": kind, "family": fam}},
		})
		return PkgSpec{Doc: orig}
	})
	var specs []PkgSpec
	for _, p := range pairs {
		if len(specs) >= 2*n {
			break
		}
		specs = append(specs, p.a, p.b)
	}
	r, err := compiledMain(e, "C18", specs, false, 25*time.Minute)
	if r != nil {
		c18IgnoredCustomTypes(e, r)
	}
	return r, err
}

// c18IgnoredCustomTypes is a byte-level metamorphic companion of C18: with
// `customTypes: {ignore: true}` in the config an x-goag-go-type annotation has no
// effect, wherever it stands - on an inline parameter schema, on the schema of a
// components/parameters entry that operations $ref, on a component schema, on a
// property. The spec with annotations and the spec without them must therefore
// generate byte-identical packages (run in child processes: goag is not used
// concurrently in one process).
func c18IgnoredCustomTypes(e *Env, r *res.Result) {
	self, err := os.Executable()
	if err != nil {
		return
	}
	n := 24
	if !e.Quick() {
		n = 200
	}
	dir := filepath.Join(e.Scratch, "c18ignore")
	os.MkdirAll(dir, 0o755)
	disabled := disabledTags()
	var lastFail *res.Failure
	prop := func(t *rapid.T) {
		c := specgen.NewCtx(t, disabled)
		c.NeedClient = true
		d := c.ParamsDoc(true, true)
		plain := d.JSON()
		var root map[string]any
		if jsonUnmarshal(plain, &root) != nil {
			return
		}
		var sites []site
		collectSites(root, nil, &sites)
		marked := 0
		for _, s := range sites {
			m, ok := s.get().(map[string]any)
			if !ok || m["in"] != nil {
				continue
			}
			ty, _ := m["type"].(string)
			if ty == "" || ty == "array" || ty == "object" || rapid.IntRange(0, 2).Draw(t, "annotate") != 0 {
				continue
			}
			m["x-goag-go-type"] = rapid.SampledFrom([]string{"github.com/acme/types.Tenant", "types.ID", "github.com/acme/shop/pkg.Money"}).Draw(t, "gotype")
			marked++
		}
		if marked == 0 {
			return
		}
		annotated := mustIndent(root)
		gen := func(name string, spec []byte) (map[string]string, string) {
			sp := filepath.Join(dir, name+".json")
			out := filepath.Join(dir, name)
			os.RemoveAll(out)
			os.MkdirAll(out, 0o755)
			os.WriteFile(sp, spec, 0o644)
			cmd := exec.Command(self, "gen1", sp, out, "1")
			cmd.Env = append(os.Environ(), "VERIF_GEN1_CUSTOM_TYPES_IGNORE=1")
			bs, _ := cmd.CombinedOutput()
			dg, _ := dirDigest(filepath.Join(out, "gen"))
			delete(dg, "spec_file.go") // embeds the spec text, which differs by construction
			return dg, string(bs)
		}
		a, outA := gen("plain", plain)
		b, outB := gen("annotated", annotated)
		r.Evaluations++
		if len(a) == 0 || len(b) == 0 {
			if (len(a) == 0) != (len(b) == 0) {
				lastFail = &res.Failure{Property: "C18", Kind: "ignored-custom-types:one-side-refused", Clause: "ignored-custom-types",
					Detail: fmt.Sprintf("with customTypes.ignore the annotated spec and the plain spec must fare alike: plain -> %d files (%s), annotated -> %d files (%s)", len(a), clip(outA, 200), len(b), clip(outB, 200)),
					Replay: map[string]any{"openapi.json": string(annotated), "plain.openapi.json": string(plain), "config.json": `{"client":true,"custom_types_ignore":true}`}}
				t.Fatalf("%s", lastFail.Detail)
			}
			return
		}
		r.NonTrivial("C18-ignore", hashStr(string(annotated)))
		r.Label("ignored-custom-types:compared")
		if digestString(a) != digestString(b) {
			lastFail = &res.Failure{Property: "C18", Kind: "ignored-custom-types:output-differs", Clause: "ignored-custom-types",
				Detail: fmt.Sprintf("customTypes.ignore is on, yet %d x-goag-go-type annotations changed the generated files [%s]", marked, diffDigests(a, b)),
				Replay: map[string]any{"openapi.json": string(annotated), "plain.openapi.json": string(plain), "config.json": `{"client":true,"custom_types_ignore":true}`}}
			t.Fatalf("%s", lastFail.Detail)
		}
	}
	ok, _ := rt.Check("C18-ignore", rt.Seed(e.Seed, rt.SeedStr("C18-ignore")), n, 20*time.Second, prop)
	if !ok && lastFail != nil {
		r.Fail(*lastFail)
	}
}

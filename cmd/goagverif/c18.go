package main

import (
	"fmt"
	"time"

	"pgregory.net/rapid"

	"verif/inproc"
	"verif/res"
	"verif/specgen"
)

func init() {
	register(&Check{
		ID: "C18",
		Rule: "pairs (S, S'): S rapid-drawn from the JSON, parameter/body, response and composition families; S' = inline-all (every $ref to a schema, parameter, header, request body or response replaced by a copy of its ultimate target), hoist-all (every inline schema / parameter / response moved to a fresh component, one per site) or a rapid-chosen partial mix, each site rewritten only where the result stays inside the dialect; both are generated and compiled into one binary; " +
			"oracle (metamorphic): shared raw requests (path segments, query, headers from the per-type lexeme classes; JSON bodies from the schema-directed generator and their single-fault mutants) must be routed to the same template, accepted/rejected alike and parsed to equal values after projection to a type-name-free tree; response values drawn in S and injected into S' must be written with the same status, header map and JSON-equivalent body; a rewritten side that does not compile while the original does is a violation; " +
			"non-trivial = pair whose rewrite changed >=1 site; distinct by (pair, operation, input class)",
		Assume:    []string{"pairs where goag refuses one side are outside the domain", "hoisting never merges two sites into one component", "composite (allOf/oneOf) targets are not inlined at non-component positions"},
		Main:      c18Main,
		MinNonTrv: 200,
	})
}

func c18Main(e *Env) (*res.Result, error) {
	n := 40
	if !e.Quick() {
		n = 300
	}
	disabled := disabledTags()
	forms := specgen.BaseForms()
	type pair struct{ a, b PkgSpec }
	var pairs []pair
	collect(e, "C18", n, func(t *rapid.T) PkgSpec {
		c := specgen.NewCtx(t, disabled)
		c.LowerCompNames = true
		fam := rapid.SampledFrom([]string{"json", "params", "responses", "composition"}).Draw(t, "family")
		var d *specgen.Doc
		switch fam {
		case "json":
			d = c.JSONDoc()
		case "params":
			d = c.ParamsDoc(true, true)
		case "responses":
			d = c.ResponsesDoc()
		default:
			o := specgen.DefaultCompOpts()
			o.Security, o.Texts = false, false
			d = c.Composition(o)
		}
		bf := rapid.SampledFrom(forms).Draw(t, "baseform")
		d.Servers = bf.Servers
		cfg := inproc.Config{DoNotEdit: true, BasePath: bf.Flag}
		orig := specgen.CloneDoc(d)
		kind := rapid.SampledFrom([]string{"inline-all", "hoist-all", "partial"}).Draw(t, "rewrite")
		rw := &specgen.Rewriter{C: c}
		if kind == "partial" {
			mask := rapid.SliceOfN(rapid.Bool(), 64, 64).Draw(t, "mask")
			rw.Decide = func(i int, s specgen.Site) bool { return mask[i%len(mask)] }
		}
		switch kind {
		case "inline-all":
			rw.InlineRefs()
		case "hoist-all":
			rw.HoistInline()
		default:
			rw.InlineRefs()
			rw.HoistInline()
		}
		changed := specgen.SiteSummary(rw.Changed)
		i := len(pairs)
		na, nb := fmt.Sprintf("pc18a%04d", i), fmt.Sprintf("pc18b%04d", i)
		pairs = append(pairs, pair{
			PkgSpec{Name: na, Doc: orig, Cfg: cfg, Meta: map[string]any{"side": "A", "other": nb, "rewrite": kind, "family": fam, "changed": changed, "baseform": bf.Name}},
			PkgSpec{Name: nb, Doc: c.Doc, Cfg: cfg, Meta: map[string]any{"side": "B", "other": na, "rewrite": kind, "family": fam}},
		})
		return PkgSpec{Doc: orig}
	})
	var specs []PkgSpec
	for _, p := range pairs {
		if len(specs) >= 2*n {
			break
		}
		specs = append(specs, p.a, p.b)
	}
	return compiledMain(e, "C18", specs, false, 25*time.Minute)
}

package main

import (
	"encoding/json"
	"fmt"
	"os"
	"os/exec"
	"path/filepath"
	"strconv"
	"strings"
	"sync"
	"time"

	"pgregory.net/rapid"

	"verif/inproc"
	"verif/registry"
	"verif/res"
	"verif/rt"
	"verif/specgen"
)

// PkgSpec is one generated program of a compiled check.
type PkgSpec struct {
	Name string
	Doc  *specgen.Doc
	Raw  []byte // spec file bytes (default: Doc.JSON())
	Cfg  inproc.Config
	Meta map[string]any
	// Embed, when non-nil, is the spec-file content handed to goag as raw bytes while
	// Raw/Doc is the document it parses (C13 served half).
	Embed []byte
}

// collect draws n specs with rapid in collect mode: the property function records
// what was drawn and passes (DESIGN.md §2.1).
func collect(e *Env, family string, n int, draw func(t *rapid.T) PkgSpec) []PkgSpec {
	var out []PkgSpec
	prop := func(t *rapid.T) {
		s := draw(t)
		// (C18 draws its documents in pairs and plants its own twins)
		if family != "C18" && s.Doc != nil {
			if n := specgen.AddCaseTwins(t, s.Doc); n > 0 {
				if s.Meta == nil {
					s.Meta = map[string]any{}
				}
				s.Meta["case_twin_components"] = n
			}
		}
		if family != "C18" && s.Doc != nil && s.Raw == nil {
			specgen.DecorateOps(t, s.Doc)
		}
		// a third of the documents carries vendor extensions of other tools, which goag ignores
		if family != "C18" && s.Doc != nil && s.Raw == nil && rapid.IntRange(0, 2).Draw(t, "foreign_extensions") == 0 {
			if raw, n := specgen.DecorateForeign(t, s.Doc.JSON()); n > 0 {
				s.Raw = raw
				if s.Meta == nil {
					s.Meta = map[string]any{}
				}
				s.Meta["foreign_extensions"] = n
			}
		}
		out = append(out, s)
	}
	rt.Check("collect-"+family, rt.Seed(e.Seed, rt.SeedStr(family)), n, time.Second, prop)
	if len(out) > n {
		out = out[:n]
	}
	for i := range out {
		if out[i].Name == "" {
			out[i].Name = fmt.Sprintf("p%s%04d", strings.ToLower(family), i)
		}
	}
	return out
}

// formWalker hands out the base-path forms in turn, from a seed-dependent start: every
// form is used by about the same number of specs of a run, whatever the seed (a form
// that a run of 64 specs happens not to draw leaves a whole class of base paths untried).
func formWalker(e *Env, forms []specgen.BaseForm) func() specgen.BaseForm {
	k := int(splitmix(e.Seed) % uint64(len(forms)))
	return func() specgen.BaseForm {
		f := forms[k%len(forms)]
		k++
		return f
	}
}

type droppedSpec struct {
	Name, Why string
	Raw       []byte
	Cfg       inproc.Config
}

type buildStats struct {
	Drawn, Rejected, Dropped, Kept int
	DroppedSpecs                   []droppedSpec
	RefusedSpecs                   []droppedSpec
	DroppedWhy                     map[string]int
}

// buildDriver generates every spec with goag (current tree), drops the ones goag
// rejects or that do not compile (C01's business; counted), writes registries and
// links everything into one driver binary.
func buildDriver(e *Env, specs []PkgSpec, race bool) (string, string, []PkgSpec, buildStats, error) {
	st := buildStats{Drawn: len(specs), DroppedWhy: map[string]int{}}
	// the goag command built from the same tree: a quarter of the packages is generated
	// through it ("" = not available: everything goes through the library entry point)
	cliPath, _ := cliBinaryShared(e)
	root := filepath.Join(e.Scratch, "drv-"+e.ID)
	os.RemoveAll(root)
	os.MkdirAll(filepath.Join(root, "pkgs"), 0o755)
	os.MkdirAll(filepath.Join(root, "specs"), 0o755)
	type result struct {
		ok  bool
		why string
	}
	results := make([]result, len(specs))
	// goag is not safe for concurrent use inside one process (shared buffers in its
	// rendering pipeline): generation is spread over child processes instead.
	type prepIn struct {
		Name  string         `json:"name"`
		Raw   string         `json:"raw"`
		Cfg   inproc.Config  `json:"cfg"`
		Meta  map[string]any `json:"meta"`
		Embed *string        `json:"embed,omitempty"`
	}
	nw := e.NShards
	if nw > len(specs) {
		nw = len(specs)
	}
	self, _ := os.Executable()
	var wg sync.WaitGroup
	var mu sync.Mutex
	for w := 0; w < nw; w++ {
		var batch []prepIn
		var idx []int
		for i, s := range specs {
			if i%nw != w {
				continue
			}
			raw := s.Raw
			if raw == nil {
				raw = s.Doc.JSON()
			}
			pin := prepIn{Name: s.Name, Raw: string(raw), Cfg: s.Cfg, Meta: s.Meta}
			if s.Embed != nil {
				em := string(s.Embed)
				pin.Embed = &em
			}
			batch = append(batch, pin)
			idx = append(idx, i)
		}
		inFile := filepath.Join(root, fmt.Sprintf("prep-in-%d.json", w))
		outFile := filepath.Join(root, fmt.Sprintf("prep-out-%d.json", w))
		bs, _ := json.Marshal(batch)
		os.WriteFile(inFile, bs, 0o644)
		wg.Add(1)
		go func(w int, idx []int) {
			defer wg.Done()
			cmd := exec.Command(self, "prep", root, inFile, outFile)
			cmd.Env = append(os.Environ(), "VERIF_CLI="+cliPath)
			out, err := cmd.CombinedOutput()
			var rs []result2
			if bs, rerr := os.ReadFile(outFile); rerr == nil {
				json.Unmarshal(bs, &rs)
			}
			mu.Lock()
			defer mu.Unlock()
			for k, i := range idx {
				if k < len(rs) {
					results[i] = result{rs[k].OK, rs[k].Why}
				} else {
					results[i] = result{false, fmt.Sprintf("prep worker failed: %v: %s", err, tail(string(out), 300))}
				}
			}
		}(w, idx)
	}
	wg.Wait()
	os.RemoveAll(filepath.Join(root, "work"))
	var kept []PkgSpec
	for i, r := range results {
		switch {
		case r.ok:
			kept = append(kept, specs[i])
		case strings.HasPrefix(r.why, "rejected"):
			st.Rejected++
			st.DroppedWhy[r.why]++
			raw := specs[i].Raw
			if raw == nil && specs[i].Doc != nil {
				raw = specs[i].Doc.JSON()
			}
			if specs[i].Meta["may_be_refused"] != true {
				st.RefusedSpecs = append(st.RefusedSpecs, droppedSpec{specs[i].Name, r.why, raw, specs[i].Cfg})
			}
		default:
			st.Dropped++
			st.DroppedWhy[r.why]++
			raw := specs[i].Raw
			if raw == nil && specs[i].Doc != nil {
				raw = specs[i].Doc.JSON()
			}
			st.DroppedSpecs = append(st.DroppedSpecs, droppedSpec{specs[i].Name, r.why, raw, specs[i].Cfg})
		}
	}
	st.Kept = len(kept)
	dropped := map[string]string{}
	for i, r := range results {
		if !r.ok {
			dropped[specs[i].Name] = r.why
		}
	}
	if bs, err := json.Marshal(dropped); err == nil {
		os.WriteFile(filepath.Join(root, "specs", "dropped.json"), bs, 0o644)
	}
	// triage aid: VERIF_KEEP_DROPPED=<dir> keeps the documents of dropped programs
	if keep := os.Getenv("VERIF_KEEP_DROPPED"); keep != "" {
		os.MkdirAll(keep, 0o755)
		for i, r := range results {
			if !r.ok {
				raw := specs[i].Raw
				if raw == nil && specs[i].Doc != nil {
					raw = specs[i].Doc.JSON()
				}
				os.WriteFile(filepath.Join(keep, specs[i].Name+".json"), raw, 0o644)
				os.WriteFile(filepath.Join(keep, specs[i].Name+".why.txt"), []byte(r.why), 0o644)
			}
		}
	}
	if len(kept) == 0 {
		return "", root, nil, st, fmt.Errorf("no generated package survived (drawn %d, rejected %d, dropped %d: %v)", st.Drawn, st.Rejected, st.Dropped, st.DroppedWhy)
	}
	// module files
	repo := e.Repo
	gomod := fmt.Sprintf("module drvbin\n\ngo 1.23\n\nrequire (\n\tverif v0.0.0\n\tgithub.com/vkd/goag v0.0.0\n)\n\nreplace verif => %s\n\nreplace github.com/vkd/goag => %s\n", verifDir, repo)
	os.WriteFile(filepath.Join(root, "go.mod"), []byte(gomod), 0o644)
	if bs, err := os.ReadFile(filepath.Join(verifDir, "go.sum")); err == nil {
		os.WriteFile(filepath.Join(root, "go.sum"), bs, 0o644)
	}
	var sb strings.Builder
	sb.WriteString("package main\n\nimport (\n\t\"verif/drv\"\n")
	for _, s := range kept {
		fmt.Fprintf(&sb, "\t%s \"drvbin/pkgs/%s\"\n", s.Name, s.Name)
	}
	sb.WriteString(")\n\nfunc registerAll() []string {\n\tvar names []string\n")
	for _, s := range kept {
		fmt.Fprintf(&sb, "\tdrv.Register(&drv.PkgReg{Name: %q, Types: %s.VerifTypes, Funcs: %s.VerifFuncs, Vars: %s.VerifVars, Impls: %s.VerifImpls, Aliases: %s.VerifAliases, SpecFile: %s.VerifSpecFile})\n",
			s.Name, s.Name, s.Name, s.Name, s.Name, s.Name, s.Name)
		fmt.Fprintf(&sb, "\tnames = append(names, %q)\n", s.Name)
	}
	sb.WriteString("\treturn names\n}\n\nfunc main() { drv.Main(registerAll()) }\n")
	fuzzTest := "package main\n\nimport (\n\t\"os\"\n\t\"testing\"\n\n\t\"verif/drv\"\n)\n\nfunc FuzzServe(f *testing.F) {\n\tif err := drv.FuzzSetup(registerAll(), os.Getenv(\"VERIF_DRV_DIR\")); err != nil {\n\t\tf.Fatal(err)\n\t}\n\tif os.Getenv(\"VERIF_FUZZ_EMPTY_CORPUS\") == \"\" {\n\t\tfor _, s := range drv.FuzzSeeds() {\n\t\t\tf.Add(s)\n\t\t}\n\t}\n\tf.Fuzz(func(t *testing.T, data []byte) {\n\t\tif msg := drv.FuzzOne(data); msg != \"\" {\n\t\t\tt.Fatal(msg)\n\t\t}\n\t})\n}\n"
	os.WriteFile(filepath.Join(root, "fuzz_test.go"), []byte(fuzzTest), 0o644)
	os.WriteFile(filepath.Join(root, "main.go"), []byte(sb.String()), 0o644)
	bin := filepath.Join(root, "drvbin")
	args := []string{"build", "-o", bin}
	if race {
		args = append(args, "-race")
	}
	args = append(args, ".")
	cmd := exec.Command("go", args...)
	cmd.Dir = root
	cmd.Env = append(os.Environ(), "GOFLAGS=-mod=mod", "GOPROXY=off", "GOSUMDB=off", "GOTOOLCHAIN=local")
	if out, err := cmd.CombinedOutput(); err != nil {
		return "", root, kept, st, fmt.Errorf("link driver: %v: %s", err, tail(string(out), 3000))
	}
	return bin, root, kept, st, nil
}

// runDriver runs the driver shards and merges their results.
func runDriver(e *Env, bin, root, check string, timeout time.Duration, extraEnv ...string) (*res.Result, []string) {
	merged := res.New()
	var incon []string
	var mu sync.Mutex
	var wg sync.WaitGroup
	for i := 0; i < e.NShards; i++ {
		wg.Add(1)
		go func(i int) {
			defer wg.Done()
			out := filepath.Join(root, fmt.Sprintf("result-%s-%d.json", check, i))
			cmd := exec.Command(bin, "-check", check, "-tier", e.Tier, "-seed", strconv.FormatUint(e.Seed, 10), "-shard", strconv.Itoa(i), "-nshards", strconv.Itoa(e.NShards),
				"-dir", root, "-out", out, "-known", filepath.Join(verifDir, "KNOWN_FINDINGS.txt"))
			cmd.Env = append(os.Environ(), extraEnv...)
			var stderr strings.Builder
			cmd.Stderr = &stderr
			cmd.Stdout = &stderr
			done := make(chan error, 1)
			if err := cmd.Start(); err != nil {
				mu.Lock()
				incon = append(incon, fmt.Sprintf("driver shard %d: %v", i, err))
				mu.Unlock()
				return
			}
			go func() { done <- cmd.Wait() }()
			var err error
			select {
			case err = <-done:
			case <-time.After(timeout):
				cmd.Process.Kill()
				<-done
				err = fmt.Errorf("timeout after %v", timeout)
			}
			mu.Lock()
			defer mu.Unlock()
			if err != nil {
				if strings.Contains(stderr.String(), "WARNING: DATA RACE") {
					rep := stderr.String()
					if j := strings.Index(rep, "WARNING: DATA RACE"); j >= 0 {
						rep = rep[j:]
					}
					merged.Fail(res.Failure{Property: e.ID, Kind: "data-race", Clause: "race-detector", Detail: "the race detector reported: " + clipStr(rep, 3000),
						Replay: map[string]any{"race-report.txt": rep}})
					if r, rerr := res.ReadFile(out); rerr == nil {
						merged.Merge(r, 10)
					}
					return
				}
				incon = append(incon, fmt.Sprintf("driver shard %d: %v: %s", i, err, tail(stderr.String(), 3000)))
				return
			}
			r, rerr := res.ReadFile(out)
			if rerr != nil {
				incon = append(incon, fmt.Sprintf("driver shard %d: %v", i, rerr))
				return
			}
			merged.Merge(r, 10)
		}(i)
	}
	wg.Wait()
	return merged, incon
}

// compiledMain is the common pipeline of a compiled check.
// knownSpecs loads the saved regression specs of known findings for a check.
func knownSpecs(check string) []PkgSpec {
	var out []PkgSpec
	files, _ := filepath.Glob(filepath.Join(verifDir, "findings", "specs", check, "*.json"))
	for i, f := range files {
		if strings.HasSuffix(f, ".cfg.json") {
			continue
		}
		raw, err := os.ReadFile(f)
		if err != nil {
			continue
		}
		name := strings.TrimSuffix(filepath.Base(f), ".json")
		ps := PkgSpec{Name: fmt.Sprintf("kf%s%03d", strings.ToLower(check), i), Raw: raw, Cfg: inproc.Config{DoNotEdit: true}, Meta: map[string]any{"known_spec": name}}
		if cb, err := os.ReadFile(strings.TrimSuffix(f, ".json") + ".cfg.json"); err == nil {
			json.Unmarshal(cb, &ps.Cfg)
		}
		out = append(out, ps)
	}
	return out
}

func compiledMain(e *Env, check string, specs []PkgSpec, race bool, timeout time.Duration, extraEnv ...string) (*res.Result, error) {
	specs = append(specs, knownSpecs(check)...)
	bin, root, kept, st, err := buildDriver(e, specs, race)
	if err != nil {
		r := res.New()
		r.Extra["programs"] = st.Kept
		r.Extra["programs_detail"] = map[string]any{"drawn": st.Drawn, "rejected_by_goag": st.Rejected, "dropped_not_compiling": st.Dropped, "compiled": st.Kept, "dropped_why": st.DroppedWhy}
		return r, err
	}
	_ = kept
	r, incon := runDriver(e, bin, root, check, timeout, extraEnv...)
	r.Extra["programs"] = st.Kept
	r.Extra["programs_detail"] = map[string]any{"drawn": st.Drawn, "rejected_by_goag": st.Rejected, "dropped_not_compiling": st.Dropped, "compiled": st.Kept, "dropped_why": st.DroppedWhy}
	// the generators only draw specs for which goag is known to produce compilable code
	// (D_core): a package that does not compile cannot satisfy the property either - no
	// handler, client or codec of it can be used at all. (C18: the original sides are
	// such specs; it reports its rewritten sides itself.)
	{
		for _, ds := range st.DroppedSpecs {
			if !strings.HasPrefix(ds.Why, "does not compile") || (check == "C18" && !strings.HasPrefix(ds.Name, "pc18a")) {
				continue
			}
			r.Fail(res.Failure{Property: check, Kind: "generated-package-does-not-compile:" + strings.Join(strings.Fields(strings.TrimPrefix(ds.Why, "does not compile:"))[:min(6, len(strings.Fields(strings.TrimPrefix(ds.Why, "does not compile:"))))], " "),
				Clause: "generated-package-does-not-compile", Detail: fmt.Sprintf("goag reported success for spec %s but the package %s", ds.Name, ds.Why),
				Replay: map[string]any{"openapi.json": string(ds.Raw), "config.json": cfgString(ds.Cfg)}})
		}
	}
	// likewise the generators only draw specs goag accepts (rows it refuses are the
	// dialect boundary and are excluded): a refused spec means goag has stopped
	// supporting something it supported, and nothing can be said about its behaviour
	{
		for _, ds := range st.RefusedSpecs {
			if check == "C18" && !strings.HasPrefix(ds.Name, "pc18a") {
				continue
			}
			w := strings.Fields(strings.TrimPrefix(ds.Why, "rejected:"))
			r.Fail(res.Failure{Property: check, Kind: "spec-of-the-dialect-refused:" + strings.Join(w[:min(8, len(w))], " "),
				Clause: "spec-of-the-dialect-refused", Detail: fmt.Sprintf("goag refused spec %s, which is inside the dialect it is known to accept: %s", ds.Name, ds.Why),
				Replay: map[string]any{"openapi.json": string(ds.Raw), "config.json": cfgString(ds.Cfg)}})
		}
	}
	if len(incon) > 0 {
		return r, fmt.Errorf("%s", strings.Join(incon, "\n"))
	}
	return r, nil
}

type result2 struct {
	OK  bool   `json:"ok"`
	Why string `json:"why"`
}

// cmdPrep generates, type-checks and registers a batch of specs (child process).
func cmdPrep(root, inFile, outFile string) int {
	var batch []struct {
		Name  string         `json:"name"`
		Raw   string         `json:"raw"`
		Cfg   inproc.Config  `json:"cfg"`
		Meta  map[string]any `json:"meta"`
		Embed *string        `json:"embed"`
	}
	bs, err := os.ReadFile(inFile)
	if err != nil || json.Unmarshal(bs, &batch) != nil {
		fmt.Fprintln(os.Stderr, "prep: cannot read batch", err)
		return 2
	}
	chk := inproc.NewChecker()
	results := make([]result2, 0, len(batch))
	flush := func() {
		bs, _ := json.Marshal(results)
		os.WriteFile(outFile, bs, 0o644)
	}
	for _, s := range batch {
		raw := []byte(s.Raw)
		cfg := s.Cfg
		cfg.Package = s.Name
		// a third of the packages is generated with customTypes.ignore: true in the config
		// file: the dialect has no custom types, so the switch must change nothing
		if splitmix(hashStr(s.Name)+7)%3 == 0 {
			cfg.CustomTypesIgnore = true
		}
		out := filepath.Join(root, "pkgs", s.Name)
		wd := filepath.Join(root, "work", s.Name)
		os.MkdirAll(out, 0o755)
		os.MkdirAll(wd, 0o755)
		os.WriteFile(filepath.Join(root, "specs", s.Name+".json"), raw, 0o644)
		var oc inproc.Outcome
		via := "in-process"
		cli := os.Getenv("VERIF_CLI")
		switch {
		case s.Embed != nil:
			oc = inproc.GenerateRaw(raw, []byte(*s.Embed), cfg, out)
			os.WriteFile(filepath.Join(root, "specs", s.Name+".embed"), []byte(*s.Embed), 0o644)
		case cli != "" && splitmix(uint64(len(s.Raw))+hashStr(s.Name))%4 == 0:
			// a quarter of the packages is generated by the goag command itself (flags and
			// config file as a user would pass them), not through the library entry point
			via = "cli"
			specFile := filepath.Join(wd, cfg.SpecName())
			cfgFile := filepath.Join(wd, ".goag.yaml")
			os.WriteFile(specFile, raw, 0o644)
			if y := cfg.GoagYAML(); y != nil {
				os.WriteFile(cfgFile, y, 0o644)
			}
			args := cfg.CLIArgs(specFile, cfgFile, out)
			// where the files lie, as users have them: absolute paths; or the spec in a
			// sub-directory and the config beside the working directory, both named
			// relative to it; or the config left to its default name (.goag.yaml)
			if layout := splitmix(hashStr(s.Name)+11) % 3; layout != 0 {
				os.Remove(specFile)
				os.MkdirAll(filepath.Join(wd, "api"), 0o755)
				os.WriteFile(filepath.Join(wd, "api", cfg.SpecName()), raw, 0o644)
				args = cfg.CLIArgs(filepath.Join("api", cfg.SpecName()), ".goag.yaml", out)
				if layout == 2 {
					for i := 0; i+1 < len(args); i++ {
						if args[i] == "--config" {
							args = append(args[:i], args[i+2:]...)
							break
						}
					}
				}
				via = fmt.Sprintf("cli:relative-paths-%d", layout)
			}
			cmd := exec.Command(cli, args...)
			cmd.Dir = wd
			if cout, err := cmd.CombinedOutput(); err != nil {
				oc.Err = fmt.Errorf("%v: %s", err, clipStr(string(cout), 300))
			}
		default:
			oc = inproc.Generate(raw, cfg, wd, out)
		}
		if s.Meta == nil {
			s.Meta = map[string]any{}
		}
		s.Meta["generated_via"] = via
		if oc.Panic != "" || oc.Err != nil {
			os.RemoveAll(out)
			results = append(results, result2{false, "rejected: " + firstWords(fmtErr(oc.Err)+" "+oc.Panic, 12)})
			flush()
			continue
		}
		pkg, probs := chk.Check(out)
		if len(probs) > 0 || pkg.Types == nil {
			os.RemoveAll(out)
			results = append(results, result2{false, "does not compile: " + normalizeMsg(problemsString(probs))})
			flush()
			continue
		}
		if err := registry.Write(out, pkg.Types); err != nil {
			os.RemoveAll(out)
			results = append(results, result2{false, "registry: " + err.Error()})
			flush()
			continue
		}
		os.WriteFile(filepath.Join(root, "specs", s.Name+".json"), raw, 0o644)
		meta := map[string]any{"config": cfg, "meta": s.Meta}
		mb, _ := json.Marshal(meta)
		os.WriteFile(filepath.Join(root, "specs", s.Name+".cfg.json"), mb, 0o644)
		results = append(results, result2{true, ""})
		flush()
	}
	flush()
	return 0
}

func clipStr(s string, n int) string {
	if len(s) > n {
		return s[:n] + "…"
	}
	return s
}

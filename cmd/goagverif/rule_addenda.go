package main

// ruleAddenda extends the rule text of a check (what its evidence file states was
// generated and judged) by what later rounds of strengthening added; see DESIGN.md
// §15.6-15.8. Appended in register().
var ruleAddenda = map[string]string{
	"C01": "matrix additions: datetime-layout kinds (x-goag-go-time-format), inline-allOf / inline-oneOf item kinds, name rows for words goag itself uses (item, items, additionalProperties, oneOf0, JSONBody) and for $ / [] in names, positions for objects nested two and three levels below a named property and for inline object properties inside array items and map values, operation rows for every JSON / non-JSON combination of three shared responses with and without an inline JSON response",
	"C02": "a quarter of the responses is written to a ResponseWriter that already carries a Content-Type; default codes come from the registered status codes half of the time; responses may declare further media types beside application/json; shared headers may be named like the header; response headers may carry a Go time layout",
	"C03": "every fifth request is also sent in a percent-encoded spelling (URL.RawPath); the base path itself is requested; base forms include --basepath / over servers, a server variable used twice, a first server without a path",
	"C04": "parameters may be deprecated, may carry a Go time layout (RFC1123Z, DateOnly, DateTime, RFC3339: hand-written judge per layout), query names may need escaping ($top, filter[x], ids[], a space, non-ASCII), a header may have the Go field name of a query parameter; body-carrying requests bring a decoy form-encoded body in a third of the cases",
	"C05": "plus parameter-family specs with path variables: multi-byte constant segments, constants spelled like a variable of the template, variables declared out of template order or re-declared with another type by the operation, Go time layouts",
	"C06": "a quarter of the values: the bytes returned by MarshalJSON are held while other values are encoded and must stay unchanged; additional keys may be spelled like the Go field of a declared property; oneOf variants may have a nullable sole required property; allOf may end in an open object; arrays may hold inline compositions",
	"C07": "every key of the value's own AdditionalProperties map must be a key of the encoded object",
	"C08": "a third of the HTTP-delivered documents has a body of unknown length (ContentLength -1)",
	"C09": "raw bodies under media types that merely resemble application/json; query names that need escaping; path variables declared out of template order; multi-byte constants; Go time layouts",
	"C10": "one JSON string in ~1500 is larger than 1 MiB",
	"C11": "specs generated with cors on and off and with every method (OPTIONS, HEAD, PATCH, TRACE too); http scheme spelled bearer / Bearer / BEARER; an invalid bearer credential is in half of the vectors the valid token under another scheme word (Basic, Token); every other vector of a body-carrying method brings a form-encoded body whose fields are named like the query api keys and hold the opposite credential",
	"C12": "half of the fat specs are decorated with several x-goag-* extensions per schema (string and non-string values); content maps whose keys differ in parameters / letter case only",
	"C13": "served contents with percent signs; spec handler names with a directory part or a leading dot; near misses include deeper paths that merely end in the spec name",
	"C14": "a quarter of the requests goes through the same API with every optional hook nil; a quarter has a body of unknown length; the stubs call Error() on the parse error and its causes; a response carrying ETag / Last-Modified is followed by the same request made conditional on exactly that validator",
	"C15": "further mutations: vendor extensions with unexpected values, empty security requirement, forward / self-referencing component arrays, servers lists with null / unreferenced-variable entries, JSON-pointer $refs (acyclic and cyclic), path parameters that are not a whole segment, null entries in every components map and in response links / headers, alias cycles and chains running into a foreign cycle in every components map",
	"C16": "with cors on the own preflight of every path without OPTIONS is checked whatever siblings declare; the spec route is requested with GET, HEAD, POST, PUT, DELETE and OPTIONS; specs may hold a root-level catch-all template and spec handler names with a directory part or a leading dot",
	"C17": "every preflight is sent twice and the CORS handler scrambles the method / header lists it was given; requirements mix schemes goag has no hook for with supported ones (up to three alternatives, any order); scheme spelled bearer / Bearer / BEARER",
	"C18": "divergences on request bodies are classified by body class (valid / single fault / malformed JSON); oneOf targets are inlined under array items",
	"C19": "user files include Go files of the same package with third-party imports named like standard-library packages and files in sub-directories named like goag-owned files; spec shapes include components holding only a shared parameter",
	"C20": "in a third of the rounds every handler answers with one shared static response value per response type; the call mix includes fetches of the served spec file; raw response bodies are plain readers (no WriteTo)",
}

const ruleCommonAddendum = "; a quarter of the compiled packages is generated by the goag command (flags + .goag.yaml) instead of the library entry point and a third with customTypes.ignore: true; a spec of the dialect that goag refuses, or whose generated package does not compile, is reported as a violation by the check that drew it"

package main

import (
	"bytes"
	"context"
	"encoding/json"
	"fmt"
	"os"
	"os/exec"
	"path/filepath"
	"regexp"
	"sort"
	"strconv"
	"strings"
	"time"

	"github.com/getkin/kin-openapi/openapi3"
	"gopkg.in/yaml.v3"
	"pgregory.net/rapid"

	"verif/inproc"
	"verif/res"
	"verif/rt"
	"verif/specgen"
)

func init() {
	register(&Check{
		ID: "C15",
		Rule: "seed documents (C01 operation/name/text rows, random compositions, the repository's fixture specs) under 1-3 rapid-chosen structural mutations (delete key, null, swap JSON type, drop schema/items, schema->content, non-string server-variable default/enum, unresolved/self/cyclic $ref and alias cycles, unsupported type/format, empty map, parameter without in/name, status 2XX, duplicate path variable); only documents the kin loader accepts count; " +
			"goag runs in a child process per document (a stack overflow is fatal and unrecoverable): oracle = no panic, no fatal exit, terminates (10 s, re-tried twice at 30 s), result nil or an error whose text is non-empty and mentions a named element of the document (path template, method, status, parameter/property/component name, media type); a 5% sample also through the CLI (exit status != 0 iff error, no 'panic:' on stderr); " +
			"non-trivial = loader-accepted mutant that differs from its seed; distinct by hash of the mutated document",
		Assume: []string{"'says where' is read as 'mentions a named element of the document' (DESIGN.md §11): a terse error that names the element passes",
			"a timeout is inconclusive unless it reproduces three times at 60 s"},
		Worker:    c15Worker,
		Replay:    c15Replay,
		MinNonTrv: 200,
	})
}

// ---- child: generate one document and report -------------------------------

type gen1Result struct {
	LoaderErr string `json:"loader_err,omitempty"`
	Err       string `json:"err,omitempty"`
	Panic     string `json:"panic,omitempty"`
	OK        bool   `json:"ok"`
}

// gen1Config is the configuration of one C15 generation: the options beside the
// document come from the environment (set per case by the worker).
func gen1Config(client bool) inproc.Config {
	cfg := inproc.Config{Client: client, DoNotEdit: true, CustomTypesIgnore: os.Getenv("VERIF_GEN1_CUSTOM_TYPES_IGNORE") != "",
		Cors: os.Getenv("VERIF_GEN1_CORS") != "", NoAPIHandler: os.Getenv("VERIF_GEN1_NO_API_HANDLER") != "", BasePath: os.Getenv("VERIF_GEN1_BASEPATH")}
	cfg.SpecHandlerName = "openapi.yaml"
	if v, ok := os.LookupEnv("VERIF_GEN1_SPEC_HANDLER"); ok {
		cfg.SpecHandlerName = v
	}
	return cfg
}

func cmdGen1(specPath, outDir string, client bool) int {
	// never outlive the parent's patience (a parent that is killed cannot kill us)
	time.AfterFunc(100*time.Second, func() { os.Exit(3) })
	bs, err := os.ReadFile(specPath)
	if err != nil {
		fmt.Fprintln(os.Stderr, err)
		return 3
	}
	var out gen1Result
	func() {
		defer func() {
			if r := recover(); r != nil {
				out.LoaderErr = fmt.Sprintf("loader panicked: %v", r)
			}
		}()
		if _, err := openapi3.NewSwaggerLoader().LoadSwaggerFromData(bs); err != nil {
			out.LoaderErr = err.Error()
		}
	}()
	if out.LoaderErr == "" {
		work := filepath.Join(outDir, "work")
		gen := filepath.Join(outDir, "gen")
		os.MkdirAll(work, 0o755)
		os.MkdirAll(gen, 0o755)
		oc := inproc.Generate(bs, gen1Config(client), work, gen)
		switch {
		case oc.Panic != "":
			out.Panic = oc.Panic
		case oc.Err != nil:
			out.Err = oc.Err.Error()
			if out.Err == "" {
				out.Err = "\x00empty"
			}
		default:
			out.OK = true
		}
	}
	json.NewEncoder(os.Stdout).Encode(out)
	return 0
}

// ---- mutation over generic JSON trees ---------------------------------------

type site struct {
	parent any    // map[string]any or []any
	key    string // map key
	idx    int    // slice index
	path   []string
}

func collectSites(node any, path []string, out *[]site) {
	switch n := node.(type) {
	case map[string]any:
		keys := make([]string, 0, len(n))
		for k := range n {
			keys = append(keys, k)
		}
		sort.Strings(keys)
		for _, k := range keys {
			p := append(append([]string{}, path...), k)
			*out = append(*out, site{parent: n, key: k, path: p})
			collectSites(n[k], p, out)
		}
	case []any:
		for i, v := range n {
			p := append(append([]string{}, path...), fmt.Sprint(i))
			*out = append(*out, site{parent: n, idx: i, key: "", path: p})
			collectSites(v, p, out)
		}
	}
}

func (s site) get() any {
	if m, ok := s.parent.(map[string]any); ok {
		return m[s.key]
	}
	return s.parent.([]any)[s.idx]
}

func (s site) set(v any) {
	if m, ok := s.parent.(map[string]any); ok {
		m[s.key] = v
		return
	}
	s.parent.([]any)[s.idx] = v
}

func (s site) del() bool {
	if m, ok := s.parent.(map[string]any); ok {
		delete(m, s.key)
		return true
	}
	return false
}

// delElem removes element idx of the array stored under key in its grandparent.
func delArrayElem(root any, path []string) bool {
	if len(path) < 2 {
		return false
	}
	var cur any = root
	for _, seg := range path[:len(path)-2] {
		switch n := cur.(type) {
		case map[string]any:
			cur = n[seg]
		case []any:
			i, err := strconv.Atoi(seg)
			if err != nil || i >= len(n) {
				return false
			}
			cur = n[i]
		}
	}
	holder, ok := cur.(map[string]any)
	if !ok {
		return false
	}
	arr, ok := holder[path[len(path)-2]].([]any)
	idx, err := strconv.Atoi(path[len(path)-1])
	if !ok || err != nil || idx >= len(arr) {
		return false
	}
	holder[path[len(path)-2]] = append(append([]any{}, arr[:idx]...), arr[idx+1:]...)
	return true
}

func swapType(t *rapid.T, v any) any {
	alts := []any{"text", 1.5, float64(7), true, []any{}, map[string]any{}, []any{"x"}, map[string]any{"k": "v"}}
	for i := 0; i < 6; i++ {
		a := rapid.SampledFrom(alts).Draw(t, "swap_to")
		if fmt.Sprintf("%T", a) != fmt.Sprintf("%T", v) {
			return a
		}
	}
	return nil
}

// mutate applies one mutation; returns a description and the site path.
func mutate(t *rapid.T, root map[string]any) (string, []string) {
	var sites []site
	collectSites(root, nil, &sites)
	if len(sites) == 0 {
		return "none", nil
	}
	byKey := func(keys ...string) []site {
		var out []site
		for _, s := range sites {
			for _, k := range keys {
				if s.key == k {
					out = append(out, s)
				}
			}
		}
		return out
	}
	type op struct {
		name string
		w    int
	}
	ops := []op{{"delete-elem", 2}, {"disc-mapping", 2}, {"delete", 4}, {"null", 3}, {"swap", 4}, {"drop-schema", 3}, {"schema-to-content", 2}, {"drop-items", 2}, {"server-var", 2},
		{"bad-ref", 3}, {"cyclic-ref", 2}, {"extension", 2}, {"json-pointer-ref", 1}, {"path-param-mismatch", 1}, {"null-component", 1}, {"empty-security-requirement", 1}, {"forward-array-component", 1}, {"servers", 2}, {"security-scheme", 2}, {"required-undeclared", 2}, {"response-default-and-numbered", 2}, {"unused-component", 2}, {"bad-type", 2}, {"empty-map", 2}, {"param-missing", 2}, {"status-pattern", 1}, {"dup-path-var", 1}}
	var names []string
	for _, o := range ops {
		for i := 0; i < o.w; i++ {
			names = append(names, o.name)
		}
	}
	name := rapid.SampledFrom(names).Draw(t, "mutation")
	pick := func(ss []site) (site, bool) {
		if len(ss) == 0 {
			return site{}, false
		}
		return ss[rapid.IntRange(0, len(ss)-1).Draw(t, "site")], true
	}
	switch name {
	case "delete-elem":
		var elems []site
		for _, s := range sites {
			if _, ok := s.parent.([]any); ok {
				elems = append(elems, s)
			}
		}
		if s, ok := pick(elems); ok && delArrayElem(root, s.path) {
			return "delete-elem", s.path
		}
	case "disc-mapping":
		// a discriminator whose mapping points at schemas that are not among the oneOf
		// alternatives (or do not exist), under keys that differ from the target names
		comps, _ := root["components"].(map[string]any)
		if comps == nil {
			comps = map[string]any{}
			root["components"] = comps
		}
		schemas, _ := comps["schemas"].(map[string]any)
		if schemas == nil {
			schemas = map[string]any{}
			comps["schemas"] = schemas
		}
		obj := func(p string) map[string]any {
			return map[string]any{"type": "object", "properties": map[string]any{"kind": map[string]any{"type": "string"}, p: map[string]any{"type": "string"}}, "required": []any{"kind"}}
		}
		schemas["DmA"], schemas["DmB"], schemas["DmC"] = obj("a"), obj("b"), obj("c")
		target := rapid.SampledFrom([]string{"#/components/schemas/DmC", "DmC", "#/components/schemas/Nowhere", "Nowhere", "#/components/schemas/DmA", ""}).Draw(t, "dm_target")
		schemas["DmChoice"] = map[string]any{"oneOf": []any{map[string]any{"$ref": "#/components/schemas/DmA"}, map[string]any{"$ref": "#/components/schemas/DmB"}},
			"discriminator": map[string]any{"propertyName": "kind", "mapping": map[string]any{"see": target, "bee": "#/components/schemas/DmB"}}}
		if s, ok := pick(byKey("schema")); ok && rapid.Bool().Draw(t, "use_choice") {
			s.set(map[string]any{"$ref": "#/components/schemas/DmChoice"})
		}
		return "disc-mapping", []string{"components", "schemas", "DmChoice"}
	case "delete":
		if s, ok := pick(sites); ok && s.del() {
			return "delete", s.path
		}
	case "null":
		if s, ok := pick(sites); ok {
			s.set(nil)
			return "null", s.path
		}
	case "swap":
		if s, ok := pick(sites); ok {
			s.set(swapType(t, s.get()))
			return "swap", s.path
		}
	case "drop-schema":
		if s, ok := pick(byKey("schema")); ok && s.del() {
			return "drop-schema", s.path
		}
	case "schema-to-content":
		if s, ok := pick(byKey("schema")); ok {
			m := s.parent.(map[string]any)
			m["content"] = map[string]any{"application/json": map[string]any{"schema": m["schema"]}}
			delete(m, "schema")
			return "schema-to-content", s.path
		}
	case "drop-items":
		if s, ok := pick(byKey("items")); ok && s.del() {
			return "drop-items", s.path
		}
	case "server-var":
		vars := map[string]any{"v": map[string]any{"default": rapid.SampledFrom([]any{float64(1), true, nil, []any{"a"}, map[string]any{}}).Draw(t, "svdefault")},
			"w": map[string]any{"default": "x", "enum": []any{float64(1), "x"}}}
		root["servers"] = []any{map[string]any{"url": "https://h.example/{v}/{w}", "variables": vars}}
		return "server-var", []string{"servers", "0", "variables"}
	case "bad-ref":
		cands := byKey("$ref")
		if s, ok := pick(cands); ok {
			old, _ := s.get().(string)
			i := strings.LastIndex(old, "/")
			if i > 0 {
				s.set(old[:i+1] + "DoesNotExist")
				return "bad-ref", s.path
			}
		} else if s, ok := pick(byKey("schema")); ok {
			s.set(map[string]any{"$ref": "#/components/schemas/DoesNotExist"})
			return "bad-ref", s.path
		}
	case "cyclic-ref":
		comps, _ := root["components"].(map[string]any)
		if comps == nil {
			comps = map[string]any{}
			root["components"] = comps
		}
		schemas, _ := comps["schemas"].(map[string]any)
		if schemas == nil {
			schemas = map[string]any{}
			comps["schemas"] = schemas
		}
		switch rapid.IntRange(0, 5).Draw(t, "cycle_kind") {
		case 4:
			// an alias chain that runs into a cycle it is not part of (its name sorts first)
			schemas["AaaTail"] = map[string]any{"$ref": "#/components/schemas/CycA"}
			schemas["CycA"] = map[string]any{"$ref": "#/components/schemas/CycB"}
			schemas["CycB"] = map[string]any{"$ref": "#/components/schemas/CycA"}
			if s, ok := pick(byKey("schema")); ok && rapid.Bool().Draw(t, "use_tail") {
				s.set(map[string]any{"$ref": "#/components/schemas/AaaTail"})
			}
			return "cyclic-ref:tail-into-cycle", []string{"components", "schemas", "AaaTail"}
		case 5:
			// alias cycles in the other components maps
			section := rapid.SampledFrom([]string{"parameters", "headers", "responses", "requestBodies", "securitySchemes", "links", "examples"}).Draw(t, "cycle_section")
			m, _ := comps[section].(map[string]any)
			if m == nil {
				m = map[string]any{}
				comps[section] = m
			}
			m["CycA"] = map[string]any{"$ref": "#/components/" + section + "/CycB"}
			m["CycB"] = map[string]any{"$ref": "#/components/" + section + "/CycA"}
			if rapid.Bool().Draw(t, "cycle_tail") {
				m["AaaTail"] = map[string]any{"$ref": "#/components/" + section + "/CycA"}
			}
			return "cyclic-ref:" + section, []string{"components", section, "CycA"}
		case 0:
			schemas["CycA"] = map[string]any{"$ref": "#/components/schemas/CycB"}
			schemas["CycB"] = map[string]any{"$ref": "#/components/schemas/CycA"}
		case 1:
			schemas["CycA"] = map[string]any{"$ref": "#/components/schemas/CycA"}
		case 2:
			schemas["CycA"] = map[string]any{"type": "object", "properties": map[string]any{"self": map[string]any{"$ref": "#/components/schemas/CycA"}}}
		default:
			schemas["CycA"] = map[string]any{"type": "array", "items": map[string]any{"$ref": "#/components/schemas/CycB"}}
			schemas["CycB"] = map[string]any{"allOf": []any{map[string]any{"$ref": "#/components/schemas/CycA"}}}
		}
		if s, ok := pick(byKey("schema")); ok && rapid.Bool().Draw(t, "use_cycle") {
			s.set(map[string]any{"$ref": "#/components/schemas/CycA"})
		}
		return "cyclic-ref", []string{"components", "schemas", "CycA"}
	case "json-pointer-ref":
		// a $ref the loader resolves although it does not name a component: a JSON pointer
		// into a nested schema, acyclic or pointing back into itself
		comps, _ := root["components"].(map[string]any)
		if comps == nil {
			comps = map[string]any{}
			root["components"] = comps
		}
		schemas, _ := comps["schemas"].(map[string]any)
		if schemas == nil {
			schemas = map[string]any{}
			comps["schemas"] = schemas
		}
		cyclic := rapid.Bool().Draw(t, "pointer_cyclic")
		inner := map[string]any{"type": "object", "properties": map[string]any{"name": map[string]any{"type": "string"}}}
		if cyclic {
			inner["properties"].(map[string]any)["parent"] = map[string]any{"$ref": "#/components/schemas/PtrNode/properties/parent"}
		}
		schemas["PtrNode"] = map[string]any{"type": "object", "properties": map[string]any{"name": map[string]any{"type": "string"}, "parent": inner,
			"alias": map[string]any{"$ref": "#/components/schemas/PtrNode/properties/name"}}}
		if s, ok := pick(byKey("schema")); ok && rapid.Bool().Draw(t, "use_pointer") {
			s.set(map[string]any{"$ref": "#/components/schemas/PtrNode"})
		}
		return fmt.Sprintf("json-pointer-ref:cyclic=%v", cyclic), []string{"components", "schemas", "PtrNode"}
	case "path-param-mismatch":
		// a declared path parameter that is not a whole {name} segment of its template
		paths, _ := root["paths"].(map[string]any)
		if paths != nil {
			tpl, decl := "/reports/{reportId}.pdf", "reportId"
			switch rapid.IntRange(0, 2).Draw(t, "mismatch_kind") {
			case 1:
				tpl, decl = "/pets/{petId}", "pet_id"
			case 2:
				tpl, decl = "/files/v{version}/x", "version"
			}
			paths[tpl] = map[string]any{"get": map[string]any{"parameters": []any{map[string]any{"name": decl, "in": "path", "required": true, "schema": map[string]any{"type": "string"}}}, "responses": map[string]any{"default": map[string]any{"description": ""}}}}
			return "path-param-mismatch", []string{"paths", tpl}
		}
	case "null-component":
		// a null entry in one of the components maps
		comps, _ := root["components"].(map[string]any)
		if comps == nil {
			comps = map[string]any{}
			root["components"] = comps
		}
		section := rapid.SampledFrom([]string{"links", "examples", "callbacks", "headers", "parameters", "requestBodies", "responses", "schemas", "securitySchemes", "response-links", "response-headers"}).Draw(t, "null_section")
		if strings.HasPrefix(section, "response-") {
			// the same inside a response object of an operation
			var resps []site
			for _, s := range byKey("description") {
				if len(s.path) >= 2 && s.path[len(s.path)-3] == "responses" {
					resps = append(resps, s)
				}
			}
			if s, ok := pick(resps); ok {
				key := strings.TrimPrefix(section, "response-")
				s.parent.(map[string]any)[key] = map[string]any{"NullEntry": nil}
				return "null-component:" + section, append(append([]string{}, s.path[:len(s.path)-1]...), key, "NullEntry")
			}
			section = "links"
		}
		m, _ := comps[section].(map[string]any)
		if m == nil {
			m = map[string]any{}
			comps[section] = m
		}
		m["NullEntry"] = nil
		return "null-component:" + section, []string{"components", section, "NullEntry"}
	case "extension":
		// goag's own vendor extensions with values it does not expect
		var schemas []site
		for _, s := range sites {
			if m, ok := s.get().(map[string]any); ok {
				if ty, _ := m["type"].(string); ty != "" && m["in"] == nil {
					schemas = append(schemas, s)
				}
			}
		}
		if s, ok := pick(schemas); ok {
			m := s.get().(map[string]any)
			k := rapid.SampledFrom([]string{"x-goag-go-type", "x-goag-go-time-format", "x-goag-unknown"}).Draw(t, "ext_key")
			m[k] = rapid.SampledFrom([]any{"github.com/foo/Bar", "github.com/foo/bar.Baz", "", ".", "a.", ".b", "a/b/c", "a/b.c/d", "time.Time", "[]byte", "pkg.Type", "v1.Pet", "v2.Item", "example.com/acme/petapi/v2.Pet", "example.com/v3.T", "v.T", "../x.Y", "a b.c", "*net/url.URL", "map[string]any",
				float64(123), nil, true, []any{"a"}, map[string]any{"a": "b"}, "time.RFC1123", "\"2006\""}).Draw(t, "ext_val")
			if rapid.Bool().Draw(t, "ext_datetime") {
				m["type"], m["format"] = "string", "date-time"
			}
			return "extension:" + k, s.path
		}
	case "response-default-and-numbered":
		// one shared response documented under a status code by one operation and as
		// `default` by another (goag supports only one of the two per response: it must say so)
		comps, _ := root["components"].(map[string]any)
		if comps == nil {
			comps = map[string]any{}
			root["components"] = comps
		}
		rs, _ := comps["responses"].(map[string]any)
		if rs == nil {
			rs = map[string]any{}
			comps["responses"] = rs
		}
		rs["PlantedFailure"] = map[string]any{"description": "failure", "content": map[string]any{"application/json": map[string]any{"schema": map[string]any{"type": "object", "properties": map[string]any{"message": map[string]any{"type": "string"}}}}}}
		paths, _ := root["paths"].(map[string]any)
		if paths == nil {
			paths = map[string]any{}
			root["paths"] = paths
		}
		ref := map[string]any{"$ref": "#/components/responses/PlantedFailure"}
		first, second := "404", "default"
		if rapid.Bool().Draw(t, "default_first") {
			first, second = "default", "404"
		}
		paths["/aa-planted"] = map[string]any{"get": map[string]any{"responses": map[string]any{first: ref}}}
		paths["/zz-planted"] = map[string]any{"get": map[string]any{"responses": map[string]any{second: ref}}}
		return "response-default-and-numbered:" + first + "-first", []string{"components", "responses", "PlantedFailure"}
	case "unused-component":
		// a shared catalogue holds entries nothing references yet
		comps, _ := root["components"].(map[string]any)
		if comps == nil {
			comps = map[string]any{}
			root["components"] = comps
		}
		section := rapid.SampledFrom([]string{"responses", "parameters", "headers", "requestBodies", "schemas"}).Draw(t, "unused_section")
		m, _ := comps[section].(map[string]any)
		if m == nil {
			m = map[string]any{}
			comps[section] = m
		}
		switch section {
		case "responses":
			m["UnusedPlanted"] = map[string]any{"description": "not wired up yet", "content": map[string]any{"application/json": map[string]any{"schema": map[string]any{"type": "object"}}}}
		case "parameters":
			m["UnusedPlanted"] = map[string]any{"name": "unused", "in": "query", "schema": map[string]any{"type": "string"}}
		case "headers":
			m["UnusedPlanted"] = map[string]any{"schema": map[string]any{"type": "integer"}}
		case "requestBodies":
			m["UnusedPlanted"] = map[string]any{"content": map[string]any{"application/json": map[string]any{"schema": map[string]any{"type": "object"}}}}
		default:
			m["UnusedPlanted"] = map[string]any{"type": "object", "properties": map[string]any{"a": map[string]any{"type": "string"}}}
		}
		return "unused-component:" + section, []string{"components", section, "UnusedPlanted"}
	case "required-undeclared":
		// `required` naming a property the schema does not declare itself: a ghost, or a
		// property that only a member of its allOf (declared before or after it) brings in
		var objs []site
		for _, st := range sites {
			if m, ok := st.get().(map[string]any); ok {
				_, hasProps := m["properties"].(map[string]any)
				_, hasAllOf := m["allOf"].([]any)
				if hasProps || hasAllOf {
					objs = append(objs, st)
				}
			}
		}
		if rapid.Bool().Draw(t, "required_from_allof_member") {
			// the usual way to write it: a derived schema requires what its base declares
			comps, _ := root["components"].(map[string]any)
			if comps == nil {
				comps = map[string]any{}
				root["components"] = comps
			}
			ss, _ := comps["schemas"].(map[string]any)
			if ss == nil {
				ss = map[string]any{}
				comps["schemas"] = ss
			}
			derived, base := "AaDerived", "ZzBase"
			if rapid.Bool().Draw(t, "derived_sorts_last") {
				derived, base = "ZzDerived", "AaBase"
			}
			ss[base] = map[string]any{"type": "object", "properties": map[string]any{"name": map[string]any{"type": "string"}, "tag": map[string]any{"type": "string"}}}
			ss[derived] = map[string]any{"required": []any{"name"}, "allOf": []any{map[string]any{"$ref": "#/components/schemas/" + base}, map[string]any{"type": "object", "properties": map[string]any{"skill": map[string]any{"type": "string"}}}}}
			return "required-undeclared:from-allof-member", []string{"components", "schemas", derived}
		}
		if st, ok := pick(objs); ok {
			m := st.get().(map[string]any)
			names := []string{"ghost", "Ghost2"}
			if comps, _ := root["components"].(map[string]any); comps != nil {
				if ss, _ := comps["schemas"].(map[string]any); ss != nil {
					for _, cs := range ss {
						if cm, _ := cs.(map[string]any); cm != nil {
							if ps, _ := cm["properties"].(map[string]any); ps != nil {
								for k := range ps {
									names = append(names, k)
								}
							}
						}
					}
				}
			}
			sort.Strings(names)
			req, _ := m["required"].([]any)
			for i, n := 0, rapid.IntRange(1, 3).Draw(t, "n_undeclared"); i < n; i++ {
				req = append(req, names[rapid.IntRange(0, len(names)-1).Draw(t, "undeclared_name")])
			}
			m["required"] = req
			return "required-undeclared", st.path
		}
	case "empty-security-requirement":
		// `{}` inside a security list is OpenAPI's way to say "or anonymous"
		reqs := []any{map[string]any{}}
		if rapid.Bool().Draw(t, "sec_two") {
			names := []string{}
			if comps, _ := root["components"].(map[string]any); comps != nil {
				if ss, _ := comps["securitySchemes"].(map[string]any); ss != nil {
					for n := range ss {
						names = append(names, n)
					}
					sort.Strings(names)
				}
			}
			if len(names) > 0 {
				reqs = append(reqs, map[string]any{names[0]: []any{}})
			}
		}
		if s, ok := pick(byKey("responses")); ok && rapid.Bool().Draw(t, "sec_on_operation") {
			s.parent.(map[string]any)["security"] = reqs
			return "empty-security-requirement", append(append([]string{}, s.path[:len(s.path)-1]...), "security")
		}
		root["security"] = reqs
		return "empty-security-requirement", []string{"security"}
	case "forward-array-component":
		// a component array whose items reference a component that sorts after it (or itself)
		comps, _ := root["components"].(map[string]any)
		if comps == nil {
			comps = map[string]any{}
			root["components"] = comps
		}
		schemas, _ := comps["schemas"].(map[string]any)
		if schemas == nil {
			schemas = map[string]any{}
			comps["schemas"] = schemas
		}
		schemas["ZzItem"] = map[string]any{"type": "object", "properties": map[string]any{"a": map[string]any{"type": "string"}}}
		target := rapid.SampledFrom([]string{"ZzItem", "AaList"}).Draw(t, "fwd_target")
		schemas["AaList"] = map[string]any{"type": "array", "items": map[string]any{"$ref": "#/components/schemas/" + target}}
		if s, ok := pick(byKey("schema")); ok && rapid.Bool().Draw(t, "use_list") {
			s.set(map[string]any{"$ref": "#/components/schemas/AaList"})
		}
		return "forward-array-component:" + target, []string{"components", "schemas", "AaList"}
	case "servers":
		root["servers"] = rapid.SampledFrom([]any{[]any{nil}, []any{map[string]any{"url": "/v1"}, nil}, []any{map[string]any{}}, []any{map[string]any{"url": nil}}, []any{map[string]any{"url": "{a}", "variables": map[string]any{"a": nil}}},
			[]any{map[string]any{"url": "https://h.example/v1", "variables": map[string]any{"unused": nil}}}, []any{map[string]any{"url": "https://h.example/{a}", "variables": map[string]any{"a": map[string]any{"default": "v1"}, "unused": map[string]any{"default": float64(3)}}}},
			[]any{map[string]any{"url": "/v1"}, map[string]any{"url": "/{b}", "variables": map[string]any{"b": nil}}},
			// urls that net/url refuses (a variable left in the host because its declaration is gone, ...)
			[]any{map[string]any{"url": "https://{tenant}.api.example.com/v2"}}, []any{map[string]any{"url": "https://{tenant}.api.example.com:{port}/v2", "variables": map[string]any{"tenant": map[string]any{"default": "acme"}}}},
			[]any{map[string]any{"url": "http://[::1/v1"}}, []any{map[string]any{"url": "https://h.example/%zz"}}, []any{map[string]any{"url": "://h.example/v1"}}, []any{map[string]any{"url": "https://h.example:port/v1"}},
			[]any{map[string]any{"url": "https://h.example/{a}", "variables": map[string]any{"a": map[string]any{"default": "%"}}}}, []any{map[string]any{"url": "\x7f://h"}}}).Draw(t, "servers_val")
		return "servers", []string{"servers"}
	case "security-scheme":
		// schemes of every type, complete and with parts missing (goag uses few of their
		// fields, but reads all of them)
		flow := func(label string) any {
			return rapid.SampledFrom([]any{map[string]any{"authorizationUrl": "https://a.example/auth", "tokenUrl": "https://a.example/token", "scopes": map[string]any{"read": "r"}},
				map[string]any{"tokenUrl": "https://a.example/token", "scopes": map[string]any{}}, map[string]any{"scopes": map[string]any{"a": "b"}}, map[string]any{}, nil}).Draw(t, label)
		}
		flows := map[string]any{}
		for _, f := range []string{"implicit", "password", "clientCredentials", "authorizationCode"} {
			if rapid.Bool().Draw(t, "flow_"+f) {
				flows[f] = flow("flow_val_" + f)
			}
		}
		scheme := rapid.SampledFrom([]any{map[string]any{"type": "oauth2", "flows": flows}, map[string]any{"type": "oauth2"}, map[string]any{"type": "oauth2", "flows": nil},
			map[string]any{"type": "openIdConnect"}, map[string]any{"type": "openIdConnect", "openIdConnectUrl": "https://a.example/.well-known/openid-configuration"},
			map[string]any{"type": "apiKey"}, map[string]any{"type": "apiKey", "in": "header"}, map[string]any{"type": "apiKey", "name": "X-K"}, map[string]any{"type": "apiKey", "in": "body", "name": "k"},
			map[string]any{"type": "http"}, map[string]any{"type": "http", "scheme": "digest"}, map[string]any{"type": "http", "scheme": "bearer", "bearerFormat": float64(1)}, map[string]any{"type": "mutualTLS"}, map[string]any{}}).Draw(t, "scheme_val")
		comps, _ := root["components"].(map[string]any)
		if comps == nil {
			comps = map[string]any{}
			root["components"] = comps
		}
		ss, _ := comps["securitySchemes"].(map[string]any)
		if ss == nil {
			ss = map[string]any{}
			comps["securitySchemes"] = ss
		}
		ss["plantedScheme"] = scheme
		if rapid.Bool().Draw(t, "scheme_used") {
			root["security"] = []any{map[string]any{"plantedScheme": []any{}}}
		}
		return "security-scheme", []string{"components", "securitySchemes", "plantedScheme"}
	case "bad-type":
		if s, ok := pick(byKey("type", "format")); ok {
			s.set(rapid.SampledFrom([]string{"null", "uuid", "decimal", "file", "float", "int8", ""}).Draw(t, "badtype"))
			return "bad-type", s.path
		}
	case "empty-map":
		var maps []site
		for _, s := range sites {
			if _, ok := s.get().(map[string]any); ok {
				maps = append(maps, s)
			}
		}
		if s, ok := pick(maps); ok {
			s.set(map[string]any{})
			return "empty-map", s.path
		}
	case "param-missing":
		if s, ok := pick(byKey("in", "name")); ok && s.del() {
			return "param-missing", s.path
		}
	case "status-pattern":
		if s, ok := pick(byKey("responses")); ok {
			if m, ok := s.get().(map[string]any); ok {
				m[rapid.SampledFrom([]string{"2XX", "4xx", "abc", "20", "1000", "-1", "200.0"}).Draw(t, "status")] = map[string]any{"description": ""}
				return "status-pattern", s.path
			}
		}
	case "dup-path-var":
		paths, _ := root["paths"].(map[string]any)
		if paths != nil {
			paths["/dup/{id}/x/{id}"] = map[string]any{"get": map[string]any{"parameters": []any{map[string]any{"name": "id", "in": "path", "required": true, "schema": map[string]any{"type": "string"}}}, "responses": map[string]any{"default": map[string]any{"description": ""}}}}
			return "dup-path-var", []string{"paths", "/dup/{id}/x/{id}"}
		}
	}
	// fall back to a plain deletion
	if s, ok := pick(sites); ok && s.del() {
		return "delete", s.path
	}
	return "none", nil
}

// namedElements collects the names an error can use to say where: path
// templates, methods, statuses, parameter / property / component names, media types.
func namedElements(node any, out map[string]bool, parentKey string) {
	switch n := node.(type) {
	case map[string]any:
		for k, v := range n {
			switch parentKey {
			case "paths", "properties", "schemas", "responses", "parameters", "headers", "requestBodies", "securitySchemes", "content", "variables", "mapping", "links", "examples", "callbacks":
				if len(k) > 0 {
					out[k] = true
				}
			}
			if k == "security" {
				if lst, ok := v.([]any); ok {
					for _, alt := range lst {
						if m, ok := alt.(map[string]any); ok {
							for name := range m {
								out[name] = true
							}
						}
					}
				}
			}
			switch k {
			case "get", "put", "post", "delete", "options", "head", "patch", "trace":
				if parentKey != "properties" {
					out[strings.ToUpper(k)] = true
					out[k] = true
				}
			case "name", "operationId", "$ref":
				if s, ok := v.(string); ok && s != "" {
					out[s] = true
					if i := strings.LastIndex(s, "/"); i >= 0 && i+1 < len(s) {
						out[s[i+1:]] = true
					}
				}
			}
			namedElements(v, out, k)
		}
	case []any:
		for _, v := range n {
			namedElements(v, out, parentKey)
		}
	}
}

func mentionsElement(errText string, names map[string]bool) (string, bool) {
	// entries of the top-level servers list have no name; their index is their location
	if m := serverIndexRe.FindString(errText); m != "" {
		return m, true
	}
	for n := range names {
		if len(n) >= 1 && strings.Contains(errText, n) {
			// single characters are too weak a witness unless delimited
			if len(n) < 3 && !strings.Contains(errText, `"`+n+`"`) && !strings.Contains(errText, `'`+n+`'`) {
				continue
			}
			return n, true
		}
	}
	return "", false
}

var serverIndexRe = regexp.MustCompile(`\bservers?[ .]\d+\b`)

// ---- worker ---------------------------------------------------------------

func c15Seeds(e *Env) []map[string]any {
	var out []map[string]any
	add := func(bs []byte) {
		var m map[string]any
		if json.Unmarshal(bs, &m) == nil && m != nil {
			out = append(out, m)
		}
	}
	rows := append(specgen.OperationRows(), specgen.TextRows()...)
	for i, row := range rows {
		if row.Doc != nil && i%3 == 0 {
			add(row.Doc.JSON())
		}
	}
	for i, row := range specgen.MatrixRows() {
		if i%97 == 0 {
			add(row.Doc.JSON())
		}
	}
	fixtures, _ := filepath.Glob(filepath.Join(e.Repo, "tests", "*", "openapi.yaml"))
	fixtures = append(fixtures, filepath.Join(e.Repo, "examples", "petstore", "openapi.yaml"))
	for _, f := range fixtures {
		bs, err := os.ReadFile(f)
		if err != nil {
			continue
		}
		var tree any
		if yaml.Unmarshal(bs, &tree) != nil {
			continue
		}
		if js, err := json.Marshal(tree); err == nil {
			add(js)
		}
	}
	return out
}

func deepCopy(m map[string]any) map[string]any {
	bs, _ := json.Marshal(m)
	var out map[string]any
	json.Unmarshal(bs, &out)
	return out
}

type c15Verdict struct {
	Class  string // loader-rejected | ok | error | violation:<kind> | timeout
	Detail string
	Kind   string
}

func runGen1(self, specPath, outDir string, client bool, timeout time.Duration) (gen1Result, string, error) {
	ctx, cancel := context.WithTimeout(context.Background(), timeout)
	defer cancel()
	cl := "0"
	if client {
		cl = "1"
	}
	cmd := exec.CommandContext(ctx, self, "gen1", specPath, outDir, cl)
	var stdout, stderr bytes.Buffer
	cmd.Stdout, cmd.Stderr = &stdout, &stderr
	err := cmd.Run()
	var res gen1Result
	if ctx.Err() != nil {
		return res, stderr.String(), fmt.Errorf("timeout")
	}
	if err != nil {
		return res, stderr.String(), fmt.Errorf("child died: %v", err)
	}
	if jerr := json.Unmarshal(stdout.Bytes(), &res); jerr != nil {
		return res, stderr.String(), fmt.Errorf("child output: %v", jerr)
	}
	return res, stderr.String(), nil
}

func panicSite(p string) string {
	// first goag frame of the stack, for grouping by root cause
	lines := strings.Split(p, "\n")
	for i, l := range lines {
		if strings.Contains(l, "github.com/vkd/goag") && !strings.Contains(l, "inproc") && i+1 < len(lines) {
			fn := strings.TrimSpace(l)
			if j := strings.Index(fn, "("); j > 0 {
				fn = fn[:j]
			}
			fn = strings.TrimPrefix(fn, "github.com/vkd/goag/")
			return fn
		}
	}
	return firstWords(p, 6)
}

func c15Judge(self, dir string, doc map[string]any, client bool, cli string, viaCLI bool) c15Verdict {
	spec, _ := json.MarshalIndent(doc, "", " ")
	specPath := filepath.Join(dir, "openapi.json")
	os.WriteFile(specPath, spec, 0o644)
	out := filepath.Join(dir, "out")
	os.RemoveAll(out)
	os.MkdirAll(out, 0o755)
	res, stderr, err := runGen1(self, specPath, out, client, 10*time.Second)
	if err != nil && err.Error() == "timeout" {
		// (generation takes milliseconds; the retries only rule out a loaded machine)
		n := 0
		for i := 0; i < 2; i++ {
			if _, _, e2 := runGen1(self, specPath, out, client, 30*time.Second); e2 != nil && e2.Error() == "timeout" {
				n++
			}
		}
		if n == 2 {
			return c15Verdict{Class: "violation", Kind: "nontermination", Detail: "goag did not terminate within 30 s (10 s, then twice 30 s)"}
		}
		return c15Verdict{Class: "timeout", Detail: "10 s timeout not reproduced at 30 s"}
	}
	if err != nil {
		site := "fatal"
		switch {
		case strings.Contains(stderr, "stack overflow") || strings.Contains(stderr, "stack exceeds"):
			site = "stack-overflow"
			// the frame at which the stack ran out is an arbitrary member (or leaf) of the
			// recursion: name the recursion by the goag function that recurs most often
			// (template execution if it is part of the cycle)
			counts := map[string]int{}
			for _, l := range strings.Split(stderr, "\n") {
				if strings.Contains(l, "github.com/vkd/goag/") && !strings.Contains(l, "inproc") && !strings.HasPrefix(l, "\t") {
					fn := strings.TrimSpace(l)
					// (the argument list starts at the first parenthesis that does not follow a dot: generator.(*T).M(0x..))
					for j := 1; j < len(fn); j++ {
						if fn[j] == '(' && fn[j-1] != '.' {
							fn = fn[:j]
							break
						}
					}
					counts[strings.TrimPrefix(fn, "github.com/vkd/goag/")]++
				}
			}
			best := ""
			for fn, n := range counts {
				if best == "" || n > counts[best] || (n == counts[best] && fn < best) {
					best = fn
				}
			}
			if counts["generator.ExecuteTemplate"] >= 8 {
				best = "generator.ExecuteTemplate"
			}
			if best != "" {
				site += ":" + best
			}
			if strings.Contains(stderr, "kin-openapi") && !strings.Contains(stderr, "github.com/vkd/goag/") {
				return c15Verdict{Class: "loader-rejected", Detail: "loader overflowed the stack"}
			}
		}
		return c15Verdict{Class: "violation", Kind: "fatal:" + site, Detail: fmt.Sprintf("generator process died (%v): %s", err, tail(stderr, 600))}
	}
	if res.LoaderErr != "" {
		return c15Verdict{Class: "loader-rejected", Detail: res.LoaderErr}
	}
	if res.Panic != "" {
		return c15Verdict{Class: "violation", Kind: "panic:" + panicSite(res.Panic), Detail: "goag panicked: " + tail(res.Panic, 900)}
	}
	v := c15Verdict{Class: "ok"}
	if !res.OK {
		v.Class = "error"
		v.Detail = res.Err
		if res.Err == "\x00empty" || strings.TrimSpace(res.Err) == "" {
			return c15Verdict{Class: "violation", Kind: "empty-error", Detail: "goag returned an error with empty text"}
		}
		names := map[string]bool{}
		namedElements(doc, names, "")
		if _, ok := mentionsElement(res.Err, names); !ok {
			kind := "error-without-location:" + normalizeMsg(lastWords(res.Err, 8))
			if strings.Contains(res.Err, "execute template") {
				kind = "error-without-location:template-execution"
			}
			return c15Verdict{Class: "violation", Kind: kind, Detail: "error does not mention any named element of the document: " + res.Err}
		}
	}
	if viaCLI && cli != "" {
		cliOut := filepath.Join(dir, "cliout")
		os.RemoveAll(cliOut)
		os.MkdirAll(cliOut, 0o755)
		ctx, cancel := context.WithTimeout(context.Background(), 30*time.Second)
		cfg := gen1Config(client)
		cfgFile := filepath.Join(dir, "nonexistent.goag.yaml")
		if y := cfg.GoagYAML(); y != nil {
			cfgFile = filepath.Join(dir, "cli.goag.yaml")
			os.WriteFile(cfgFile, y, 0o644)
		}
		cmd := exec.CommandContext(ctx, cli, cfg.CLIArgs(specPath, cfgFile, cliOut)...)
		var se bytes.Buffer
		cmd.Stderr = &se
		cmd.Stdout = &se
		err := cmd.Run()
		cancel()
		failed := err != nil
		if strings.Contains(se.String(), "panic:") || strings.Contains(se.String(), "goroutine ") {
			return c15Verdict{Class: "violation", Kind: "cli-panic", Detail: "CLI printed a panic: " + tail(se.String(), 600)}
		}
		if failed != (v.Class == "error") {
			return c15Verdict{Class: "violation", Kind: "cli-exit-status", Detail: fmt.Sprintf("in-process result error=%v but CLI exit failure=%v: %s", v.Class == "error", failed, tail(se.String(), 300))}
		}
	}
	return v
}

func c15Worker(e *Env) *res.Result {
	r := res.New()
	self, _ := os.Executable()
	cli, _ := cliBinaryShared(e)
	dir := filepath.Join(e.Scratch, "c15")
	os.MkdirAll(dir, 0o755)
	seeds := c15Seeds(e)
	n := 300
	if !e.Quick() {
		n = 3000
	}
	disabled := disabledTags()
	var lastFail *res.Failure
	prop := func(t *rapid.T) {
		var doc map[string]any
		if rapid.IntRange(0, 5).Draw(t, "seed_kind") == 0 {
			c := specgen.NewCtx(t, disabled)
			json.Unmarshal(c.Composition(specgen.DefaultCompOpts()).JSON(), &doc)
		} else {
			doc = deepCopy(seeds[rapid.IntRange(0, len(seeds)-1).Draw(t, "seed")])
		}
		before, _ := json.Marshal(doc)
		nm := rapid.IntRange(1, 3).Draw(t, "nmutations")
		var descr []string
		for i := 0; i < nm; i++ {
			name, path := mutate(t, doc)
			descr = append(descr, name+"@/"+strings.Join(path, "/"))
		}
		after, _ := json.Marshal(doc)
		client := rapid.Bool().Draw(t, "client")
		viaCLI := rapid.IntRange(0, 19).Draw(t, "via_cli") == 0
		// the options a user may pass beside the document (gen1 reads them from the environment)
		handlerName := rapid.SampledFrom([]string{"openapi.yaml", "openapi.yaml", "openapi.yaml", "openapi", "v1/openapi", "", "spec.", ".hidden"}).Draw(t, "spec_handler_name")
		os.Setenv("VERIF_GEN1_SPEC_HANDLER", handlerName)
		os.Setenv("VERIF_GEN1_CORS", map[bool]string{true: "1", false: ""}[rapid.IntRange(0, 2).Draw(t, "cors") == 0])
		os.Setenv("VERIF_GEN1_NO_API_HANDLER", map[bool]string{true: "1", false: ""}[rapid.IntRange(0, 7).Draw(t, "no_api_handler") == 0])
		os.Setenv("VERIF_GEN1_BASEPATH", rapid.SampledFrom([]string{"", "", "", "/x", "/", "x"}).Draw(t, "basepath"))
		v := c15Judge(self, dir, doc, client, cli, viaCLI)
		if handlerName != "openapi.yaml" {
			r.Label("option:spec-handler-name-unusual")
		}
		r.Evaluations++
		r.Label("outcome:" + v.Class)
		if v.Class == "loader-rejected" {
			return
		}
		for _, d := range descr {
			r.Label("mutation:" + strings.SplitN(d, "@", 2)[0])
		}
		if !bytes.Equal(before, after) {
			r.NonTrivialHash(hashStr(string(after)))
		}
		if v.Class == "timeout" {
			r.Label("inconclusive:timeout")
			return
		}
		if v.Class == "violation" {
			f := res.Failure{Property: "C15", Kind: v.Kind, Clause: strings.SplitN(v.Kind, ":", 2)[0], Detail: fmt.Sprintf("mutations %v client=%v: %s", descr, client, v.Detail),
				Replay: map[string]any{"openapi.json": string(mustIndent(doc)), "mutations.txt": strings.Join(descr, "\n"), "config.json": fmt.Sprintf(`{"client":%v}`, client)}}
			if ke := e.Known.MatchKind("C15", v.Kind); ke != nil {
				r.KnownHits[ke.ID]++
				return
			}
			lastFail = &f
			t.Fatalf("%s", v.Detail)
		}
		r.Sample(map[string]any{"mutations": descr, "client": client, "via_cli": viaCLI, "outcome": v.Class, "error": clip(v.Detail, 160)}, 6)
	}
	if e.Shard == 0 && cli != "" {
		c15DirMode(e, r, cli, dir)
	}
	ok, _ := rt.Check("C15", rt.Seed(e.Seed, rt.SeedStr("C15"), uint64(e.Shard)), n, 30*time.Second, prop)
	if !ok && lastFail != nil {
		r.Fail(*lastFail)
	}
	return r
}

func mustIndent(v any) []byte {
	bs, _ := json.MarshalIndent(v, "", " ")
	return bs
}

func c15Replay(e *Env, path string) *res.Result {
	r := res.New()
	self, _ := os.Executable()
	bs, err := os.ReadFile(filepath.Join(path, "openapi.json"))
	if err != nil {
		r.Inconclusive = append(r.Inconclusive, err.Error())
		return r
	}
	var doc map[string]any
	json.Unmarshal(bs, &doc)
	var cfg struct{ Client bool }
	if cb, err := os.ReadFile(filepath.Join(path, "config.json")); err == nil {
		json.Unmarshal(cb, &cfg)
	}
	dir := filepath.Join(e.Scratch, "c15replay")
	os.MkdirAll(dir, 0o755)
	cli, _ := cliBinaryShared(e)
	v := c15Judge(self, dir, doc, cfg.Client, cli, true)
	r.Evaluations = 1
	fmt.Printf("replay: class=%s kind=%s %s\n", v.Class, v.Kind, clip(v.Detail, 400))
	if v.Class == "violation" {
		r.Fail(res.Failure{Property: "C15", Kind: v.Kind, Clause: "replay", Detail: v.Detail})
	}
	return r
}

// c15DirMode: the command's --dir mode (one spec per sub-directory) exits non-zero
// when any of the directories cannot be generated, wherever it stands in the order,
// and zero when all can.
func c15DirMode(e *Env, r *res.Result, cli, dir string) {
	good := `{"openapi":"3.0.3","info":{"title":"t","version":"1"},"paths":{"/x":{"get":{"responses":{"default":{"description":""}}}}}}`
	bad := `{"openapi":"3.0.3","info":{"title":"t","version":"1"},"paths":{"/x":{"get":{"parameters":[{"name":"q","in":"query","schema":{"type":"number","format":"decimal"}}],"responses":{"default":{"description":""}}}}}}`
	names := []string{"a_first", "m_middle", "z_last"}
	for _, badAt := range []int{-1, 0, 1, 2} {
		tree := filepath.Join(dir, fmt.Sprintf("dirmode%d", badAt+1))
		os.RemoveAll(tree)
		for i, n := range names {
			os.MkdirAll(filepath.Join(tree, n), 0o755)
			content := good
			if i == badAt {
				content = bad
			}
			os.WriteFile(filepath.Join(tree, n, "openapi.yaml"), []byte(content), 0o644)
		}
		ctx, cancel := context.WithTimeout(context.Background(), 60*time.Second)
		cmd := exec.CommandContext(ctx, cli, "--dir", tree, "--package", "svc")
		cmd.Dir = tree
		out, err := cmd.CombinedOutput()
		cancel()
		r.Evaluations++
		r.Label("dir-mode:checked")
		failed := err != nil
		if failed != (badAt >= 0) {
			r.Fail(res.Failure{Property: "C15", Kind: "cli-dir-mode-exit-status", Clause: "exit-status",
				Detail: fmt.Sprintf("goag --dir over %v with the ungenerable spec at position %d: exit failure=%v, want %v; output: %s", names, badAt, failed, badAt >= 0, tail(string(out), 400)),
				Replay: map[string]any{"openapi.json": bad, "mutations.txt": fmt.Sprintf("--dir mode, broken spec in directory %d of %v", badAt, names)}})
		}
		os.RemoveAll(tree)
	}
}

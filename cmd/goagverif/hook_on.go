//go:build verif

package main

import (
	"sort"

	"github.com/vkd/goag/generator"
)

// templateCoverage reports which of goag's named templates this process rendered
// (hook behind build tag `verif` in /repo/generator/verif_hook.go).
func templateCoverage() map[string]any {
	used := generator.VerifTemplatesUsed()
	defined := generator.VerifTemplatesDefined()
	var unused []string
	n := 0
	for _, d := range defined {
		if used[d] > 0 {
			n++
		} else {
			unused = append(unused, d)
		}
	}
	sort.Strings(unused)
	return map[string]any{"defined": len(defined), "executed_via_ExecuteTemplate": n, "never_executed_directly": unused, "note": "templates only reached through {{template}} inclusion are not recorded by the hook; shard 0 only"}
}

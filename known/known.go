// Package known reads /verif/KNOWN_FINDINGS.txt (never written at run time).
package known

import (
	"bufio"
	"os"
	"path"
	"path/filepath"
	"strings"
)

type Entry struct {
	Property string
	ID       string
	Match    []string // glob patterns over the failure kind
	Replay   string
	Text     string
	exact    map[string]bool
}

type Fixed struct {
	Property string
	Commit   string
	Text     string
}

type File struct {
	Known []Entry
	Fixed []Fixed
}

func Load(p string) (*File, error) {
	f, err := os.Open(p)
	if err != nil {
		if os.IsNotExist(err) {
			return &File{}, nil
		}
		return nil, err
	}
	defer f.Close()
	out := &File{}
	sc := bufio.NewScanner(f)
	sc.Buffer(make([]byte, 1<<20), 1<<20)
	for sc.Scan() {
		line := strings.TrimSpace(sc.Text())
		switch {
		case strings.HasPrefix(line, "known:"):
			rest := strings.TrimSpace(strings.TrimPrefix(line, "known:"))
			text := ""
			if i := strings.Index(rest, " :: "); i >= 0 {
				text = rest[i+4:]
				rest = rest[:i]
			}
			e := Entry{Text: text, exact: map[string]bool{}}
			for _, f := range strings.Fields(rest) {
				k, v, _ := strings.Cut(f, "=")
				switch k {
				case "property":
					e.Property = v
				case "id":
					e.ID = v
				case "match":
					for _, m := range strings.Split(v, "|") {
						if strings.HasPrefix(m, "@") {
							// exact kinds listed one per line in a committed file
							bs, err := os.ReadFile(filepath.Join(filepath.Dir(p), strings.TrimPrefix(m, "@")))
							if err != nil {
								return nil, err
							}
							for _, l := range strings.Split(string(bs), "\n") {
								if l = strings.TrimSpace(l); l != "" {
									e.exact[l] = true
								}
							}
							continue
						}
						e.Match = append(e.Match, m)
					}
				case "replay":
					e.Replay = v
				}
			}
			out.Known = append(out.Known, e)
		case strings.HasPrefix(line, "fixed:"):
			rest := strings.Fields(strings.TrimSpace(strings.TrimPrefix(line, "fixed:")))
			fx := Fixed{}
			if len(rest) >= 2 {
				fx.Property = strings.TrimPrefix(rest[0], "property=")
				fx.Commit = rest[1]
				fx.Text = strings.Join(rest[2:], " ")
			}
			out.Fixed = append(out.Fixed, fx)
		}
	}
	return out, sc.Err()
}

// MatchKind returns the known entry (of the given property) whose pattern matches
// the failure kind, or nil.
func (f *File) MatchKind(property, kind string) *Entry {
	for i := range f.Known {
		e := &f.Known[i]
		if e.Property != property {
			continue
		}
		if e.exact[kind] {
			return e
		}
		for _, m := range e.Match {
			if ok, _ := path.Match(m, kind); ok {
				return e
			}
			if strings.HasSuffix(m, "**") && strings.HasPrefix(kind, strings.TrimSuffix(m, "**")) {
				return e
			}
		}
	}
	return nil
}

// Package res is the result format shared by the orchestrator's in-process workers
// and the compiled driver shards, and its merge into an evidence file.
package res

import (
	"encoding/json"
	"fmt"
	"hash/fnv"
	"os"
	"sort"
)

type Failure struct {
	Property string `json:"property"`
	// Kind is the narrow classification of the failing case used by the known-findings
	// matcher (never the property id alone).
	Kind   string `json:"kind"`
	Clause string `json:"clause"` // which oracle clause failed
	Detail string `json:"detail"`
	Replay any    `json:"replay,omitempty"` // self-contained replay material
}

type Result struct {
	Evaluations  int64               `json:"evaluations"`
	Sigs         []uint64            `json:"sigs,omitempty"` // distinct non-trivial case signatures
	Samples      []any               `json:"samples,omitempty"`
	Labels       map[string]int64    `json:"labels,omitempty"`
	Failures     []Failure           `json:"failures,omitempty"`
	KnownHits    map[string]int64    `json:"known_hits,omitempty"`
	Inconclusive []string            `json:"inconclusive,omitempty"`
	Extra        map[string]any      `json:"extra,omitempty"`
	Lists        map[string][]string `json:"lists,omitempty"`

	sigset map[uint64]struct{}
}

const maxSigs = 4 << 20

func New() *Result {
	return &Result{Labels: map[string]int64{}, KnownHits: map[string]int64{}, Extra: map[string]any{}, sigset: map[uint64]struct{}{}}
}

func (r *Result) Label(l string) { r.Labels[l]++ }

func (r *Result) LabelN(l string, n int64) { r.Labels[l] += n }

// NonTrivial records the signature of a non-trivial case.
func (r *Result) NonTrivial(parts ...any) {
	h := fnv.New64a()
	for _, p := range parts {
		fmt.Fprintf(h, "%v\x00", p)
	}
	r.NonTrivialHash(h.Sum64())
}

func (r *Result) NonTrivialHash(s uint64) {
	if r.sigset == nil {
		r.sigset = map[uint64]struct{}{}
	}
	if len(r.sigset) >= maxSigs {
		return
	}
	r.sigset[s] = struct{}{}
}

func (r *Result) Sample(s any, max int) {
	if len(r.Samples) < max {
		r.Samples = append(r.Samples, s)
	}
}

func (r *Result) Fail(f Failure) {
	if len(r.Failures) < 5000 {
		r.Failures = append(r.Failures, f)
	}
}

func (r *Result) Seal() {
	r.Sigs = r.Sigs[:0]
	for s := range r.sigset {
		r.Sigs = append(r.Sigs, s)
	}
	sort.Slice(r.Sigs, func(i, j int) bool { return r.Sigs[i] < r.Sigs[j] })
}

func (r *Result) WriteFile(path string) error {
	r.Seal()
	bs, err := json.Marshal(r)
	if err != nil {
		return err
	}
	return os.WriteFile(path, bs, 0o644)
}

func ReadFile(path string) (*Result, error) {
	bs, err := os.ReadFile(path)
	if err != nil {
		return nil, err
	}
	r := New()
	if err := json.Unmarshal(bs, r); err != nil {
		return nil, err
	}
	for _, s := range r.Sigs {
		r.sigset[s] = struct{}{}
	}
	return r, nil
}

// Merge folds o into r.
func (r *Result) Merge(o *Result, maxSamples int) {
	r.Evaluations += o.Evaluations
	for _, s := range o.Sigs {
		r.NonTrivialHash(s)
	}
	for s := range o.sigset {
		r.NonTrivialHash(s)
	}
	for _, s := range o.Samples {
		r.Sample(s, maxSamples)
	}
	for k, v := range o.Labels {
		r.Labels[k] += v
	}
	for k, v := range o.KnownHits {
		r.KnownHits[k] += v
	}
	r.Failures = append(r.Failures, o.Failures...)
	r.Inconclusive = append(r.Inconclusive, o.Inconclusive...)
	for k, v := range o.Lists {
		if r.Lists == nil {
			r.Lists = map[string][]string{}
		}
		r.Lists[k] = append(r.Lists[k], v...)
	}
	for k, v := range o.Extra {
		switch ov := v.(type) {
		case float64:
			if cur, ok := r.Extra[k].(float64); ok {
				r.Extra[k] = cur + ov
			} else {
				r.Extra[k] = ov
			}
		default:
			if _, ok := r.Extra[k]; !ok {
				r.Extra[k] = v
			}
		}
	}
}

func (r *Result) ListAdd(k, v string) {
	if r.Lists == nil {
		r.Lists = map[string][]string{}
	}
	r.Lists[k] = append(r.Lists[k], v)
}

func (r *Result) Distinct() int { return len(r.sigset) }

#!/bin/bash
# ./run.sh <ID> <quick|thorough|replay> [path]   — see DESIGN.md §2.3
set -u
cd "$(dirname "$0")"
export VERIF_ROOT="$(pwd)"
export GOFLAGS=-mod=mod GOPROXY=off GOSUMDB=off GOTOOLCHAIN=local
export PATH="$PATH:/usr/local/go/bin"
ID="${1:?check id}"; TIER="${2:-quick}"
SCRATCH="$(mktemp -d /tmp/goagverif.XXXXXX)"
export VERIF_SCRATCH="$SCRATCH"
cleanup() { chmod -R u+w "$SCRATCH" 2>/dev/null; rm -rf "$SCRATCH"; }
trap cleanup EXIT
trap 'cleanup; exit 2' INT TERM
[ -f go.sum ] || cp /repo/go.sum go.sum
MODFLAG=""
if [ -n "${VERIF_REPO:-}" ] && [ "${VERIF_REPO}" != "/repo" ]; then
  # sensitivity self-test: link goag from a scratch copy through a modfile overlay
  sed "s#=> /repo#=> ${VERIF_REPO}#" go.mod > "$SCRATCH/go.alt.mod"; cp go.sum "$SCRATCH/go.alt.sum"
  MODFLAG="-modfile=$SCRATCH/go.alt.mod"
  export VERIF_MODFILE="$SCRATCH/go.alt.mod"
fi
if ! go build $MODFLAG -tags verif -o "$SCRATCH/goagverif" ./cmd/goagverif 2>"$SCRATCH/build.log"; then
  echo "INCONCLUSIVE: building the orchestrator against the current tree failed:"; tail -30 "$SCRATCH/build.log"
  # a tree that does not build cannot be said to hold or violate the property
  exit 2
fi
if [ "$TIER" = "replay" ]; then
  "$SCRATCH/goagverif" replay "$ID" "${3:?replay path}"; rc=$?
else
  export VERIF_TIER="$TIER"
  "$SCRATCH/goagverif" run "$ID" "$TIER"; rc=$?
fi
# keep the build cache bounded
sz=$(du -sm "${GOCACHE:-$HOME/.cache/go-build}" 2>/dev/null | cut -f1)
# (never while another go command or another check is running: cleaning under a running build breaks it)
if [ -n "$sz" ] && [ "$sz" -gt 40000 ] && ! pgrep -x go >/dev/null 2>&1 && ! pgrep -x goagverif >/dev/null 2>&1 && ! pgrep -x compile >/dev/null 2>&1; then go clean -cache >/dev/null 2>&1; fi
exit $rc

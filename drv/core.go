// Package drv is the generic, reflection-based driver linked into the batch-compiled
// test binary (DESIGN.md §2.2). It knows nothing about goag's naming: operations are
// linked to handlers through the generated Path()/Method() methods, client methods
// through their parameter type.
package drv

import (
	"bytes"
	"context"
	"encoding/json"
	"errors"
	"flag"
	"fmt"
	"io"
	"net/http"
	"net/http/httptest"
	"os"
	"path/filepath"
	"reflect"
	"runtime/debug"
	"sort"
	"strings"

	"verif/known"
	"verif/refmodel"
	"verif/res"
	"verif/specgen"
)

// PkgReg is what the generated zz_verif_registry.go exports for one package.
type PkgReg struct {
	Name     string
	Types    map[string]reflect.Type
	Funcs    map[string]any
	Vars     map[string]any
	Impls    map[string][]string
	Aliases  map[string]string
	SpecFile string
}

var registered = map[string]*PkgReg{}

func Register(p *PkgReg) { registered[p.Name] = p }

// Config mirrors inproc.Config (kept separate: the driver does not link goag).
type Config struct {
	Client          bool   `json:"client"`
	DoNotEdit       bool   `json:"donotedit"`
	Cors            bool   `json:"cors"`
	BasePath        string `json:"basepath,omitempty"`
	SpecHandlerName string `json:"spec_handler_name,omitempty"`
	Package         string `json:"package,omitempty"`
	SpecFilename    string `json:"spec_filename,omitempty"`
}

func (c Config) ServedSpecName() string {
	if c.SpecHandlerName != "" {
		return c.SpecHandlerName
	}
	if c.SpecFilename != "" {
		return c.SpecFilename
	}
	return "openapi.json"
}

type Pkg struct {
	*PkgReg
	Index    int
	Doc      *specgen.Doc
	SpecRaw  []byte
	Cfg      Config
	Meta     map[string]any
	BasePath string // reference base path (refmodel.BasePath)
	API      reflect.Type
	Ops      []*Op
	Problems []string // harness could not map something
}

type Op struct {
	Pkg           *Pkg
	Method        string
	Template      string
	PathItem      *specgen.PathItem
	Spec          *specgen.Operation
	Field         int
	FieldName     string
	HandlerType   reflect.Type
	RequestIface  reflect.Type
	ResponseIface reflect.Type
	ParamsType    reflect.Type
	ParseHasErr   bool
	ClientMethod  string // name of the *Client method, "" when no client
}

func (o *Op) String() string { return o.Method + " " + o.Template }

var (
	errorType   = reflect.TypeOf((*error)(nil)).Elem()
	ctxType     = reflect.TypeOf((*context.Context)(nil)).Elem()
	handlerType = reflect.TypeOf((*http.Handler)(nil)).Elem()
	readerType  = reflect.TypeOf((*io.Reader)(nil)).Elem()
	rcType      = reflect.TypeOf((*io.ReadCloser)(nil)).Elem()
)

// LoadPkg links a registered package with its spec and config files.
func LoadPkg(dir, name string, index int) (*Pkg, error) {
	reg := registered[name]
	if reg == nil {
		return nil, fmt.Errorf("package %s is not linked into this binary", name)
	}
	raw, err := os.ReadFile(filepath.Join(dir, "specs", name+".json"))
	if err != nil {
		return nil, err
	}
	doc, err := specgen.ParseDoc(raw)
	if err != nil {
		return nil, fmt.Errorf("%s: parse spec: %w", name, err)
	}
	p := &Pkg{PkgReg: reg, Index: index, Doc: doc, SpecRaw: raw, Meta: map[string]any{}}
	if bs, err := os.ReadFile(filepath.Join(dir, "specs", name+".cfg.json")); err == nil {
		var wrap struct {
			Config Config         `json:"config"`
			Meta   map[string]any `json:"meta"`
		}
		if err := json.Unmarshal(bs, &wrap); err != nil {
			return nil, err
		}
		p.Cfg = wrap.Config
		if wrap.Meta != nil {
			p.Meta = wrap.Meta
		}
	}
	p.BasePath = refmodel.BasePath(doc, p.Cfg.BasePath)
	api, ok := reg.Types["API"]
	if !ok || api.Kind() != reflect.Struct {
		return nil, fmt.Errorf("%s: no API struct", name)
	}
	p.API = api
	clientOps := map[reflect.Type]string{}
	if ct, ok := reg.Types["Client"]; ok {
		pt := reflect.PointerTo(ct)
		for i := 0; i < pt.NumMethod(); i++ {
			m := pt.Method(i)
			// func (c *Client) Op(ctx, XParams) (XResponse, error)
			if m.Type.NumIn() == 3 && m.Type.NumOut() == 2 && m.Type.In(1) == ctxType {
				clientOps[m.Type.In(2)] = m.Name
			}
		}
	}
	for i := 0; i < api.NumField(); i++ {
		f := api.Field(i)
		if f.Type.Kind() != reflect.Func {
			continue
		}
		pm, ok1 := f.Type.MethodByName("Path")
		mm, ok2 := f.Type.MethodByName("Method")
		if !ok1 || !ok2 || f.Type.NumIn() != 2 || f.Type.NumOut() != 1 {
			continue // not an operation handler (CORSHandler, security hooks, ...)
		}
		_ = pm
		_ = mm
		zero := reflect.Zero(f.Type)
		tpl := zero.MethodByName("Path").Call(nil)[0].String()
		method := zero.MethodByName("Method").Call(nil)[0].String()
		op := &Op{Pkg: p, Method: method, Template: tpl, Field: i, FieldName: f.Name, HandlerType: f.Type,
			RequestIface: f.Type.In(1), ResponseIface: f.Type.Out(0)}
		pi := doc.Paths[tpl]
		if pi == nil || pi.Op(method) == nil {
			p.Problems = append(p.Problems, fmt.Sprintf("handler field %s reports %s %s, which the spec does not declare", f.Name, method, tpl))
			continue
		}
		op.PathItem, op.Spec = pi, pi.Op(method)
		parse, ok := op.RequestIface.MethodByName("Parse")
		if !ok {
			p.Problems = append(p.Problems, "request interface of "+f.Name+" has no Parse method")
			continue
		}
		op.ParamsType = parse.Type.Out(0)
		op.ParseHasErr = parse.Type.NumOut() == 2
		op.ClientMethod = clientOps[op.ParamsType]
		p.Ops = append(p.Ops, op)
	}
	// every declared operation must have a handler field
	have := map[string]bool{}
	for _, o := range p.Ops {
		have[o.Method+" "+o.Template] = true
	}
	for _, tpl := range specgen.SortedKeys(doc.Paths) {
		for _, mo := range doc.Paths[tpl].Ops() {
			if !have[mo.Method+" "+tpl] {
				p.Problems = append(p.Problems, "no handler field for declared operation "+mo.Method+" "+tpl)
			}
		}
	}
	sort.SliceStable(p.Ops, func(i, j int) bool { return p.Ops[i].Field < p.Ops[j].Field })
	return p, nil
}

func (p *Pkg) OpFor(method, tpl string) *Op {
	for _, o := range p.Ops {
		if o.Method == method && o.Template == tpl {
			return o
		}
	}
	return nil
}

// Implementers returns the concrete types implementing op's response interface.
func (o *Op) Implementers() []reflect.Type {
	var out []reflect.Type
	for _, n := range o.Pkg.Impls[o.ResponseIface.Name()] {
		if t, ok := o.Pkg.Types[strings.TrimPrefix(n, "*")]; ok {
			if strings.HasPrefix(n, "*") {
				t = reflect.PointerTo(t)
			}
			out = append(out, t)
		}
	}
	return out
}

// FillReaders gives every nil io.Reader / io.ReadCloser field an empty reader so
// that writing the value does not dereference nil.
func FillReaders(v reflect.Value) {
	switch v.Kind() {
	case reflect.Struct:
		for i := 0; i < v.NumField(); i++ {
			if v.Type().Field(i).IsExported() {
				FillReaders(v.Field(i))
			}
		}
	case reflect.Interface:
		if v.IsNil() && v.CanSet() && (v.Type() == readerType || v.Type() == rcType) {
			v.Set(reflect.ValueOf(io.NopCloser(bytes.NewReader(nil))))
		}
	}
}

// DefaultResponse builds a harmless response value for op (first implementer;
// Code 200 for a default-kind response).
func (o *Op) DefaultResponse() reflect.Value {
	impls := o.Implementers()
	if len(impls) == 0 {
		return reflect.Zero(o.ResponseIface)
	}
	t := impls[0]
	v := reflect.New(t).Elem()
	if f := v.FieldByName("Code"); f.IsValid() && f.Kind() == reflect.Int {
		f.SetInt(200)
	}
	FillReaders(v)
	return v
}

// AsIface wraps a concrete value into a value of interface type it.
func AsIface(v reflect.Value, it reflect.Type) reflect.Value {
	out := reflect.New(it).Elem()
	if v.IsValid() && !(v.Kind() == reflect.Interface && v.IsNil()) {
		out.Set(v)
	}
	return out
}

// Call is what a stub observed.
type Call struct {
	Op       *Op
	Req      *http.Request // r.HTTP()
	Params   reflect.Value
	ParseErr error
	Panic    string
	// RawBody: content of a raw (reader) request body, read inside the handler (the
	// transport closes it once the handler returns)
	RawBody []byte
}

// Inst is one API value with stubs installed.
type Inst struct {
	PresetHeader http.Header // headers already present on the ResponseWriter when the API is entered
	P            *Pkg
	V            reflect.Value // *API
	H            http.Handler
	Calls        []Call
	// Respond chooses the response value for a call (nil: DefaultResponse).
	Respond func(c *Call) reflect.Value
	// NoParse: stubs do not call Parse().
	NoParse bool
}

func (in *Inst) Reset() { in.Calls = in.Calls[:0] }

// ParseReq calls Parse() on a generated request value by reflection.
func ParseReq(op *Op, req reflect.Value) (params reflect.Value, err error, panicked string) {
	defer func() {
		if r := recover(); r != nil {
			panicked = fmt.Sprintf("%v\n%s", r, debug.Stack())
		}
	}()
	out := req.MethodByName("Parse").Call(nil)
	params = out[0]
	if len(out) == 2 && !out[1].IsNil() {
		err = out[1].Interface().(error)
		// what every handler does with the error: print it and look at its cause
		// (a panic in Error() is a panic while serving the request)
		_ = err.Error()
		for e := errors.Unwrap(err); e != nil; e = errors.Unwrap(e) {
			_ = e.Error()
		}
	}
	return params, err, ""
}

// RawBodyReader returns a reader over raw in one of the shapes a handler's raw
// response body (or a client's raw request body) takes in practice, chosen by n:
// a bytes.Reader behind io.NopCloser (has WriteTo), a plain reader that hands the
// content out in chunks, or a reader that returns its last bytes together with
// io.EOF (as the body of an upstream http.Response with a known length does).
func RawBodyReader(raw []byte, n int) io.ReadCloser {
	switch n % 3 {
	case 1:
		return &chunkReader{data: raw, chunk: 1 + len(raw)/3}
	case 2:
		return &chunkReader{data: raw, chunk: 1 + len(raw)/2, eofWithData: true}
	}
	return io.NopCloser(bytes.NewReader(raw))
}

type chunkReader struct {
	data        []byte
	chunk       int
	eofWithData bool
}

func (c *chunkReader) Read(b []byte) (int, error) {
	if len(c.data) == 0 {
		return 0, io.EOF
	}
	n := copy(b, c.data[:min(len(c.data), c.chunk)])
	c.data = c.data[n:]
	if len(c.data) == 0 && c.eofWithData {
		return n, io.EOF
	}
	return n, nil
}

func (c *chunkReader) Close() error { return nil }

// BodyOfUnknownLength wraps body so that net/http cannot see its length: the request
// then has ContentLength -1, as a chunked (streamed) upload or an HTTP/2 request
// without content-length has.
func BodyOfUnknownLength(body []byte) io.Reader {
	return struct{ io.Reader }{bytes.NewReader(body)}
}

// NewInst builds an API value whose operation handlers are recording stubs.
func NewInst(p *Pkg) *Inst {
	in := &Inst{P: p, V: reflect.New(p.API)}
	for _, op := range p.Ops {
		op := op
		stub := reflect.MakeFunc(op.HandlerType, func(args []reflect.Value) []reflect.Value {
			c := Call{Op: op}
			if m := args[1].MethodByName("HTTP"); m.IsValid() {
				if r, ok := m.Call(nil)[0].Interface().(*http.Request); ok {
					c.Req = r
				}
			}
			if !in.NoParse {
				c.Params, c.ParseErr, c.Panic = ParseReq(op, args[1])
				if c.ParseErr == nil && c.Panic == "" && c.Params.IsValid() && c.Params.Kind() == reflect.Struct {
					if b := c.Params.FieldByName("Body"); b.IsValid() && (b.Type() == readerType || b.Type() == rcType) && !b.IsNil() {
						c.RawBody, _ = io.ReadAll(b.Interface().(io.Reader))
					}
				}
			}
			in.Calls = append(in.Calls, c)
			var resp reflect.Value
			if in.Respond != nil {
				resp = in.Respond(&in.Calls[len(in.Calls)-1])
			}
			if !resp.IsValid() {
				resp = op.DefaultResponse()
			}
			return []reflect.Value{AsIface(resp, op.ResponseIface)}
		})
		in.V.Elem().Field(op.Field).Set(stub)
	}
	in.H = in.V.Interface().(http.Handler)
	return in
}

// SetField sets an API field by name (NotFoundHandler, SpecFileHandler,
// Middlewares, CORSHandler, security hooks); it reports whether the field exists.
func (in *Inst) SetField(name string, v any) bool {
	f := in.V.Elem().FieldByName(name)
	if !f.IsValid() {
		return false
	}
	if v == nil {
		f.Set(reflect.Zero(f.Type()))
		return true
	}
	rv := reflect.ValueOf(v)
	if rv.Type().AssignableTo(f.Type()) {
		f.Set(rv)
		return true
	}
	if rv.Type().ConvertibleTo(f.Type()) {
		f.Set(rv.Convert(f.Type()))
		return true
	}
	panic(fmt.Sprintf("cannot set API.%s (%s) from %s", name, f.Type(), rv.Type()))
}

// Recorder counts WriteHeader / first-Write events (exactly-one-response oracle).
type Recorder struct {
	*httptest.ResponseRecorder
	WriteHeaderCalls int
	Writes           int
}

func NewRecorder() *Recorder { return &Recorder{ResponseRecorder: httptest.NewRecorder()} }

func (r *Recorder) WriteHeader(code int) {
	r.WriteHeaderCalls++
	r.ResponseRecorder.WriteHeader(code)
}

func (r *Recorder) Write(bs []byte) (int, error) {
	r.Writes++
	return r.ResponseRecorder.Write(bs)
}

// Serve runs one request through the API value, recovering panics.
func (in *Inst) Serve(req *http.Request) (rec *Recorder, panicked string) {
	rec = NewRecorder()
	// what an earlier layer (a middleware, the server) may already have put on the writer
	for k, vs := range in.PresetHeader {
		for _, v := range vs {
			rec.Header().Add(k, v)
		}
	}
	defer func() {
		if r := recover(); r != nil {
			panicked = fmt.Sprintf("%v\n%s", r, debug.Stack())
		}
	}()
	in.H.ServeHTTP(rec, req)
	return rec, ""
}

// ---------------------------------------------------------------------------
// shard runner

type Env struct {
	Check   string
	Tier    string
	Seed    uint64
	Shard   int
	NShards int
	Dir     string
	Known   *known.File
	Out     string
}

func (e *Env) Quick() bool { return e.Tier != "thorough" }

type CheckFunc func(p *Pkg, e *Env, r *res.Result)

var checkFuncs = map[string]CheckFunc{}

func RegisterCheck(id string, f CheckFunc) { checkFuncs[id] = f }

// Main is the entry point of the generated driver binary.
func Main(pkgNames []string) {
	var e Env
	flag.StringVar(&e.Check, "check", "", "check id")
	flag.StringVar(&e.Tier, "tier", "quick", "tier")
	flag.Uint64Var(&e.Seed, "seed", 1, "seed")
	flag.IntVar(&e.Shard, "shard", 0, "shard")
	flag.IntVar(&e.NShards, "nshards", 1, "shards")
	flag.StringVar(&e.Dir, "dir", ".", "driver scratch dir")
	flag.StringVar(&e.Out, "out", "result.json", "result file")
	knownPath := flag.String("known", "", "known findings file")
	only := flag.String("only", "", "run only this package")
	flag.Parse()
	kf, err := known.Load(*knownPath)
	if err != nil {
		fmt.Fprintln(os.Stderr, err)
		os.Exit(2)
	}
	e.Known = kf
	f := checkFuncs[e.Check]
	if f == nil {
		fmt.Fprintln(os.Stderr, "driver: unknown check", e.Check)
		os.Exit(2)
	}
	r := res.New()
	// C20: every shard process gives every package a cold start of its own (see ColdStartC20)
	if e.Check == "C20" && *only == "" {
		for i, name := range pkgNames {
			if p, err := LoadPkg(e.Dir, name, i); err == nil {
				silenceLogError(p)
				ColdStartC20(p)
			}
		}
	}
	for i, name := range pkgNames {
		if i%e.NShards != e.Shard || (*only != "" && *only != name) {
			continue
		}
		p, err := LoadPkg(e.Dir, name, i)
		if err != nil {
			r.Inconclusive = append(r.Inconclusive, err.Error())
			continue
		}
		if len(p.Problems) > 0 {
			r.Label("unmappable-package")
			r.LabelN("unmappable", int64(len(p.Problems)))
			r.Sample(map[string]any{"package": name, "unmappable": p.Problems}, 2)
			// the generated API must hold exactly one handler per declared operation, and each
			// must report (Path() / Method()) the operation it was generated for: nothing can
			// be dispatched "to the operation whose template matches" otherwise
			f := res.Failure{Property: e.Check, Kind: "generated-operations-differ-from-document", Clause: "generated-operations-differ-from-document",
				Detail: fmt.Sprintf("package %s: %s", name, strings.Join(p.Problems, "; ")), Replay: p.SpecReplay(nil)}
			FailOrKnown(p, &e, r, f)
		}
		func() {
			defer func() {
				if rec := recover(); rec != nil {
					r.Inconclusive = append(r.Inconclusive, fmt.Sprintf("harness panic in %s on %s: %v\n%s", e.Check, name, rec, debug.Stack()))
				}
			}()
			f(p, &e, r)
		}()
		r.Label("packages")
	}
	if err := r.WriteFile(e.Out); err != nil {
		fmt.Fprintln(os.Stderr, err)
		os.Exit(2)
	}
}

// IsKnown reports whether a failing case is covered by a known finding (counted,
// search continues). Packages built from a saved regression spec of a known finding
// (findings/specs/<check>/<name>.json) are attributed to that finding by name.
func IsKnown(p *Pkg, e *Env, r *res.Result, f *res.Failure) bool {
	if ks, ok := p.Meta["known_spec"].(string); ok && ks != "" {
		f.Kind = "known-spec:" + ks
	}
	if ke := e.Known.MatchKind(f.Property, f.Kind); ke != nil {
		r.KnownHits[ke.ID]++
		return true
	}
	return false
}

// FailOrKnown records a failing case: a case matching a known finding is counted and
// the search continues (returns true); anything else is recorded as a failure.
func FailOrKnown(p *Pkg, e *Env, r *res.Result, f res.Failure) (known bool) {
	if IsKnown(p, e, r, &f) {
		return true
	}
	r.Fail(f)
	return false
}

// SpecReplay is the replay material common to compiled checks.
func (p *Pkg) SpecReplay(extra map[string]any) map[string]any {
	cfg, _ := json.Marshal(p.Cfg)
	m := map[string]any{"openapi.json": string(p.SpecRaw), "config.json": string(cfg), "package": p.Name}
	for k, v := range extra {
		m[k] = v
	}
	return m
}

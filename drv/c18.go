package drv

import (
	"bytes"
	"encoding/json"
	"fmt"
	"io"
	"net/http"
	"net/http/httptest"
	"net/url"
	"os"
	"path/filepath"
	"reflect"
	"sort"
	"strings"
	"time"

	"pgregory.net/rapid"

	"verif/refmodel"
	"verif/res"
	"verif/rt"
)

func init() { RegisterCheck("C18", CheckC18) }

// Project maps a Go value of a generated type onto a generic tree that does not
// depend on type names: struct -> fields by normalised name with embedded structs
// flattened, option wrappers -> {set, value}, named primitives -> their kind,
// times -> instants, readers -> their content.
func Project(v reflect.Value) any {
	if !v.IsValid() {
		return nil
	}
	typ := v.Type()
	if typ == timeType || typ.ConvertibleTo(timeType) && typ.Kind() == reflect.Struct && typ.NumField() == timeType.NumField() {
		return "time:" + v.Convert(timeType).Interface().(time.Time).Format(time.RFC3339Nano)
	}
	if typ == rawMessageType || typ.Kind() == reflect.Slice && typ.Elem().Kind() == reflect.Uint8 {
		bs := v.Bytes()
		if len(bs) == 0 {
			return map[string]any{"raw": nil}
		}
		return map[string]any{"raw": string(bs)}
	}
	switch v.Kind() {
	case reflect.Struct:
		if isOptionStruct(typ) {
			if !v.Field(0).Bool() {
				return map[string]any{"set": false}
			}
			return map[string]any{"set": true, "value": Project(v.Field(1))}
		}
		out := map[string]any{}
		var flat func(v reflect.Value)
		flat = func(v reflect.Value) {
			for i := 0; i < v.NumField(); i++ {
				sf := v.Type().Field(i)
				if !sf.IsExported() {
					continue
				}
				if sf.Anonymous && sf.Type.Kind() == reflect.Struct {
					flat(v.Field(i))
					continue
				}
				out[Norm(sf.Name)] = Project(v.Field(i))
			}
		}
		flat(v)
		return out
	case reflect.Slice:
		arr := make([]any, 0, v.Len())
		for i := 0; i < v.Len(); i++ {
			arr = append(arr, Project(v.Index(i)))
		}
		return arr
	case reflect.Map:
		out := map[string]any{}
		for _, k := range v.MapKeys() {
			out["key:"+fmt.Sprint(k.Interface())] = Project(v.MapIndex(k))
		}
		return out
	case reflect.Interface:
		if v.IsNil() {
			return nil
		}
		if rd, ok := v.Interface().(io.Reader); ok {
			bs, _ := io.ReadAll(rd)
			return "bytes:" + string(bs)
		}
		bs, err := json.Marshal(v.Interface())
		if err != nil {
			return fmt.Sprint(v.Interface())
		}
		tree, _ := refmodel.DecodeJSON(bs)
		return map[string]any{"any": canonJSON(tree)}
	case reflect.Pointer:
		if v.IsNil() {
			return nil
		}
		return Project(v.Elem())
	case reflect.String:
		return "s:" + v.String()
	case reflect.Bool:
		return v.Bool()
	case reflect.Int, reflect.Int8, reflect.Int16, reflect.Int32, reflect.Int64:
		return fmt.Sprintf("i:%d", v.Int())
	case reflect.Float32, reflect.Float64:
		return fmt.Sprintf("f:%v", v.Float())
	}
	return fmt.Sprintf("?%v", v.Interface())
}

// canonJSON renders a decoded JSON tree canonically (sorted keys, numbers as
// rationals) so that equivalent documents compare equal as strings.
func canonJSON(v any) string {
	var sb strings.Builder
	var rec func(v any)
	rec = func(v any) {
		switch x := v.(type) {
		case map[string]any:
			sb.WriteString("{")
			for i, k := range sortedKeysAny(x) {
				if i > 0 {
					sb.WriteString(",")
				}
				kb, _ := json.Marshal(k)
				sb.Write(kb)
				sb.WriteString(":")
				rec(x[k])
			}
			sb.WriteString("}")
		case []any:
			sb.WriteString("[")
			for i, it := range x {
				if i > 0 {
					sb.WriteString(",")
				}
				rec(it)
			}
			sb.WriteString("]")
		case json.Number:
			if r, ok := numRatStr(x.String()); ok {
				sb.WriteString(r)
			} else {
				sb.WriteString(x.String())
			}
		default:
			bs, _ := json.Marshal(x)
			sb.Write(bs)
		}
	}
	rec(v)
	return sb.String()
}

func numRatStr(s string) (string, bool) {
	tree, err := refmodel.DecodeJSON([]byte(s))
	if err != nil {
		return "", false
	}
	// Equiv compares numbers as rationals; a canonical text is enough here
	n, ok := tree.(json.Number)
	if !ok {
		return "", false
	}
	f, err := n.Float64()
	if err != nil {
		return n.String(), true
	}
	return fmt.Sprintf("%g", f), true
}

func treeDiff(a, b any, path string) string {
	switch av := a.(type) {
	case map[string]any:
		bv, ok := b.(map[string]any)
		if !ok {
			return fmt.Sprintf("%s: %T vs %T", path, a, b)
		}
		ka, kb := sortedKeysAny(av), sortedKeysAny(bv)
		if len(ka) != len(kb) {
			return fmt.Sprintf("%s: fields %v vs %v", path, ka, kb)
		}
		namesMatch := true
		for i := range ka {
			if ka[i] != kb[i] {
				namesMatch = false
			}
		}
		if !namesMatch {
			// oneOf carriers: variant fields are named after the component or the
			// position; exactly one is set on each side: compare the set ones
			var sa, sb []any
			carrier := true
			for _, k := range ka {
				m, ok := av[k].(map[string]any)
				if !ok {
					carrier = false
					break
				}
				if set, _ := m["set"].(bool); set {
					sa = append(sa, m["value"])
				}
			}
			for _, k := range kb {
				m, ok := bv[k].(map[string]any)
				if !ok {
					carrier = false
					break
				}
				if set, _ := m["set"].(bool); set {
					sb = append(sb, m["value"])
				}
			}
			if carrier && len(sa) == 1 && len(sb) == 1 {
				return treeDiff(sa[0], sb[0], path+".<variant>")
			}
			if carrier && len(sa) == 0 && len(sb) == 0 {
				return ""
			}
			va := make([]string, 0, len(ka))
			vb := make([]string, 0, len(kb))
			for _, k := range ka {
				va = append(va, fmt.Sprint(av[k]))
			}
			for _, k := range kb {
				vb = append(vb, fmt.Sprint(bv[k]))
			}
			sort.Strings(va)
			sort.Strings(vb)
			for i := range va {
				if va[i] != vb[i] {
					return fmt.Sprintf("%s: fields %v vs %v with different contents", path, ka, kb)
				}
			}
			return ""
		}
		for _, k := range ka {
			if d := treeDiff(av[k], bv[k], path+"."+k); d != "" {
				return d
			}
		}
		return ""
	case []any:
		bv, ok := b.([]any)
		if !ok || len(av) != len(bv) {
			return fmt.Sprintf("%s: arrays differ (%v vs %v)", path, a, b)
		}
		for i := range av {
			if d := treeDiff(av[i], bv[i], fmt.Sprintf("%s[%d]", path, i)); d != "" {
				return d
			}
		}
		return ""
	}
	if !reflect.DeepEqual(a, b) {
		return fmt.Sprintf("%s: %v vs %v", path, clip(fmt.Sprint(a), 80), clip(fmt.Sprint(b), 80))
	}
	return ""
}

// Inject builds a value of type typ from a projected tree (the inverse of Project,
// used to materialise a response description into the other package).
func Inject(tree any, typ reflect.Type) (reflect.Value, bool) {
	v := reflect.New(typ).Elem()
	if typ == timeType || typ.ConvertibleTo(timeType) && typ.Kind() == reflect.Struct && typ.NumField() == timeType.NumField() {
		s, ok := tree.(string)
		if !ok || !strings.HasPrefix(s, "time:") {
			return v, false
		}
		t, err := time.Parse(time.RFC3339Nano, strings.TrimPrefix(s, "time:"))
		if err != nil {
			return v, false
		}
		v.Set(reflect.ValueOf(t).Convert(typ))
		return v, true
	}
	switch typ.Kind() {
	case reflect.Struct:
		m, ok := tree.(map[string]any)
		if !ok {
			return v, false
		}
		if isOptionStruct(typ) {
			if set, _ := m["set"].(bool); !set {
				return v, true
			}
			inner, ok := Inject(m["value"], typ.Field(1).Type)
			if !ok {
				return v, false
			}
			v.Field(0).SetBool(true)
			v.Field(1).Set(inner)
			return v, true
		}
		okAll := true
		var fill func(v reflect.Value)
		fill = func(v reflect.Value) {
			for i := 0; i < v.NumField(); i++ {
				sf := v.Type().Field(i)
				if !sf.IsExported() {
					continue
				}
				if sf.Anonymous && sf.Type.Kind() == reflect.Struct {
					fill(v.Field(i))
					continue
				}
				sub, present := m[Norm(sf.Name)]
				if !present {
					okAll = false
					continue
				}
				fv, ok := Inject(sub, sf.Type)
				if !ok {
					okAll = false
					continue
				}
				v.Field(i).Set(fv)
			}
		}
		fill(v)
		return v, okAll
	case reflect.Slice:
		if typ.Elem().Kind() == reflect.Uint8 {
			m, ok := tree.(map[string]any)
			if !ok {
				return v, false
			}
			if raw, ok := m["raw"].(string); ok {
				v.SetBytes([]byte(raw))
			}
			return v, true
		}
		arr, ok := tree.([]any)
		if !ok {
			return v, false
		}
		s := reflect.MakeSlice(typ, 0, len(arr))
		for _, it := range arr {
			e, ok := Inject(it, typ.Elem())
			if !ok {
				return v, false
			}
			s = reflect.Append(s, e)
		}
		v.Set(s)
		return v, true
	case reflect.Interface:
		if s, ok := tree.(string); ok && strings.HasPrefix(s, "bytes:") && (typ == readerType || typ == rcType) {
			v.Set(reflect.ValueOf(io.NopCloser(bytes.NewReader([]byte(strings.TrimPrefix(s, "bytes:"))))))
			return v, true
		}
		return v, tree == nil
	case reflect.String:
		s, ok := tree.(string)
		if !ok || !strings.HasPrefix(s, "s:") {
			return v, false
		}
		v.SetString(strings.TrimPrefix(s, "s:"))
		return v, true
	case reflect.Bool:
		b, ok := tree.(bool)
		v.SetBool(b)
		return v, ok
	case reflect.Int, reflect.Int8, reflect.Int16, reflect.Int32, reflect.Int64:
		s, ok := tree.(string)
		if !ok {
			return v, false
		}
		var n int64
		if _, err := fmt.Sscanf(s, "i:%d", &n); err != nil {
			return v, false
		}
		v.SetInt(n)
		return v, true
	case reflect.Float32, reflect.Float64:
		s, ok := tree.(string)
		if !ok {
			return v, false
		}
		var f float64
		if _, err := fmt.Sscanf(s, "f:%g", &f); err != nil {
			return v, false
		}
		v.SetFloat(f)
		return v, true
	}
	return v, false
}

type servedOutcome struct {
	Template string
	Dispatch bool
	ParseErr bool
	ErrText  string
	Params   any
	Status   int
	Panic    string
}

func serveOutcome(in *Inst, req *http.Request) servedOutcome {
	in.Reset()
	rec, pan := in.Serve(req)
	o := servedOutcome{Status: rec.Code, Panic: pan}
	if len(in.Calls) == 1 {
		c := in.Calls[0]
		o.Dispatch, o.Template = true, c.Op.Method+" "+c.Op.Template
		if c.Panic != "" {
			o.Panic = c.Panic
		}
		if c.ParseErr != nil {
			o.ParseErr, o.ErrText = true, c.ParseErr.Error()
		} else if c.Params.IsValid() {
			o.Params = Project(c.Params)
		}
	}
	return o
}

func cloneRequest(method, target string, hdr http.Header, body []byte) *http.Request {
	req := httptest.NewRequest(method, target, bytes.NewReader(body))
	for k, vs := range hdr {
		for _, v := range vs {
			req.Header.Add(k, v)
		}
	}
	return req
}

// CheckC18 runs on side A of a pair and loads side B by name.
func CheckC18(p *Pkg, e *Env, r *res.Result) {
	bname, _ := p.Meta["other"].(string)
	rewrite, _ := p.Meta["rewrite"].(string)
	if p.Meta["side"] != "A" {
		// side B only checks that its original exists: goag refusing exactly one side
		// of a pair is a difference in behaviour
		if _, ok := registered[bname]; !ok {
			dropped := map[string]string{}
			if bs, rerr := os.ReadFile(filepath.Join(e.Dir, "specs", "dropped.json")); rerr == nil {
				json.Unmarshal(bs, &dropped)
			}
			if strings.HasPrefix(dropped[bname], "does not compile") {
				r.Label("pair:original-does-not-compile") // C01's business (pre-filter), counted
				return
			}
			rawA, _ := os.ReadFile(filepath.Join(e.Dir, "specs", bname+".json"))
			f := res.Failure{Property: "C18", Kind: "one-side-refused:original", Clause: "one-side-refused", Detail: fmt.Sprintf("pair %s/%s (%s): the rewritten spec generates and compiles but the original does not: %s", bname, p.Name, rewrite, dropped[bname]),
				Replay: p.SpecReplay(map[string]any{"original.openapi.json": string(rawA)})}
			FailOrKnown(p, e, r, f)
		}
		return
	}
	report := func(kind, msg string, replay map[string]any) bool {
		f := res.Failure{Property: "C18", Kind: kind, Clause: kind, Detail: fmt.Sprintf("pair %s/%s (%s, changed %v): %s", p.Name, bname, rewrite, p.Meta["changed"], msg), Replay: p.SpecReplay(replay)}
		return FailOrKnown(p, e, r, f)
	}
	q, err := LoadPkg(e.Dir, bname, p.Index)
	if err != nil {
		// the other side was dropped: goag refused it (outside the domain) or it does not compile
		dropped := map[string]string{}
		if bs, rerr := os.ReadFile(filepath.Join(e.Dir, "specs", "dropped.json")); rerr == nil {
			json.Unmarshal(bs, &dropped)
		}
		why := dropped[bname]
		if strings.HasPrefix(why, "does not compile") {
			rawB, _ := os.ReadFile(filepath.Join(e.Dir, "specs", bname+".json"))
			cls := "other"
			switch {
			case strings.Contains(why, "redeclared"):
				cls = "redeclared"
			case strings.Contains(why, "parse "):
				cls = "syntax"
			case strings.Contains(why, "undefined"):
				cls = "undefined"
			}
			report("rewritten-side-does-not-compile:"+cls, "the original compiles but the rewritten spec does not: "+why, map[string]any{"rewritten.openapi.json": string(rawB)})
			return
		}
		rawB, _ := os.ReadFile(filepath.Join(e.Dir, "specs", bname+".json"))
		report("one-side-refused:rewritten", "the original generates and compiles but goag refuses the rewritten spec: "+why, map[string]any{"rewritten.openapi.json": string(rawB)})
		return
	}
	silenceLogError(p)
	silenceLogError(q)
	ia, ib := NewInst(p), NewInst(q)
	bReplay := map[string]any{"rewritten.openapi.json": string(q.SpecRaw)}
	nonTrivial := fmt.Sprint(p.Meta["changed"]) != "map[]"
	// operations must coincide
	for _, op := range p.Ops {
		if q.OpFor(op.Method, op.Template) == nil {
			if !report("operation-missing", "operation "+op.String()+" exists only on one side", bReplay) {
				return
			}
		}
	}
	n := 600
	if !e.Quick() {
		n = 3000
	}
	var lastFail *res.Failure
	prop := func(t *rapid.T) {
		op := p.Ops[rapid.IntRange(0, len(p.Ops)-1).Draw(t, "op")]
		opB := q.OpFor(op.Method, op.Template)
		if opB == nil {
			return
		}
		mode := rapid.SampledFrom([]string{"request", "request", "body", "response"}).Draw(t, "mode")
		r.Evaluations++
		fail := func(kind, msg string, extra map[string]any) {
			rep := map[string]any{"rewritten.openapi.json": string(q.SpecRaw)}
			for k, v := range extra {
				rep[k] = v
			}
			if sfx := bodyClassSuffix(p, op); sfx != "" {
				kind += sfx
			} else if sfx := bodyClassSuffix(q, opB); sfx != "" {
				kind += sfx
			}
			f := res.Failure{Property: "C18", Kind: kind, Clause: kind, Detail: fmt.Sprintf("pair %s/%s (%s, changed %v) %s: %s", p.Name, bname, rewrite, p.Meta["changed"], op, msg), Replay: p.SpecReplay(rep)}
			if IsKnown(p, e, r, &f) {
				return
			}
			lastFail = &f
			t.Fatalf("%s", f.Detail)
		}
		switch mode {
		case "request", "body":
			// a raw request: path segments, query, headers and body drawn from the lexeme
			// classes of the declared types (and JSON documents / mutants for the body)
			decls, _ := OpParams(op)
			segs := strings.Split(strings.TrimPrefix(op.Template, "/"), "/")
			qv := url.Values{}
			hdr := http.Header{}
			for i, d := range decls {
				lbl := fmt.Sprintf("p%d", i)
				switch d.In {
				case "path":
					lex, _ := drawLexeme(t, d.Prim, lbl)
					if strings.Contains(lex, "/") {
						lex = strings.ReplaceAll(lex, "/", "_")
					}
					for j, s := range segs {
						if s == "{"+d.Name+"}" {
							segs[j] = lex
						}
					}
				case "query", "header":
					k := rapid.SampledFrom([]int{0, 1, 1, 1, 2}).Draw(t, lbl+"_n")
					for j := 0; j < k; j++ {
						lex, _ := drawLexeme(t, d.Prim, fmt.Sprintf("%s_%d", lbl, j))
						if d.In == "query" {
							qv.Add(d.Name, lex)
						} else if headerSafe(lex) {
							hdr.Add(d.Name, lex)
						}
					}
				}
			}
			var body []byte
			docClass := ""
			if rb := p.Doc.ResolveRequestBody(op.Spec.RequestBody); rb != nil {
				if mt := rb.Content["application/json"]; mt != nil && mt.Schema != nil {
					dg := &refmodel.DocGen{Doc: p.Doc, T: t, ExtraKeys: true}
					doc := dg.Gen(mt.Schema, 4)
					docClass = ":valid-document"
					bodyMode := 0
					if mode == "body" {
						bodyMode = rapid.SampledFrom([]int{0, 1, 1, 2, 3}).Draw(t, "body_mode")
					}
					if bodyMode == 3 {
						// one integer just outside (or at the edge of) the int32 / int64 ranges:
						// accepted or refused, but alike by both forms
						if st, ok := refmodel.StretchNumber(t, doc); ok {
							doc = st
							docClass = ":document-with-stretched-integer"
						}
					}
					if bodyMode == 1 {
						if sites := refmodel.FaultSites(p.Doc, mt.Schema, doc); len(sites) > 0 {
							site := sites[rapid.IntRange(0, len(sites)-1).Draw(t, "site")]
							doc = refmodel.ApplyFault(t, p.Doc, mt.Schema, doc, site)
							docClass = ":document-with-" + site.Kind
						}
					}
					body = refmodel.Render(t, doc, false)
					if bodyMode == 2 {
						// not JSON at all: both forms must refuse it
						docClass = ":malformed-json"
						if len(body) > 1 && rapid.Bool().Draw(t, "truncate") {
							body = body[:rapid.IntRange(1, len(body)-1).Draw(t, "cut")]
							if _, err := refmodel.DecodeJSON(body); err == nil {
								// still a JSON value (a shorter number): a streaming decoder would
								// stop after it, so put the garbage first
								body = append([]byte("}{"), body...)
							}
						} else {
							body = []byte(rapid.SampledFrom([]string{"", "{", "[1,", "{\"a\":}", "nul", "<xml/>", "a=b&c=d", "\x00\x01"}).Draw(t, "garbage"))
						}
					}
					hdr.Set("Content-Type", "application/json")
				} else {
					body = []byte(rapid.StringN(0, 40, 160).Draw(t, "rawbody"))
				}
			}
			path := p.BasePath + "/" + strings.Join(segs, "/")
			target := "http://h.example" + escapeForURL((&url.URL{Path: path}).EscapedPath())
			if enc := qv.Encode(); enc != "" {
				target += "?" + enc
			}
			ra := cloneRequest(op.Method, target, hdr, body)
			rb := cloneRequest(op.Method, target, hdr, body)
			ra.URL.Path, rb.URL.Path = path, path
			oa, ob := serveOutcome(ia, ra), serveOutcome(ib, rb)
			rep := map[string]any{"request.txt": op.Method + " " + target + "\n" + fmt.Sprint(hdr) + "\n" + string(body)}
			// a path value spelled like a constant segment makes another operation run: the
			// failure is classified by the operation that ran, and the document was not
			// drawn for its body schema
			if ranTpl := strings.TrimPrefix(oa.Template, op.Method+" "); oa.Dispatch && oa.Template != "" && ranTpl != op.Template {
				if ran, ranB := p.OpFor(op.Method, ranTpl), q.OpFor(op.Method, ranTpl); ran != nil && ranB != nil {
					op, opB = ran, ranB
					if docClass != "" && docClass != ":malformed-json" {
						docClass = ":document-for-another-operation"
					}
					r.Label("request:ran-another-operation")
				}
			}
			switch {
			case oa.Panic != "" || ob.Panic != "":
				fail("panic", "panic on one side: "+firstLine(oa.Panic+ob.Panic), rep)
			case oa.Dispatch != ob.Dispatch || oa.Template != ob.Template:
				fail("routing-differs", fmt.Sprintf("routed to %q vs %q", oa.Template, ob.Template), rep)
			case oa.ParseErr != ob.ParseErr:
				fail("accept-reject-differs"+docClass, fmt.Sprintf("Parse() error %q vs %q", oa.ErrText, ob.ErrText), rep)
			case !oa.ParseErr && oa.Dispatch:
				if d := treeDiff(oa.Params, ob.Params, "params"); d != "" {
					fail("parsed-values-differ", d, rep)
				}
			}
			if nonTrivial {
				r.NonTrivial("C18", p.Index, op.String(), mode, oa.ParseErr)
			}
			if oa.ParseErr {
				r.Label("request:both-reject")
			} else {
				r.Label("request:both-accept")
			}
		case "response":
			docs := docResponses(p, op)
			infosA, probA := linkImplementers(ia, op, docs)
			infosB, probB := linkImplementers(ib, opB, docResponses(q, opB))
			if (len(probA) > 0) != (len(probB) > 0) {
				fail("response-linking-differs", fmt.Sprintf("response types write documented statuses on one side only: original %v, rewritten %v", probA, probB), nil)
				return
			}
			if len(probA) > 0 || len(infosA) == 0 {
				r.Label("response:unlinked-on-both-sides") // C02's business
				return
			}
			info := infosA[rapid.IntRange(0, len(infosA)-1).Draw(t, "impl")]
			var infoB *implInfo
			for i := range infosB {
				if infosB[i].Doc.Status == info.Doc.Status {
					infoB = &infosB[i]
				}
			}
			if infoB == nil {
				fail("response-kind-missing", "documented response "+info.Doc.Status+" has a response type on one side only", nil)
				return
			}
			va, raw, _ := genResponse(t, p, info, docs)
			desc := Project(va)
			if raw != nil {
				va.FieldByName("Body").Set(reflect.ValueOf(io.NopCloser(bytes.NewReader(raw))))
			}
			vb, ok := Inject(desc, infoB.T)
			if !ok {
				r.Label("response:not-injectable")
				return
			}
			if raw != nil {
				vb.FieldByName("Body").Set(reflect.ValueOf(io.NopCloser(bytes.NewReader(raw))))
			}
			ia.Respond = func(c *Call) reflect.Value { return va }
			ib.Respond = func(c *Call) reflect.Value { return vb }
			path := p.BasePath + concretePath(op.Template)
			ia.Reset()
			ib.Reset()
			reca, pa := ia.Serve(httptest.NewRequest(op.Method, "http://h.example"+escapeForURL(path), nil))
			recb, pb := ib.Serve(httptest.NewRequest(op.Method, "http://h.example"+escapeForURL(path), nil))
			ia.Respond, ib.Respond = nil, nil
			rep := map[string]any{"response.txt": fmt.Sprintf("%+v", va.Interface())}
			switch {
			case pa != "" || pb != "":
				fail("panic", firstLine(pa+pb), rep)
			case reca.Code != recb.Code:
				fail("status-differs", fmt.Sprintf("status %d vs %d", reca.Code, recb.Code), rep)
			case fmt.Sprint(headerMap(reca.Header())) != fmt.Sprint(headerMap(recb.Header())):
				fail("headers-differ", fmt.Sprintf("%v vs %v", headerMap(reca.Header()), headerMap(recb.Header())), rep)
			default:
				ba, bb := reca.Body.Bytes(), recb.Body.Bytes()
				if info.Doc.Schema != nil {
					ta, ea := refmodel.DecodeJSON(ba)
					tb, eb := refmodel.DecodeJSON(bb)
					if (ea == nil) != (eb == nil) {
						fail("body-differs", fmt.Sprintf("JSON validity differs: %q vs %q", clip(string(ba), 120), clip(string(bb), 120)), rep)
					} else if ea == nil {
						if ok, why := refmodel.Equiv(p.Doc, info.Doc.Schema, ta, tb); !ok {
							kind := "body-differs"
							if emptyVsNull(ta, tb) {
								kind = "body-differs:null-vs-empty-collection"
							}
							fail(kind, why, rep)
						}
					}
				} else if !bytes.Equal(ba, bb) {
					fail("body-differs", "raw bodies differ", rep)
				}
			}
			if nonTrivial {
				r.NonTrivial("C18", p.Index, op.String(), "response", info.Doc.Status)
			}
			r.Label("response:compared")
		}
	}
	ok, _ := rt.Check("C18-"+p.Name, rt.Seed(e.Seed, rt.SeedStr("C18"), uint64(p.Index)), n, 10*time.Second, prop)
	if !ok && lastFail != nil {
		r.Fail(*lastFail)
	}
	r.Label("rewrite:" + rewrite)
	r.Sample(map[string]any{"pair": p.Name + "/" + bname, "rewrite": rewrite, "changed_sites": p.Meta["changed"], "operations": len(p.Ops)}, 6)
}

func headerMap(h http.Header) map[string][]string {
	out := map[string][]string{}
	for k, v := range h {
		out[k] = v
	}
	return out
}

// emptyVsNull reports whether two JSON trees differ only by null on one side where
// the other has an empty array / object (a nil collection encoded two ways).
func emptyVsNull(a, b any) bool {
	isEmpty := func(v any) bool {
		switch x := v.(type) {
		case []any:
			return len(x) == 0
		case map[string]any:
			return len(x) == 0
		}
		return false
	}
	if a == nil && isEmpty(b) || b == nil && isEmpty(a) {
		return true
	}
	switch av := a.(type) {
	case map[string]any:
		bv, ok := b.(map[string]any)
		if !ok || len(av) != len(bv) {
			return false
		}
		found := false
		for k, x := range av {
			y, ok := bv[k]
			if !ok {
				return false
			}
			if ok2, _ := refmodel.Equiv(nil, nil, x, y); ok2 {
				continue
			}
			if !emptyVsNull(x, y) {
				return false
			}
			found = true
		}
		return found
	case []any:
		bv, ok := b.([]any)
		if !ok || len(av) != len(bv) {
			return false
		}
		found := false
		for i := range av {
			if ok2, _ := refmodel.Equiv(nil, nil, av[i], bv[i]); ok2 {
				continue
			}
			if !emptyVsNull(av[i], bv[i]) {
				return false
			}
			found = true
		}
		return found
	}
	return false
}

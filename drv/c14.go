package drv

import (
	"bufio"
	"bytes"
	"context"
	"fmt"
	"net/http"
	"net/http/httptest"
	"net/url"
	"reflect"
	"strings"
	"time"

	"pgregory.net/rapid"

	"verif/refmodel"
	"verif/res"
	"verif/rt"
	"verif/specgen"
)

func init() { RegisterCheck("C14", CheckC14) }

// FullInst installs every handler and hook: operations (recording stubs that call
// Parse()), authenticators, CORS, spec file handler, a middleware.
func FullInst(p *Pkg) *Inst {
	silenceLogError(p)
	in := NewInst(p)
	var ev []string
	sh := NewSecHarness(in, &ev)
	all := map[string]bool{}
	for n := range sh.Schemes {
		all[n] = true
	}
	sh.Install(all)
	if f, ok := p.Funcs["SpecFileHandler"]; ok {
		if fn, ok := f.(func() http.Handler); ok {
			in.SetField("SpecFileHandler", fn())
		}
	}
	if f := in.V.Elem().FieldByName("CORSHandler"); f.IsValid() {
		f.Set(reflect.MakeFunc(f.Type(), func(args []reflect.Value) []reflect.Value {
			var hh http.Handler = http.HandlerFunc(func(w http.ResponseWriter, r *http.Request) { w.WriteHeader(204) })
			return []reflect.Value{AsIface(reflect.ValueOf(hh), handlerType)}
		}))
	}
	in.SetField("Middlewares", []func(http.Handler) http.Handler{func(next http.Handler) http.Handler {
		return http.HandlerFunc(func(w http.ResponseWriter, r *http.Request) { next.ServeHTTP(w, r) })
	}})
	return in
}

// ServeRaw parses raw bytes with http.ReadRequest (what net/http would hand to a
// handler) and serves the request. ok=false: not a deliverable request.
func ServeRaw(in *Inst, raw []byte) (rec *Recorder, pan string, ok bool) {
	req, err := http.ReadRequest(bufio.NewReader(bytes.NewReader(raw)))
	if err != nil {
		return nil, "", false
	}
	if req.URL == nil {
		return nil, "", false
	}
	in.Reset()
	rec, pan = in.Serve(req)
	return rec, pan, true
}

// JudgeServed applies the C14 oracle to one served request.
func JudgeServed(in *Inst, rec *Recorder, pan string) (clause, msg string) {
	if pan != "" {
		return "panic", firstLine(pan) + "\n" + clip(pan, 1500)
	}
	for _, c := range in.Calls {
		if c.Panic != "" {
			return "parse-panic", "Parse() panicked: " + firstLine(c.Panic) + "\n" + clip(c.Panic, 1500)
		}
		if c.ParseErr == nil && !c.Params.IsValid() {
			return "parse-no-result", "Parse() returned neither a value nor an error"
		}
	}
	if rec.WriteHeaderCalls != 1 {
		return "response-count", fmt.Sprintf("WriteHeader was called %d times (writes: %d)", rec.WriteHeaderCalls, rec.Writes)
	}
	return "", ""
}

var hostileValues = []string{"", " ", "0", "-1", "1e400", "NaN", "9223372036854775808", "true", "null", "{}", "[]", "\"", "%", "%zz", "%2F", "%00", "a/b", "..", "../..", "//", strings.Repeat("A", 5000), "ünï", "\t", "a b", "a+b", "a&b=c", "2021-13-45T99:99:99Z", "Bearer", "Bearer ", "bearer x", "Basic Zm9v"}

func deepJSON(n int) string { return strings.Repeat("[", n) + strings.Repeat("]", n) }

// CheckC14: the generated server never panics and always answers.
func CheckC14(p *Pkg, e *Env, r *res.Result) {
	full := FullInst(p)
	// the same API with every optional hook left nil (no CORS / spec / not-found handler,
	// no authenticators, no middlewares): optional means the server copes without them
	silenceLogError(p)
	bare := NewInst(p)
	if len(p.Ops) == 0 {
		return
	}
	n := 4000
	if !e.Quick() {
		n = 40000
	}
	methods := []string{"GET", "POST", "PUT", "PATCH", "DELETE", "HEAD", "OPTIONS", "TRACE", "CONNECT", "FOO", "get", "PROPFIND", ""}
	var lastFail *res.Failure
	prop := func(t *rapid.T) {
		in := full
		if rapid.IntRange(0, 3).Draw(t, "bare_api") == 0 {
			in = bare
			r.Label("api:optional-hooks-nil")
		}
		op := p.Ops[rapid.IntRange(0, len(p.Ops)-1).Draw(t, "op")]
		decls, _ := OpParams(op)
		// path: start from the concrete template and mutate
		segs := strings.Split(strings.TrimPrefix(op.Template, "/"), "/")
		for i, s := range segs {
			if strings.HasPrefix(s, "{") {
				name := s[1 : len(s)-1]
				val := "7"
				for _, d := range decls {
					if d.In == "path" && d.Name == name {
						val, _ = drawLexeme(t, d.Prim, fmt.Sprintf("seg%d", i))
					}
				}
				if rapid.IntRange(0, 4).Draw(t, fmt.Sprintf("seg%d_hostile", i)) == 0 {
					val = rapid.SampledFrom(hostileValues).Draw(t, fmt.Sprintf("seg%d_h", i))
				}
				segs[i] = val
			}
		}
		path := p.BasePath + "/" + strings.Join(segs, "/")
		switch rapid.IntRange(0, 9).Draw(t, "path_mut") {
		case 0: // truncated
			k := rapid.IntRange(0, len(path)).Draw(t, "cut")
			path = path[:k]
		case 1: // over-long
			path += "/" + rapid.SampledFrom([]string{"extra", "", "x/y/z", strings.Repeat("a/", 50)}).Draw(t, "more")
		case 2: // doubled slashes
			path = strings.Replace(path, "/", "//", rapid.IntRange(1, 3).Draw(t, "nslash"))
		case 3: // base-path near miss
			if p.BasePath != "" {
				path = p.BasePath[:len(p.BasePath)-1] + strings.TrimPrefix(path, p.BasePath)
			} else {
				path = "/v1" + path
			}
		case 4:
			path = rapid.SampledFrom([]string{"/", "", "*", "//", "/.", "/..", p.BasePath, p.BasePath + "/", p.BasePath + "/" + p.Cfg.ServedSpecName(), "/%", "/\x00"}).Draw(t, "odd")
		}
		q := url.Values{}
		hdr := http.Header{}
		for i, d := range decls {
			if d.In != "query" && d.In != "header" {
				continue
			}
			k := rapid.SampledFrom([]int{0, 1, 1, 2, 5}).Draw(t, fmt.Sprintf("p%d_n", i))
			for j := 0; j < k; j++ {
				var lex string
				if rapid.IntRange(0, 2).Draw(t, fmt.Sprintf("p%d_%d_h", i, j)) == 0 {
					lex = rapid.SampledFrom(hostileValues).Draw(t, fmt.Sprintf("p%d_%d_hv", i, j))
				} else {
					lex, _ = drawLexeme(t, d.Prim, fmt.Sprintf("p%d_%d", i, j))
				}
				if d.In == "query" {
					q.Add(d.Name, lex)
				} else {
					hdr.Add(d.Name, lex)
				}
			}
		}
		// credentials of every shape
		for _, h := range []string{"Authorization", "X-Api-Key"} {
			if rapid.IntRange(0, 2).Draw(t, "cred_"+h) == 0 {
				hdr.Add(h, rapid.SampledFrom(hostileValues).Draw(t, "credv_"+h))
			}
		}
		if in.P.Doc.Components != nil {
			for name, sch := range in.P.Doc.Components.SecuritySchemes {
				if rapid.IntRange(0, 2).Draw(t, "sec_"+name) != 0 {
					continue
				}
				v := rapid.SampledFrom(append([]string{"valid-" + name, "Bearer valid-" + name}, hostileValues...)).Draw(t, "secv_"+name)
				switch refmodel.SchemeKind(sch) {
				case "bearer":
					hdr.Add("Authorization", v)
				case "apikey-header":
					hdr.Add(sch.Name, v)
				case "apikey-query":
					q.Add(sch.Name, v)
				}
			}
		}
		var body []byte
		bodyKind := rapid.SampledFrom([]string{"none", "valid", "valid", "valid", "truncated", "deep", "wrong-type", "value-swap", "value-swap", "empty-object", "garbage", "huge"}).Draw(t, "body")
		var valid []byte
		var validTree any
		if rb := p.Doc.ResolveRequestBody(op.Spec.RequestBody); rb != nil {
			if mt := rb.Content["application/json"]; mt != nil && mt.Schema != nil {
				dg := &refmodel.DocGen{Doc: p.Doc, T: t, ExtraKeys: true}
				validTree = dg.Gen(mt.Schema, 3)
				valid = refmodel.Render(t, validTree, false)
			}
		}
		switch bodyKind {
		case "valid":
			body = valid
		case "truncated":
			if len(valid) > 0 {
				body = valid[:rapid.IntRange(0, len(valid)).Draw(t, "trunc")]
			}
		case "deep":
			body = []byte(deepJSON(rapid.SampledFrom([]int{10, 1000, 20000}).Draw(t, "depth")))
		case "wrong-type":
			body = []byte(rapid.SampledFrom([]string{"null", "true", "1", "\"s\"", "[]", "[1,2]", "{}", "{\"a\":null}", "[{}]", "{\"kind\":1}", "{\"kind\":\"nope\"}"}).Draw(t, "wt"))
		case "value-swap":
			// a valid document with one to three of its values replaced by hostile tokens
			if valid != nil {
				body = refmodel.Render(t, refmodel.SwapNodes(t, validTree), false)
			}
		case "empty-object":
			body = []byte("{}")
		case "garbage":
			body = []byte(rapid.StringN(0, 50, 200).Draw(t, "garbage"))
		case "huge":
			body = []byte("{\"k\":\"" + strings.Repeat("x", 200000) + "\"}")
		}
		method := op.Method
		if rapid.IntRange(0, 3).Draw(t, "method_mut") == 0 {
			method = rapid.SampledFrom(methods).Draw(t, "method")
		}
		if rapid.IntRange(0, 4).Draw(t, "ctype") == 0 {
			hdr.Set("Content-Type", rapid.SampledFrom([]string{"text/plain", "application/xml", "", "application/json; charset=utf-8", "multipart/form-data"}).Draw(t, "ct"))
		}
		var req *http.Request
		viaRaw := rapid.Bool().Draw(t, "via_raw")
		target := (&url.URL{Path: path}).EscapedPath()
		if enc := q.Encode(); enc != "" {
			target += "?" + enc
		}
		var rec *Recorder
		var pan string
		r.Evaluations++
		if viaRaw {
			var sb bytes.Buffer
			m := method
			if m == "" {
				m = "GET"
			}
			tg := target
			if tg == "" {
				tg = "/"
			}
			fmt.Fprintf(&sb, "%s %s HTTP/1.1\r\nHost: h.example\r\n", m, tg)
			for k, vs := range hdr {
				for _, v := range vs {
					fmt.Fprintf(&sb, "%s: %s\r\n", k, strings.NewReplacer("\r", "", "\n", "").Replace(v))
				}
			}
			fmt.Fprintf(&sb, "Content-Length: %d\r\n\r\n", len(body))
			sb.Write(body)
			var ok bool
			rec, pan, ok = ServeRaw(in, sb.Bytes())
			if !ok {
				r.Label("not-deliverable")
				return
			}
		} else {
			func() {
				defer func() {
					if x := recover(); x != nil {
						req = nil
					}
				}()
				m := method
				if m == "" {
					m = "GET"
				}
				if rapid.IntRange(0, 3).Draw(t, "unknown_length") == 0 {
					req = httptest.NewRequest(m, "http://h.example/", BodyOfUnknownLength(body))
				} else {
					req = httptest.NewRequest(m, "http://h.example/", bytes.NewReader(body))
				}
			}()
			if req == nil {
				r.Label("not-deliverable")
				return
			}
			req.URL.Path = path
			req.URL.RawQuery = q.Encode()
			for k, vs := range hdr {
				for _, v := range vs {
					req.Header.Add(k, v)
				}
			}
			// a request whose context is already done (client gone, server-side deadline
			// passed) is still answered exactly once
			switch rapid.IntRange(0, 11).Draw(t, "ctx_state") {
			case 0:
				ctx, cancel := context.WithCancel(req.Context())
				cancel()
				req = req.WithContext(ctx)
				r.Label("request:context-cancelled")
			case 1:
				ctx, cancel := context.WithDeadline(req.Context(), time.Unix(1, 0))
				defer cancel()
				req = req.WithContext(ctx)
				r.Label("request:context-deadline-exceeded")
			}
			in.Reset()
			rec, pan = in.Serve(req)
		}
		if clause, msg := JudgeServed(in, rec, pan); clause != "" {
			f := res.Failure{Property: "C14", Kind: clause + ":" + panicSiteOf(msg), Clause: clause,
				Detail: fmt.Sprintf("%s %s (query %q, headers %v, body kind %s): %s", method, path, clip(q.Encode(), 200), hdr, bodyKind, msg),
				Replay: p.SpecReplay(map[string]any{"request.txt": fmt.Sprintf("%s %s\n%v\n%s", method, target, hdr, clip(string(body), 2000))})}
			if IsKnown(p, e, r, &f) {
				return
			}
			lastFail = &f
			t.Fatalf("%s", clip(f.Detail, 600))
		}
		// a response that carries a validator invites revalidation: the same request again,
		// now conditional on exactly that validator (what a browser or a cache does next)
		if et, lm := rec.Header().Get("ETag"), rec.Header().Get("Last-Modified"); (et != "" || lm != "") && strings.HasPrefix(path, "/") {
			m2 := method
			if m2 == "" {
				m2 = "GET"
			}
			var req2 *http.Request
			func() {
				defer func() { recover() }()
				req2 = httptest.NewRequest(m2, "http://h.example/", nil)
			}()
			if req2 != nil {
				req2.URL.Path = path
				req2.URL.RawQuery = q.Encode()
				for k, vs := range hdr {
					for _, v := range vs {
						req2.Header.Add(k, v)
					}
				}
				if et != "" {
					req2.Header.Set("If-None-Match", et)
				}
				if lm != "" {
					req2.Header.Set("If-Modified-Since", lm)
				}
				in.Reset()
				rec2, pan2 := in.Serve(req2)
				r.Label("followup:conditional-revalidation")
				if clause, msg := JudgeServed(in, rec2, pan2); clause != "" {
					f := res.Failure{Property: "C14", Kind: clause + ":conditional-revalidation", Clause: clause,
						Detail: fmt.Sprintf("%s %s repeated with If-None-Match %q / If-Modified-Since %q taken from the first response: %s", m2, path, et, lm, msg),
						Replay: p.SpecReplay(map[string]any{"request.txt": fmt.Sprintf("%s %s\nIf-None-Match: %s\nIf-Modified-Since: %s", m2, path, et, lm)})}
					if !IsKnown(p, e, r, &f) {
						lastFail = &f
						t.Fatalf("%s", clip(f.Detail, 600))
					}
				}
			}
		}
		class := "unrouted"
		if len(in.Calls) > 0 {
			class = "reached-stub"
			if in.Calls[0].ParseErr != nil {
				class = "parse-error"
			}
			r.NonTrivial("C14", p.Index, class, op.String(), bodyKind, method == op.Method)
		}
		r.Label("outcome:" + class)
		r.Label(fmt.Sprintf("status:%dxx", rec.Code/100))
		r.Sample(map[string]any{"request": method + " " + clip(target, 120), "body_kind": bodyKind, "outcome": class, "status": rec.Code}, 5)
	}
	ok, _ := rt.Check("C14-"+p.Name, rt.Seed(e.Seed, rt.SeedStr("C14"), uint64(p.Index)), n, 15*time.Second, prop)
	if !ok && lastFail != nil {
		r.Fail(*lastFail)
		return
	}
	// token sweep: an otherwise valid request (path, method, credentials, required
	// parameters) whose JSON body is a valid document with ONE value replaced, in turn,
	// by every hostile token (values of every JSON type in their shortest spellings)
	var bodyOps []*Op
	for _, op := range p.Ops {
		if rb := p.Doc.ResolveRequestBody(op.Spec.RequestBody); rb != nil && rb.Content["application/json"] != nil && rb.Content["application/json"].Schema != nil {
			bodyOps = append(bodyOps, op)
		}
	}
	if len(bodyOps) == 0 {
		return
	}
	sweep := func(t *rapid.T) {
		op := bodyOps[rapid.IntRange(0, len(bodyOps)-1).Draw(t, "op")]
		decls, _ := OpParams(op)
		segs := strings.Split(strings.TrimPrefix(op.Template, "/"), "/")
		q := url.Values{}
		hdr := http.Header{"Content-Type": {"application/json"}}
		for i, sg := range segs {
			if strings.HasPrefix(sg, "{") {
				segs[i] = "7"
				for _, d := range decls {
					if d.In == "path" && d.Name == sg[1:len(sg)-1] {
						segs[i], _ = drawLexeme(t, d.Prim, fmt.Sprintf("seg%d", i))
					}
				}
			}
		}
		for i, d := range decls {
			if !d.Required || (d.In != "query" && d.In != "header") {
				continue
			}
			lex, _ := drawLexeme(t, d.Prim, fmt.Sprintf("p%d", i))
			if d.In == "query" {
				q.Add(d.Name, lex)
			} else {
				hdr.Add(d.Name, lex)
			}
		}
		if p.Doc.Components != nil {
			for _, name := range specgen.SortedKeys(p.Doc.Components.SecuritySchemes) {
				sch := p.Doc.Components.SecuritySchemes[name]
				switch refmodel.SchemeKind(sch) {
				case "bearer":
					hdr.Set("Authorization", "Bearer valid-"+name)
				case "apikey-header":
					hdr.Set(sch.Name, "valid-"+name)
				case "apikey-query":
					q.Set(sch.Name, "valid-"+name)
				}
			}
		}
		mt := p.Doc.ResolveRequestBody(op.Spec.RequestBody).Content["application/json"]
		tree := (&refmodel.DocGen{Doc: p.Doc, T: t}).Gen(mt.Schema, 3)
		nslots := refmodel.CountSlots(tree)
		if nslots == 0 {
			return
		}
		at := rapid.IntRange(0, nslots-1).Draw(t, "swap_at")
		path := p.BasePath + "/" + strings.Join(segs, "/")
		for _, tok := range refmodel.HostileTokens {
			body := refmodel.Render(t, refmodel.SwapAt(tree, at, tok), false)
			var req *http.Request
			func() {
				defer func() { recover() }()
				req = httptest.NewRequest(op.Method, "http://h.example/", bytes.NewReader(body))
			}()
			if req == nil {
				return
			}
			req.URL.Path = path
			req.URL.RawQuery = q.Encode()
			req.Header = hdr.Clone()
			full.Reset()
			r.Evaluations++
			rec, pan := full.Serve(req)
			r.Label("sweep:token-in-valid-body")
			if len(full.Calls) > 0 {
				r.NonTrivial("C14", p.Index, "sweep", op.String(), at, tok)
			}
			if clause, msg := JudgeServed(full, rec, pan); clause != "" {
				f := res.Failure{Property: "C14", Kind: clause + ":" + panicSiteOf(msg), Clause: clause,
					Detail: fmt.Sprintf("%s %s with a valid body in which one value is replaced by %s: %s: %s", op.Method, path, tok, clip(string(body), 300), msg),
					Replay: p.SpecReplay(map[string]any{"request.txt": fmt.Sprintf("%s %s?%s\n%v\n%s", op.Method, path, q.Encode(), hdr, clip(string(body), 2000))})}
				if IsKnown(p, e, r, &f) {
					return
				}
				lastFail = &f
				t.Fatalf("%s", clip(f.Detail, 600))
			}
		}
	}
	ok, _ = rt.Check("C14-sweep-"+p.Name, rt.Seed(e.Seed, rt.SeedStr("C14-sweep"), uint64(p.Index)), n/16, 15*time.Second, sweep)
	if !ok && lastFail != nil {
		r.Fail(*lastFail)
	}
}

// panicSiteOf extracts the first frame inside the generated package from a stack.
func panicSiteOf(msg string) string {
	for _, l := range strings.Split(msg, "\n") {
		l = strings.TrimSpace(l)
		if strings.Contains(l, "drvbin/pkgs/") && strings.Contains(l, "(") {
			fn := l[:strings.Index(l, "(")]
			if i := strings.LastIndex(fn, "/"); i >= 0 {
				fn = fn[i+1:]
			}
			if j := strings.Index(fn, "."); j >= 0 {
				fn = fn[j+1:]
			}
			return fn
		}
	}
	return "?"
}

// ---------------------------------------------------------------------------
// native fuzzing entry (thorough tier): bytes -> http.ReadRequest -> serve

var fuzzInsts []*Inst

// FuzzSetup loads every linked package and installs all hooks.
func FuzzSetup(names []string, dir string) error {
	fuzzInsts = nil
	for i, n := range names {
		p, err := LoadPkg(dir, n, i)
		if err != nil {
			return err
		}
		fuzzInsts = append(fuzzInsts, FullInst(p))
	}
	if len(fuzzInsts) == 0 {
		return fmt.Errorf("no packages")
	}
	return nil
}

// FuzzSeeds: one valid request per operation plus hostile constants.
func FuzzSeeds() [][]byte {
	var out [][]byte
	for i, in := range fuzzInsts {
		for _, op := range in.P.Ops {
			path := in.P.BasePath + concretePath(op.Template)
			body := ""
			if op.Spec.RequestBody != nil {
				body = "{}"
			}
			raw := fmt.Sprintf("%s %s?x=1 HTTP/1.1\r\nHost: h\r\nAuthorization: Bearer valid-bearer\r\nX-Api-Key: k\r\nContent-Type: application/json\r\nContent-Length: %d\r\n\r\n%s", op.Method, path, len(body), body)
			out = append(out, append([]byte{byte(i)}, raw...))
			if len(out) > 400 {
				break
			}
		}
	}
	for _, h := range []string{"GET / HTTP/1.1\r\nHost: h\r\n\r\n", "OPTIONS * HTTP/1.1\r\nHost: h\r\n\r\n", "GET //a//b HTTP/1.1\r\nHost: h\r\nAuthorization: Bearer\r\n\r\n",
		"POST /%2F/%00 HTTP/1.1\r\nHost: h\r\nContent-Length: 4\r\n\r\nnull", "FOO /x HTTP/1.0\r\n\r\n", "GET /a?%zz=1&a=%ff HTTP/1.1\r\nHost: h\r\nAuthorization: bearer\r\n\r\n"} {
		out = append(out, append([]byte{0}, h...))
	}
	return out
}

// FuzzOne runs one fuzz input; a non-empty result is a violation.
func FuzzOne(data []byte) string {
	if len(data) < 2 || len(fuzzInsts) == 0 {
		return ""
	}
	in := fuzzInsts[int(data[0])%len(fuzzInsts)]
	rec, pan, ok := ServeRaw(in, data[1:])
	if !ok {
		return ""
	}
	if clause, msg := JudgeServed(in, rec, pan); clause != "" {
		return clause + ": " + msg
	}
	return ""
}

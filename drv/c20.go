package drv

import (
	"bytes"
	"context"
	"fmt"
	"io"
	"net/http"
	"net/http/httptest"
	"os"
	"reflect"
	"runtime"
	"strings"
	"sync"
	"sync/atomic"
	"time"

	"pgregory.net/rapid"

	"verif/refmodel"
	"verif/res"
	"verif/rt"
)

func init() { RegisterCheck("C20", CheckC20) }

type tagKey struct{}

// tagTransport copies the call's tag from the request context into the header.
type tagTransport struct{ base http.RoundTripper }

func (t tagTransport) RoundTrip(req *http.Request) (*http.Response, error) {
	if tag, ok := req.Context().Value(tagKey{}).(string); ok {
		req = req.Clone(req.Context())
		req.Header.Set("X-Verif-Tag", tag)
	}
	return t.base.RoundTrip(req)
}

// slowWriter yields before it copies the bytes handed to Write.
type slowWriter struct{ *httptest.ResponseRecorder }

func (w *slowWriter) Write(b []byte) (int, error) {
	runtime.Gosched()
	runtime.Gosched()
	return w.ResponseRecorder.Write(b)
}

// brokenWriter is the connection of a peer that went away: it takes the first few
// bytes of the first Write and fails from then on (a short write with an error).
type brokenWriter struct {
	h     http.Header
	after int
	dead  bool
}

func (w *brokenWriter) Header() http.Header { return w.h }
func (w *brokenWriter) WriteHeader(int)     {}
func (w *brokenWriter) Write(b []byte) (int, error) {
	runtime.Gosched()
	if w.dead || len(b) <= w.after {
		if !w.dead && len(b) <= w.after {
			w.after -= len(b)
			return len(b), nil
		}
		return 0, io.ErrClosedPipe
	}
	w.dead = true
	return w.after, io.ErrClosedPipe
}

// plainReader implements io.ReadCloser and nothing else; it hands its content out in
// a few chunks and yields between them.
type plainReader struct {
	r     *bytes.Reader
	chunk int
}

func (p *plainReader) Read(b []byte) (int, error) {
	if len(b) > p.chunk {
		b = b[:p.chunk]
	}
	runtime.Gosched()
	return p.r.Read(b)
}

func (p *plainReader) Close() error { return nil }

type plannedCall struct {
	tag     string
	op      *Op
	params  reflect.Value
	raw     []byte
	wantReq any // Project(params) (body readers by content)
	resp    reflect.Value
	respRaw []byte
	info    implInfo
	yields  int
	spec    bool // a fetch of the served spec file instead of an operation call
}

// concurrentInst is an API value whose stubs are safe for concurrent use: they look
// the expected request up by the X-Verif-Tag header, compare what Parse() returned
// with it and answer with the response planned for that tag.
type concurrentInst struct {
	p     *Pkg
	v     reflect.Value
	h     http.Handler
	plans sync.Map // tag -> *plannedCall
	mu    sync.Mutex
	errs  []string
	// baseline: tags whose call already fails when run alone (a codec problem that is
	// other checks' business); only failures outside the baseline are isolation failures
	baseline     map[string]bool
	recordingRef bool
	discard      bool // cold-start phase: functional failures are not judged
}

var coldStarted = map[string]bool{}

const unroutedTag = "~unrouted~"

// unrouted sends a request that matches no route straight to the API value (whose
// NotFoundHandler is left unset, as in most programs): the fallback path is shared by
// all goroutines too. Only the race detector judges it.
func (ci *concurrentInst) unrouted() {
	req := httptest.NewRequest("GET", "http://h.example/~verif/~no/~such/~route/~at/~all/~1/~2/~3/~4/~5/~6", nil)
	req.Header.Set("X-Verif-Tag", unroutedTag)
	defer func() { _ = recover() }()
	ci.h.ServeHTTP(httptest.NewRecorder(), req)
}

func (ci *concurrentInst) failTag(tag, msg string) {
	// (cold-start phases: nothing is judged, and the harness must not synchronise the
	// goroutines either - a mutex taken here would order their accesses and hide a race;
	// discard is set before the goroutines start and cleared after they are done)
	if ci.discard {
		return
	}
	ci.mu.Lock()
	defer ci.mu.Unlock()
	if ci.recordingRef {
		ci.baseline[tag] = true
		if os.Getenv("VERIF_DEBUG_C20") != "" {
			if f, err := os.OpenFile("/tmp/c20dbg.log", os.O_APPEND|os.O_CREATE|os.O_WRONLY, 0o644); err == nil {
				fmt.Fprintln(f, "BASELINE-FAIL", clip(msg, 300))
				f.Close()
			}
		}
		return
	}
	if ci.baseline[tag] {
		return
	}
	if len(ci.errs) < 20 {
		ci.errs = append(ci.errs, msg)
	}
}

func (ci *concurrentInst) fail(msg string) { ci.failTag("", msg) }

func projectParams(v reflect.Value, raw []byte) any {
	tree := Project(v)
	if m, ok := tree.(map[string]any); ok && raw != nil {
		m["body"] = "bytes:" + string(raw)
	}
	return tree
}

func newConcurrentInst(p *Pkg) *concurrentInst {
	ci := &concurrentInst{p: p, v: reflect.New(p.API)}
	for _, op := range p.Ops {
		op := op
		stub := reflect.MakeFunc(op.HandlerType, func(args []reflect.Value) []reflect.Value {
			var tag string
			if m := args[1].MethodByName("HTTP"); m.IsValid() {
				if r, ok := m.Call(nil)[0].Interface().(*http.Request); ok && r != nil {
					tag = r.Header.Get("X-Verif-Tag")
				}
			}
			if tag == unroutedTag {
				// (a probe meant to match no route was dispatched after all: a very deep
				// all-variable template; nothing to judge)
				return []reflect.Value{AsIface(op.DefaultResponse(), op.ResponseIface)}
			}
			pl, ok := ci.plans.Load(tag)
			if !ok {
				ci.fail(fmt.Sprintf("handler of %s saw an unknown tag %q", op, tag))
				return []reflect.Value{AsIface(op.DefaultResponse(), op.ResponseIface)}
			}
			plan := pl.(*plannedCall)
			for i := 0; i < plan.yields; i++ {
				runtime.Gosched()
			}
			params, perr, pan := ParseReq(op, args[1])
			switch {
			case pan != "":
				ci.failTag(tag, "Parse panicked: "+firstLine(pan))
			case perr != nil:
				ci.failTag(tag, fmt.Sprintf("tag %s (%s): Parse failed: %v", tag, op, perr))
			case plan.op != op:
				ci.failTag(tag, fmt.Sprintf("tag %s was sent to %s but handled by %s", tag, plan.op, op))
			default:
				var raw []byte
				if b := params.FieldByName("Body"); b.IsValid() && (b.Type() == readerType || b.Type() == rcType) && !b.IsNil() {
					raw, _ = io.ReadAll(b.Interface().(io.Reader))
					if raw == nil {
						raw = []byte{}
					}
				}
				if d := treeDiff(plan.wantReq, projectParams(params, raw), "params"); d != "" {
					ci.failTag(tag, fmt.Sprintf("tag %s (%s): handler observed parameters of another request or a corrupted one: %s", tag, op, d))
				}
			}
			for i := 0; i < plan.yields; i++ {
				runtime.Gosched()
			}
			resp := plan.resp
			if plan.respRaw != nil {
				// a private copy with a fresh reader (the planned value is shared read-only)
				cp := reflect.New(resp.Type()).Elem()
				cp.Set(resp)
				// (a reader that is nothing but a reader: no WriteTo, so io.Copy has to go through
				// a buffer, as it does for a proxied upstream body, a pipe or a gzip stream)
				cp.FieldByName("Body").Set(reflect.ValueOf(io.ReadCloser(&plainReader{r: bytes.NewReader(plan.respRaw), chunk: 1 + len(plan.respRaw)/3})))
				resp = cp
			}
			return []reflect.Value{AsIface(resp, op.ResponseIface)}
		})
		ci.v.Elem().Field(op.Field).Set(stub)
	}
	ci.h = ci.v.Interface().(http.Handler)
	return ci
}

// CheckC20: concurrent requests are isolated and race-free (binary built with -race).
func CheckC20(p *Pkg, e *Env, r *res.Result) {
	if _, ok := p.Types["Client"]; !ok {
		return
	}
	silenceLogError(p)
	// cold start, server side (see ColdStartC20); the other shards run it for this package too
	ColdStartC20(p)
	r.Label("phase:cold-start-server-side")
	// link implementers sequentially (probing uses the ordinary recording Inst)
	probe := NewInst(p)
	probe.NoParse = true
	type opInfo struct {
		op    *Op
		docs  []DocResponse
		infos []implInfo
	}
	var ops []opInfo
	// secured operations take part when every scheme they name is read from a header goag
	// has a hook for (bearer, api key in a header): each request then carries a credential of
	// its own and the authenticators check that they are handed exactly that one
	var authEvents []string
	sec := NewSecHarness(probe, &authEvents)
	sec.InstallAcceptAll() // (the probe links response types to operations: it must get past the security check)
	headerBorne := func(op *Op) bool {
		for _, alt := range p.Doc.EffectiveSecurity(op.Spec) {
			for name := range alt {
				k := ""
				if p.Doc.Components != nil && p.Doc.Components.SecuritySchemes[name] != nil {
					k = refmodel.SchemeKind(p.Doc.Components.SecuritySchemes[name])
				}
				if (k != "bearer" && k != "apikey-header") || sec.Field[name] == "" {
					return false
				}
			}
		}
		return true
	}
	for _, op := range p.Ops {
		if op.ClientMethod == "" || !headerBorne(op) || op.Method == "HEAD" {
			if len(p.Doc.EffectiveSecurity(op.Spec)) > 0 {
				r.Label("secured-operation:left-out:scheme-without-header-hook")
			}
			continue
		}
		docs := docResponses(p, op)
		infos, problems := linkImplementers(probe, op, docs)
		if len(problems) > 0 || len(infos) == 0 {
			if len(p.Doc.EffectiveSecurity(op.Spec)) > 0 {
				r.Label("secured-operation:left-out:responses-not-linked")
				r.Sample(map[string]any{"secured_op_not_linked": op.String(), "problems": problems}, 2)
			}
			continue
		}
		if len(p.Doc.EffectiveSecurity(op.Spec)) > 0 {
			r.Label("secured-operation:in-traffic")
		}
		ops = append(ops, opInfo{op, docs, infos})
	}
	if len(ops) == 0 {
		r.Label("packages-without-testable-operations")
		return
	}
	rounds := 6
	if !e.Quick() {
		rounds = 24
	}
	// the hand-built kitchen-sink packages hold every feature at once: more rounds there
	if fmt.Sprint(p.Meta["origin"]) == "kitchen-sink" {
		rounds *= 10
	}
	var lastFail *res.Failure
	prop := func(t *rapid.T) {
		n := rapid.SampledFrom([]int{16, 32, 64}).Draw(t, "goroutines")
		perG := rapid.IntRange(1, 3).Draw(t, "calls_per_goroutine")
		procs := rapid.SampledFrom([]int{1, 2, 4, 16}).Draw(t, "gomaxprocs")
		useServer := rapid.IntRange(0, 2).Draw(t, "loopback") != 0
		nmw := rapid.IntRange(0, 3).Draw(t, "middlewares")
		ci := newConcurrentInst(p)
		for name, field := range sec.Field {
			name := name
			if f := ci.v.Elem().FieldByName(field); field != "" && f.IsValid() {
				fn := func(r *http.Request, token string) (*http.Request, bool) {
					tag := r.Header.Get("X-Verif-Tag")
					runtime.Gosched()
					if token != "tok-"+tag {
						ci.failTag(tag, fmt.Sprintf("tag %s: the authenticator of scheme %s was handed the credential %q, not the one this request carries", tag, name, clip(token, 60)))
					}
					return r, true
				}
				f.Set(reflect.ValueOf(fn).Convert(f.Type()))
			}
		}
		// middlewares appended one at a time (capacity > length) and yielding
		var mws []func(http.Handler) http.Handler
		for i := 0; i < nmw; i++ {
			mws = append(mws, func(next http.Handler) http.Handler {
				return http.HandlerFunc(func(w http.ResponseWriter, r *http.Request) {
					runtime.Gosched()
					next.ServeHTTP(w, r)
				})
			})
		}
		ci.v.Elem().FieldByName("Middlewares").Set(reflect.ValueOf(mws))
		if f, ok := p.Funcs["SpecFileHandler"]; ok {
			if fn, ok := f.(func() http.Handler); ok {
				ci.v.Elem().FieldByName("SpecFileHandler").Set(reflect.ValueOf(fn()))
			}
		}
		// plan all calls up front (rapid is not safe for concurrent use)
		var plans [][]*plannedCall
		distinctOps := map[string]bool{}
		// in a third of the rounds every handler answers with one shared, read-only response
		// value per response type (static data: the same maps and slices go to every caller)
		sharedResponses := rapid.Bool().Draw(t, "shared_responses")
		type sharedResp struct {
			v   reflect.Value
			raw []byte
		}
		shared := map[reflect.Type]sharedResp{}
		sharedParams := map[*Op]sharedResp{}
		_, hasSpecHandler := p.Funcs["SpecFileHandler"]
		for g := 0; g < n; g++ {
			var seq []*plannedCall
			for k := 0; k < perG; k++ {
				if hasSpecHandler && rapid.IntRange(0, 5).Draw(t, fmt.Sprintf("spec_%d_%d", g, k)) == 0 {
					seq = append(seq, &plannedCall{tag: fmt.Sprintf("t%d-%d", g, k), spec: true})
					continue
				}
				oi := ops[rapid.IntRange(0, len(ops)-1).Draw(t, fmt.Sprintf("op_%d_%d", g, k))]
				params, raw, _ := GenParams(t, p, oi.op, nil)
				tag := fmt.Sprintf("t%d-%d", g, k)
				secured := len(p.Doc.EffectiveSecurity(oi.op.Spec)) > 0
				if hf := params.FieldByName("Headers"); secured && hf.IsValid() {
					for name, sch := range p.Doc.Components.SecuritySchemes {
						want, val := "", "tok-"+tag
						switch refmodel.SchemeKind(sch) {
						case "bearer":
							want, val = "authorization", "Bearer tok-"+tag
						case "apikey-header":
							want = Norm(sch.Name)
						}
						_ = name
						for i := 0; want != "" && i < hf.NumField(); i++ {
							f := hf.Field(i)
							if Norm(hf.Type().Field(i).Name) != want {
								continue
							}
							switch {
							case isOptionStruct(f.Type()) && f.Field(1).Kind() == reflect.String:
								f.Field(0).SetBool(true)
								f.Field(1).SetString(val)
							case f.Kind() == reflect.String:
								f.SetString(val)
							}
						}
					}
				}
				if secured {
					r.Label("call:secured-with-its-own-credential")
				}
				if sharedResponses && !secured {
					// likewise one shared, read-only parameter value per operation (a template
					// request sent by many goroutines)
					if sp, ok := sharedParams[oi.op]; ok {
						params, raw = sp.v, sp.raw
					} else {
						sharedParams[oi.op] = sharedResp{params, raw}
					}
				}
				info := oi.infos[rapid.IntRange(0, len(oi.infos)-1).Draw(t, fmt.Sprintf("impl_%d_%d", g, k))]
				resp, respRaw, _ := genResponse(t, p, info, oi.docs)
				if sharedResponses {
					if sr, ok := shared[info.T]; ok {
						resp, respRaw = sr.v, sr.raw
					} else {
						shared[info.T] = sharedResp{resp, respRaw}
					}
				}
				pc := &plannedCall{tag: tag, op: oi.op, params: params, raw: raw, resp: resp, respRaw: respRaw, info: info,
					yields: rapid.IntRange(0, 3).Draw(t, fmt.Sprintf("y_%d_%d", g, k))}
				pc.wantReq = projectParams(params, raw)
				ci.plans.Store(pc.tag, pc)
				seq = append(seq, pc)
				distinctOps[oi.op.String()] = true
			}
			plans = append(plans, seq)
		}
		base := "http://h.example" + escapedBase(p.BasePath) + "/"
		var do func(*http.Request) (*http.Response, error)
		var dropSeq int64
		var srv *httptest.Server
		if useServer {
			srv = httptest.NewServer(ci.h)
			defer srv.Close()
			hc := srv.Client()
			base = srv.URL + escapedBase(p.BasePath) + "/"
			do = func(req *http.Request) (*http.Response, error) {
				req.Header.Set("X-Verif-Tag", req.Context().Value(tagKey{}).(string))
				return hc.Do(req)
			}
		} else {
			do = func(req *http.Request) (*http.Response, error) {
				req.Header.Set("X-Verif-Tag", req.Context().Value(tagKey{}).(string))
				if req.Body == nil {
					req.Body = http.NoBody
				}
				// every third request is also made by a peer that disconnects while the
				// response is being written: what was meant for it must not reach anyone else
				if n := atomic.AddInt64(&dropSeq, 1); n%3 == 0 {
					var body []byte
					if req.Body != http.NoBody {
						body, _ = io.ReadAll(req.Body)
						req.Body.Close()
						req.Body = io.NopCloser(bytes.NewReader(body))
					}
					gone := req.Clone(req.Context())
					gone.Body = http.NoBody
					if body != nil {
						gone.Body = io.NopCloser(bytes.NewReader(body))
					}
					func() {
						defer func() { _ = recover() }() // a panic on a dead connection is C14's matter
						ci.h.ServeHTTP(&brokenWriter{h: http.Header{}, after: int(n/3) % 4}, gone)
					}()
				}
				rec := httptest.NewRecorder()
				// the writer takes its time before it consumes what it is given (a slow
				// connection): whatever the server wrote must still be intact then
				ci.h.ServeHTTP(&slowWriter{ResponseRecorder: rec}, req)
				return rec.Result(), nil
			}
		}
		// a BaseURL with a trailing slash is legitimate caller input; the server side
		// tolerates the resulting "//" only through a cleaning front, so use it only
		// for the in-process transport with an explicit path fix
		trailing := rapid.Bool().Draw(t, "baseurl_trailing_slash")
		if trailing {
			// a front that normalises doubled slashes, as a reverse proxy would
			inner := ci.h
			front := http.HandlerFunc(func(w http.ResponseWriter, r *http.Request) {
				r2 := r.Clone(r.Context())
				r2.URL.Path = strings.ReplaceAll(r.URL.Path, "//", "/")
				r2.URL.RawPath = ""
				inner.ServeHTTP(w, r2)
			})
			if useServer {
				srv.Config.Handler = front
			} else {
				ci.h = front
			}
		} else {
			base = base[:len(base)-1]
		}
		client, err := NewClient(p, base, do)
		if err != nil {
			r.Inconclusive = append(r.Inconclusive, err.Error())
			return
		}
		// over loopback, half of the rounds hand the generated Client a real *http.Client
		// (shared by all goroutines, with the caller's own redirect policy) instead of a
		// function adapter
		var realHC *http.Client
		if useServer && rapid.Bool().Draw(t, "real_http_client") {
			base := srv.Client()
			realHC = &http.Client{Transport: tagTransport{base.Transport}, CheckRedirect: func(req *http.Request, via []*http.Request) error { return http.ErrUseLastResponse }}
			if !SetHTTPClient(client, realHC) {
				realHC = nil
			} else {
				r.Label("client:real-http-client")
			}
		}
		old := runtime.GOMAXPROCS(procs)
		defer runtime.GOMAXPROCS(old)
		specURL := strings.TrimSuffix(base, "/") + "/" + p.Cfg.ServedSpecName()
		callOne := func(pc *plannedCall) {
			if pc.spec {
				ctx := context.WithValue(context.Background(), tagKey{}, pc.tag)
				req, err := http.NewRequestWithContext(ctx, "GET", specURL, nil)
				if err != nil {
					return
				}
				resp, err := do(req)
				if err != nil {
					ci.failTag(pc.tag, fmt.Sprintf("tag %s: fetching the spec file failed: %v", pc.tag, err))
					return
				}
				body, rerr := io.ReadAll(resp.Body)
				resp.Body.Close()
				if rerr != nil || resp.StatusCode != 200 || string(body) != p.SpecFile {
					ci.failTag(pc.tag, fmt.Sprintf("tag %s: GET %s: status %d, %d bytes (read error %v), want the %d bytes of the spec", pc.tag, specURL, resp.StatusCode, len(body), rerr, len(p.SpecFile)))
				}
				return
			}
			params := pc.params
			if pc.raw != nil {
				cp := reflect.New(params.Type()).Elem()
				cp.Set(params)
				cp.FieldByName("Body").Set(reflect.ValueOf(io.NopCloser(bytes.NewReader(pc.raw))))
				params = cp
			}
			ctx := context.WithValue(context.Background(), tagKey{}, pc.tag)
			m := client.MethodByName(pc.op.ClientMethod)
			var out []reflect.Value
			func() {
				defer func() {
					if x := recover(); x != nil {
						ci.failTag(pc.tag, fmt.Sprintf("tag %s: client panicked: %v", pc.tag, x))
					}
				}()
				out = m.Call([]reflect.Value{reflect.ValueOf(ctx), params})
			}()
			if out == nil {
				return
			}
			if !out[1].IsNil() {
				ci.failTag(pc.tag, fmt.Sprintf("tag %s (%s): client error: %v", pc.tag, pc.op, out[1].Interface()))
				return
			}
			if ok, why := responsesEqual(pc.resp, out[0], pc.respRaw); !ok {
				ci.failTag(pc.tag, fmt.Sprintf("tag %s (%s): caller received a response that is not the one produced for its request: %s", pc.tag, pc.op, why))
			}
		}
		// pristine deep copies of every planned value (shared ones are copied once)
		pristine := map[reflect.Value]reflect.Value{}
		for _, seq := range plans {
			for _, pc := range seq {
				if pc.spec {
					continue
				}
				for _, v := range []reflect.Value{pc.resp, pc.params} {
					if _, done := pristine[v]; !done && v.IsValid() {
						pristine[v] = deepCopyValue(v)
					}
				}
			}
		}
		// cold start (first round of a package in this process): the very first calls of
		// every operation arrive together, before anything has been called alone - whatever
		// the generated package initialises lazily is initialised under contention. Only
		// the race detector judges this phase.
		if !coldStarted[p.Name] {
			coldStarted[p.Name] = true
			ci.discard = true
			var cwg sync.WaitGroup
			cstart := make(chan struct{})
			for g := 0; g < n; g++ {
				cwg.Add(1)
				go func(seq []*plannedCall) {
					defer cwg.Done()
					<-cstart
					ci.unrouted()
					for _, pc := range seq {
						callOne(pc)
					}
				}(plans[g])
			}
			close(cstart)
			cwg.Wait()
			ci.discard = false
			r.Label("phase:cold-start")
		}
		// baseline: every planned call once, alone
		ci.baseline = map[string]bool{}
		ci.recordingRef = true
		for _, seq := range plans {
			for _, pc := range seq {
				callOne(pc)
			}
		}
		ci.recordingRef = false
		// the baseline must not have "warmed up" the shared values: the concurrent phase
		// starts from pristine copies taken before the baseline touched them
		for _, seq := range plans {
			for _, pc := range seq {
				if pc.spec {
					continue
				}
				if cp, ok := pristine[pc.resp]; ok {
					pc.resp = cp
				}
				if cp, ok := pristine[pc.params]; ok {
					pc.params = cp
				}
			}
		}
		// the concurrent phase uses a fresh Client value (first calls race too)
		if fresh, ferr := NewClient(p, base, do); ferr == nil {
			client = fresh
			if realHC != nil {
				SetHTTPClient(client, realHC)
			}
		}
		var wg sync.WaitGroup
		start := make(chan struct{})
		for g := 0; g < n; g++ {
			wg.Add(1)
			go func(seq []*plannedCall) {
				defer wg.Done()
				<-start
				ci.unrouted()
				for _, pc := range seq {
					callOne(pc)
				}
				ci.unrouted()
			}(plans[g])
		}
		close(start)
		wg.Wait()
		r.LabelN("calls:failing-alone-excluded", int64(len(ci.baseline)))
		r.Evaluations += int64(n * perG)
		if len(distinctOps) >= 3 || len(ops) < 3 {
			r.NonTrivial("C20", p.Index, n, perG, procs, useServer, nmw)
		}
		r.Label(fmt.Sprintf("goroutines:%d", n))
		r.Label(fmt.Sprintf("gomaxprocs:%d", procs))
		if sharedResponses {
			r.Label("responses:shared-static-values")
		}
		if useServer {
			r.Label("transport:loopback")
		} else {
			r.Label("transport:in-process")
		}
		if len(ci.errs) > 0 {
			f := res.Failure{Property: "C20", Kind: "cross-talk", Clause: "isolation",
				Detail: fmt.Sprintf("%d goroutines x %d calls, GOMAXPROCS=%d, loopback=%v, %d middlewares: %s", n, perG, procs, useServer, nmw, ci.errs[0]),
				Replay: p.SpecReplay(map[string]any{"errors.txt": fmt.Sprint(ci.errs)})}
			if IsKnown(p, e, r, &f) {
				return
			}
			lastFail = &f
			t.Fatalf("%s", f.Detail)
		}
		r.Sample(map[string]any{"package": p.Name, "goroutines": n, "calls_per_goroutine": perG, "gomaxprocs": procs, "loopback": useServer, "middlewares": nmw, "distinct_operations": len(distinctOps), "verdict": "every handler saw its own request, every caller its own response; race detector silent"}, 4)
	}
	ok, _ := rt.Check("C20-"+p.Name, rt.Seed(e.Seed, rt.SeedStr("C20"), uint64(p.Index)), rounds, 5*time.Second, prop)
	if !ok && lastFail != nil {
		r.Fail(*lastFail)
	}
}

// deepCopyValue copies structs, slices, maps and pointers recursively (interfaces,
// readers included, are shared: raw bodies get fresh readers per call anyway).
func deepCopyValue(v reflect.Value) reflect.Value {
	out := reflect.New(v.Type()).Elem()
	switch v.Kind() {
	case reflect.Struct:
		if v.Type() == timeType {
			out.Set(v)
			return out
		}
		out.Set(v) // unexported fields
		for i := 0; i < v.NumField(); i++ {
			if v.Type().Field(i).IsExported() {
				out.Field(i).Set(deepCopyValue(v.Field(i)))
			}
		}
	case reflect.Slice:
		if v.IsNil() {
			return out
		}
		out.Set(reflect.MakeSlice(v.Type(), v.Len(), v.Len()))
		for i := 0; i < v.Len(); i++ {
			out.Index(i).Set(deepCopyValue(v.Index(i)))
		}
	case reflect.Map:
		if v.IsNil() {
			return out
		}
		out.Set(reflect.MakeMapWithSize(v.Type(), v.Len()))
		for _, k := range v.MapKeys() {
			out.SetMapIndex(k, deepCopyValue(v.MapIndex(k)))
		}
	case reflect.Ptr:
		if v.IsNil() {
			return out
		}
		out.Set(reflect.New(v.Type().Elem()))
		out.Elem().Set(deepCopyValue(v.Elem()))
	default:
		out.Set(v)
	}
	return out
}

// ColdStartC20: before anything of the package has been called in this process, every
// operation receives its first requests from sixteen goroutines at once (whatever the
// generated code initialises on first use is initialised under contention). Only the race
// detector judges this phase. Whether two first calls really go unordered depends on the
// scheduler, so every shard process runs it for every package (sixteen independent tries
// per package and run), not only for the packages it goes on to check.
func ColdStartC20(p *Pkg) {
	if coldStartedServer[p.Name] || len(p.Ops) == 0 {
		return
	}
	coldStartedServer[p.Name] = true
	cold := newConcurrentInst(p)
	cold.discard = true
	var wg sync.WaitGroup
	start := make(chan struct{})
	for g := 0; g < 16; g++ {
		wg.Add(1)
		go func(g int) {
			defer wg.Done()
			<-start
			if g%2 == 1 {
				cold.unrouted()
			}
			// (every goroutine starts at another operation: the first calls - and whatever
			// they initialise - are spread over the goroutines)
			for k := range p.Ops {
				op := p.Ops[(k+g)%len(p.Ops)]
				func() {
					defer func() { recover() }()
					req := httptest.NewRequest(op.Method, "http://h.example"+escapeForURL(p.BasePath+concretePath(op.Template)), nil)
					if cs := p.Doc.Components; cs != nil {
						for _, sch := range cs.SecuritySchemes {
							switch refmodel.SchemeKind(sch) {
							case "bearer":
								req.Header.Set("Authorization", "Bearer cold")
							case "apikey-header":
								req.Header.Set(sch.Name, "cold")
							}
						}
					}
					cold.h.ServeHTTP(httptest.NewRecorder(), req)
				}()
			}
		}(g)
	}
	close(start)
	wg.Wait()
}

var coldStartedServer = map[string]bool{}

package drv

import (
	"context"
	"fmt"
	"net/http"
	"net/http/httptest"
	"net/url"
	"reflect"
	"strings"

	"verif/refmodel"
	"verif/res"
)

func init() {
	RegisterCheck("C03", CheckC03)
}

// enumPaths enumerates all request paths of depth <= maxDepth over the alphabet
// (each element a segment; "" is the empty segment).
func enumPaths(alphabet []string, maxDepth int) []string {
	var out []string
	var rec func(prefix string, d int)
	rec = func(prefix string, d int) {
		if d == 0 {
			return
		}
		for _, a := range alphabet {
			p := prefix + "/" + a
			out = append(out, p)
			rec(p, d-1)
		}
	}
	rec("", maxDepth)
	return out
}

type schemaPathFn func(*http.Request) (string, bool)

func (p *Pkg) schemaPath() schemaPathFn {
	if f, ok := p.Funcs["SchemaPath"]; ok {
		if fn, ok := f.(func(*http.Request) (string, bool)); ok {
			return fn
		}
	}
	return nil
}

// routeKind classifies a failing routing case narrowly for the known-findings matcher.
func routeKind(v refmodel.RouteVerdict, gotTpl string, path, base string) string {
	switch {
	case v.Dispatch == nil && gotTpl != "":
		rest := strings.TrimPrefix(path, base)
		gs, rs := strings.Split(strings.TrimPrefix(gotTpl, "/"), "/"), strings.Split(strings.TrimPrefix(rest, "/"), "/")
		if strings.HasPrefix(path, base) && len(gs) == len(rs)+1 && strings.HasPrefix(gs[len(gs)-1], "{") {
			return "dispatch-one-segment-short"
		}
		return "dispatch-where-notfound"
	case v.Dispatch != nil && gotTpl == "":
		return "notfound-where-dispatch"
	case v.Dispatch != nil && gotTpl != v.Dispatch.Template:
		return "wrong-template"
	}
	return "other"
}

// CheckC03: routing = OpenAPI path matching under the base path (DESIGN.md §4 C03).
func CheckC03(p *Pkg, e *Env, r *res.Result) {
	in := NewInst(p)
	in.NoParse = true
	customNF := p.Index%2 == 0
	nfHits := 0
	if customNF {
		in.SetField("NotFoundHandler", http.HandlerFunc(func(w http.ResponseWriter, r *http.Request) {
			nfHits++
			w.WriteHeader(404)
		}))
	}
	sp := p.schemaPath()
	var seenTpl string
	var seenOK bool
	mwRuns := 0
	mw := func(next http.Handler) http.Handler {
		return http.HandlerFunc(func(w http.ResponseWriter, r *http.Request) {
			mwRuns++
			if sp != nil {
				seenTpl, seenOK = sp(r)
			}
			next.ServeHTTP(w, r)
		})
	}
	in.SetField("Middlewares", []func(http.Handler) http.Handler{mw})

	base := p.BasePath
	prefixes := []struct{ name, v string }{{"under-base", base}}
	if base != "" {
		prefixes = append(prefixes, struct{ name, v string }{"without-base", ""}, struct{ name, v string }{"near-miss-suffix", base + "x"},
			struct{ name, v string }{"near-miss-truncated", base[:len(base)-1]}, struct{ name, v string }{"base-doubled-slash", base + "/"})
	} else {
		prefixes = append(prefixes, struct{ name, v string }{"foreign-prefix", "/v1"})
	}
	methods := []string{"GET", "POST", "DELETE", "PATCH", "PUT", "HEAD", "OPTIONS", "TRACE"}
	paths := enumPaths([]string{"a", "b", "x", ""}, 5)
	// the base path itself, without any segment after it, is not under the base path
	if base != "" {
		paths = append(paths, "")
	}
	ctx := context.Background()
	reqIdx := 0
	for _, pf := range prefixes {
		for _, rel := range paths {
			if pf.v+rel == "" {
				continue
			}
			path := pf.v + rel
			for mi, m := range methods {
				req := httptest.NewRequest(m, "http://h.example"+escapeForURL(path), nil).WithContext(ctx)
				req.URL.Path = path
				// every fifth request travels in a percent-encoded spelling (one letter of the
				// path written as %XX): the wire form differs, the path and hence the routing
				// outcome are the same
				encoded := ""
				reqIdx++
				if reqIdx%5 == mi {
					if tw := percentEncodedTwin(path, reqIdx); tw != "" {
						req.URL.RawPath = tw
						if req.URL.EscapedPath() == tw {
							encoded = tw
							r.Label("request:percent-encoded-spelling")
						} else {
							req.URL.RawPath = ""
						}
					}
				}
				in.Reset()
				nfBefore := nfHits
				mwRuns, seenTpl, seenOK = 0, "", false
				rec, pan := in.Serve(req)
				r.Evaluations++
				want := refmodel.Route(p.Doc, base, m, path)
				gotTpl := ""
				if len(in.Calls) > 0 {
					gotTpl = in.Calls[0].Op.Template
				}
				fail := ""
				switch {
				case pan != "":
					fail = "panic: " + firstLine(pan)
				case len(in.Calls) > 1:
					fail = fmt.Sprintf("%d handlers ran", len(in.Calls))
				case len(in.Calls) == 1:
					c := in.Calls[0]
					if want.Dispatch == nil {
						fail = fmt.Sprintf("dispatched to %s but no operation matches (%s)", c.Op, want.Why)
					} else if c.Op.Template != want.Dispatch.Template || c.Op.Method != m {
						fail = fmt.Sprintf("dispatched to %s, reference says %s %s (%s)", c.Op, m, want.Dispatch.Template, want.Why)
					} else if sp != nil && (mwRuns != 1 || !seenOK || seenTpl != c.Op.Template) {
						fail = fmt.Sprintf("middleware saw SchemaPath=(%q,%v) in %d runs, want template %q once", seenTpl, seenOK, mwRuns, c.Op.Template)
					}
				default:
					if !want.NotFound {
						fail = fmt.Sprintf("not found, reference says dispatch to %s %s (%s)", m, want.Dispatch.Template, want.Why)
					} else if rec.Code != 404 {
						fail = fmt.Sprintf("no handler ran but status is %d, want the not-found outcome", rec.Code)
					} else if customNF && nfHits != nfBefore+1 {
						fail = "custom NotFoundHandler was not used for an unrouted request"
					} else if mwRuns != 0 {
						fail = "middleware ran for an unrouted request"
					}
				}
				// non-trivial: matches a template or misses one by one segment/slash/method
				if want.Dispatch != nil || strings.Contains(want.Why, "method") || pf.name != "under-base" && want.NotFound && relMatchesSomething(p, rel) {
					r.NonTrivial("C03", p.Index, pf.name, rel, m)
				}
				switch {
				case want.Dispatch != nil && want.NotFound:
					r.Label("ref:ambiguous")
				case want.Dispatch != nil:
					r.Label("ref:dispatch")
				default:
					r.Label("ref:notfound")
				}
				if fail != "" {
					if encoded != "" {
						fail += " [request sent in the percent-encoded spelling " + encoded + "]"
					}
					f := res.Failure{Property: "C03", Kind: routeKind(want, gotTpl, path, base), Clause: "routing",
						Detail: fmt.Sprintf("templates %v base %q (form %v): %s %s: %s", templatesOf(p), base, p.Meta["baseform"], m, path, fail),
						Replay: p.SpecReplay(map[string]any{"request.txt": m + " " + path})}
					if !FailOrKnown(p, e, r, f) {
						return // first unknown failure per package is enough
					}
				}
			}
		}
	}
	r.Label("baseform:" + fmt.Sprint(p.Meta["baseform"]))
	r.Sample(map[string]any{"templates": templatesOf(p), "base_path": base, "baseform": p.Meta["baseform"], "requests": len(paths) * len(methods) * len(prefixes), "custom_not_found": customNF}, 6)
}

// percentEncodedTwin spells one letter of path as %XX (chosen by n); "" when the
// path has no letter.
func percentEncodedTwin(path string, n int) string {
	var idx []int
	for i := 0; i < len(path); i++ {
		if c := path[i]; c >= 'a' && c <= 'z' || c >= 'A' && c <= 'Z' || c >= '0' && c <= '9' {
			idx = append(idx, i)
		}
	}
	if len(idx) == 0 {
		return ""
	}
	i := idx[n%len(idx)]
	return escapeForURL(path[:i]) + fmt.Sprintf("%%%02X", path[i]) + escapeForURL(path[i+1:])
}

func relMatchesSomething(p *Pkg, rel string) bool {
	for _, m := range []string{"GET", "POST", "DELETE"} {
		if refmodel.Route(p.Doc, "", m, rel).Dispatch != nil {
			return true
		}
	}
	return false
}

func templatesOf(p *Pkg) []string {
	var out []string
	seen := map[string]bool{}
	for _, o := range p.Ops {
		if !seen[o.Template] {
			seen[o.Template] = true
			out = append(out, o.Template)
		}
	}
	return out
}

func firstLine(s string) string {
	if i := strings.IndexByte(s, '\n'); i >= 0 {
		return s[:i]
	}
	return s
}

// escapeForURL makes a raw path acceptable to httptest.NewRequest; the request's
// URL.Path is overwritten with the intended (decoded) path afterwards.
// escapedBase: the base path as a client writes it into its base url ("" stays "").
func escapedBase(b string) string {
	if b == "" {
		return ""
	}
	return escapeForURL(b)
}

func escapeForURL(p string) string {
	if p == "" {
		return "/"
	}
	// (what a client puts on the wire for this path: braces, blanks, non-ASCII letters escaped)
	return (&url.URL{Path: p}).EscapedPath()
}

var _ = reflect.TypeOf

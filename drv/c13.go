package drv

import (
	"bytes"
	"fmt"
	"net/http"
	"net/http/httptest"
	"os"
	"path/filepath"
	"strings"

	"verif/refmodel"
	"verif/res"
)

func init() { RegisterCheck("C13", CheckC13) }

// CheckC13 (served half): the spec route serves the input bytes exactly, whatever
// middlewares are installed, and answers only when the handler is installed.
func CheckC13(p *Pkg, e *Env, r *res.Result) {
	want := p.SpecRaw
	if bs, err := os.ReadFile(filepath.Join(e.Dir, "specs", p.Name+".embed")); err == nil {
		want = bs
	}
	fn, _ := p.Funcs["SpecFileHandler"].(func() http.Handler)
	if fn == nil {
		r.Inconclusive = append(r.Inconclusive, p.Name+": no SpecFileHandler() function")
		return
	}
	specURL := p.BasePath + "/" + p.Cfg.ServedSpecName()
	teapot := func(next http.Handler) http.Handler {
		return http.HandlerFunc(func(w http.ResponseWriter, r *http.Request) { w.WriteHeader(418) })
	}
	report := func(kind, msg string, path string) bool {
		f := res.Failure{Property: "C13", Kind: "served:" + kind, Clause: "served",
			Detail: fmt.Sprintf("spec route %q (base %q, spec name %q, templates %v), request GET %s: %s", specURL, p.BasePath, p.Cfg.ServedSpecName(), templatesOf(p), path, msg),
			Replay: p.SpecReplay(map[string]any{"request.txt": "GET " + path, "content.txt": string(want)})}
		return FailOrKnown(p, e, r, f)
	}
	get := func(in *Inst, path string) (*Recorder, string) {
		req := httptest.NewRequest("GET", "http://h.example/", nil)
		req.URL.Path = path
		in.Reset()
		return in.Serve(req)
	}
	// constant
	r.Evaluations++
	if p.SpecFile != string(want) {
		if !report("constant", fmt.Sprintf("SpecFile constant (%d bytes) differs from the input (%d bytes)", len(p.SpecFile), len(want)), specURL) {
			return
		}
	}
	// handler installed
	in := NewInst(p)
	in.NoParse = true
	in.SetField("SpecFileHandler", fn())
	in.SetField("Middlewares", []func(http.Handler) http.Handler{teapot, teapot})
	rec, pan := get(in, specURL)
	r.Evaluations++
	switch {
	case pan != "":
		if !report("panic", firstLine(pan), specURL) {
			return
		}
	case rec.Code != 200 || !bytes.Equal(rec.Body.Bytes(), want):
		if !report("body", fmt.Sprintf("status %d, body %d bytes equal=%v (handler calls %d)", rec.Code, rec.Body.Len(), bytes.Equal(rec.Body.Bytes(), want), len(in.Calls)), specURL) {
			return
		}
	}
	if contentClassServed(want) != "plain" || p.BasePath != "" {
		r.NonTrivial("C13", p.Index, "served")
	}
	// near misses are never answered by the spec handler: they follow plain routing
	for _, path := range []string{specURL + "x", specURL + "/", p.BasePath + "x/" + p.Cfg.ServedSpecName(), "/" + p.Cfg.ServedSpecName() + "/extra", p.BasePath + "/" + p.Cfg.ServedSpecName()[:len(p.Cfg.ServedSpecName())-1],
		// deeper paths that merely end in the spec name, and the spec name under a doubled base
		p.BasePath + "/a/" + p.Cfg.ServedSpecName(), p.BasePath + "/a/b/" + p.Cfg.ServedSpecName(), p.BasePath + p.BasePath + "/" + p.Cfg.ServedSpecName(), p.BasePath + "//" + p.Cfg.ServedSpecName()} {
		if path == specURL || !strings.HasPrefix(path, "/") {
			continue // r.URL.Path of a deliverable request begins with "/"
		}
		rec, pan := get(in, path)
		r.Evaluations++
		ref := refmodel.Route(p.Doc, p.BasePath, "GET", path)
		if pan != "" {
			if !report("panic", firstLine(pan), path) {
				return
			}
			continue
		}
		if rec.Code == 200 && bytes.Equal(rec.Body.Bytes(), want) && len(want) > 0 {
			if !report("near-miss-answered", "the spec handler answered a path that is not the spec route", path) {
				return
			}
		} else if ref.Dispatch == nil && rec.Code != 404 {
			if !report("near-miss-status", fmt.Sprintf("status %d for an unrouted near-miss path, want not found", rec.Code), path) {
				return
			}
		}
	}
	// handler not installed: the route does not exist (plain routing applies)
	in2 := NewInst(p)
	in2.NoParse = true
	in2.SetField("Middlewares", []func(http.Handler) http.Handler{teapot})
	rec, pan = get(in2, specURL)
	r.Evaluations++
	ref := refmodel.Route(p.Doc, p.BasePath, "GET", specURL)
	switch {
	case pan != "":
		report("panic", firstLine(pan), specURL)
	case rec.Code == 200 && len(want) > 0 && bytes.Equal(rec.Body.Bytes(), want):
		report("served-without-handler", "the spec was served although SpecFileHandler is nil", specURL)
	case ref.Dispatch == nil && rec.Code != 404:
		report("nil-handler-status", fmt.Sprintf("status %d with SpecFileHandler nil and no matching operation, want not found", rec.Code), specURL)
	case ref.Dispatch != nil && !ref.NotFound && rec.Code != 418:
		report("nil-handler-routing", fmt.Sprintf("status %d: with SpecFileHandler nil the path matches %s and must be routed (through the middlewares)", rec.Code, ref.Dispatch.Template), specURL)
	}
	if ref.Dispatch != nil {
		r.Label("spec-path-matches-a-template")
		r.NonTrivial("C13", p.Index, "catch-all")
	}
	r.Label("served:" + contentClassServed(want))
	r.Sample(map[string]any{"spec_route": specURL, "bytes": len(want), "class": contentClassServed(want), "templates": templatesOf(p), "served_equals_input": true}, 5)
}

func contentClassServed(bs []byte) string {
	s := string(bs)
	cl := ""
	for _, c := range []struct{ n, sub string }{{"backtick", "`"}, {"quote", `"`}, {"backslash", `\`}, {"CR", "\r"}} {
		if bytes.Contains(bs, []byte(c.sub)) {
			cl += "+" + c.n
		}
	}
	if !bytes.Contains(bs, []byte("\n")) {
		cl += "+noLF"
	}
	_ = s
	if cl == "" {
		return "plain"
	}
	return cl[1:]
}

package drv

import (
	"bytes"
	"fmt"
	"io"
	"net/http"
	"net/http/httptest"
	"reflect"
	"sort"
	"strconv"
	"strings"
	"time"

	"pgregory.net/rapid"

	"verif/refmodel"
	"verif/res"
	"verif/rt"
	"verif/specgen"
)

func init() {
	RegisterCheck("C02", CheckC02)
	RegisterCheck("C10", CheckC10)
}

// DocResponse is one documented response of an operation (resolved).
type DocResponse struct {
	Status    string // "200".."599" or "default"
	Resp      *specgen.Response
	MediaType string          // "" = no content
	Schema    *specgen.Schema // JSON schema when MediaType is application/json
	Headers   map[string]*specgen.Header
	Via       string // inline | component | alias
}

func docResponses(p *Pkg, op *Op) []DocResponse {
	var out []DocResponse
	for _, st := range specgen.SortedKeys(op.Spec.Responses) {
		raw := op.Spec.Responses[st]
		r := p.Doc.ResolveResponse(raw)
		if r == nil {
			continue
		}
		dr := DocResponse{Status: st, Resp: r, Headers: map[string]*specgen.Header{}, Via: "inline"}
		if raw.Ref != "" {
			dr.Via = "component"
			if cr := p.Doc.Components.Responses[strings.TrimPrefix(raw.Ref, specgen.RefResponses)]; cr != nil && cr.Ref != "" {
				dr.Via = "alias"
			}
		}
		if mt, ok := r.Content["application/json"]; ok {
			dr.MediaType, dr.Schema = "application/json", mt.Schema
		} else {
			for _, k := range specgen.SortedKeys(r.Content) {
				dr.MediaType = k
				break
			}
		}
		for name, h := range r.Headers {
			if rh := p.Doc.ResolveHeader(h); rh != nil {
				dr.Headers[name] = rh
			}
		}
		out = append(out, dr)
	}
	return out
}

func silenceLogError(p *Pkg) {
	if v, ok := p.Vars["LogError"]; ok {
		if fp, ok := v.(*func(error)); ok {
			*fp = func(error) {}
		}
	}
}

// probeStatus writes a harmless value of implementer type T for op and returns the
// status it produced.
func probeStatus(in *Inst, op *Op, t reflect.Type, code int) (int, string) {
	v := reflect.New(t).Elem()
	if f := v.FieldByName("Code"); f.IsValid() && f.Kind() == reflect.Int {
		f.SetInt(int64(code))
	}
	FillReaders(v)
	saved := in.Respond
	in.Respond = func(c *Call) reflect.Value { return v }
	req := httptest.NewRequest(op.Method, "http://h.example"+escapeForURL(in.P.BasePath+concretePath(op.Template)), nil)
	// (a secured operation is probed with a credential for every scheme; whether it is
	// admitted depends on the authenticators the caller installed)
	if cs := in.P.Doc.Components; cs != nil && len(in.P.Doc.EffectiveSecurity(op.Spec)) > 0 {
		q := req.URL.Query()
		for _, sch := range cs.SecuritySchemes {
			switch refmodel.SchemeKind(sch) {
			case "bearer":
				req.Header.Set("Authorization", "Bearer probe")
			case "apikey-header":
				req.Header.Set(sch.Name, "probe")
			case "apikey-query":
				q.Set(sch.Name, "probe")
			}
		}
		req.URL.RawQuery = q.Encode()
	}
	in.Reset()
	rec, pan := in.Serve(req)
	in.Respond = saved
	if pan != "" {
		return 0, pan
	}
	if len(in.Calls) != 1 {
		return 0, "not dispatched"
	}
	return rec.Code, ""
}

type implInfo struct {
	T      reflect.Type
	Doc    *DocResponse
	IsDflt bool
}

// linkImplementers establishes Impl(op) <-> Doc(op) behaviourally.
func linkImplementers(in *Inst, op *Op, docs []DocResponse) ([]implInfo, []string) {
	var out []implInfo
	var problems []string
	documented := map[int]bool{}
	for _, d := range docs {
		if n, err := strconv.Atoi(d.Status); err == nil {
			documented[n] = true
		}
	}
	probeCode := 299
	for documented[probeCode] {
		probeCode++
	}
	for _, t := range op.Implementers() {
		base := t
		if base.Kind() == reflect.Pointer {
			base = base.Elem()
		}
		_, hasCode := base.FieldByName("Code")
		st, perr := probeStatus(in, op, t, probeCode)
		if perr != "" {
			problems = append(problems, fmt.Sprintf("%s: probing %s failed: %s", op, t, firstLine(perr)))
			continue
		}
		info := implInfo{T: t}
		for i := range docs {
			d := &docs[i]
			if d.Status == "default" && hasCode && st == probeCode {
				info.Doc, info.IsDflt = d, true
			} else if d.Status == strconv.Itoa(st) && !(hasCode && st == probeCode) {
				info.Doc = d
			}
		}
		if info.Doc == nil {
			problems = append(problems, fmt.Sprintf("%s: response type %s writes status %d, which matches no documented response %v", op, t, st, statusesOf(docs)))
			continue
		}
		out = append(out, info)
	}
	return out, problems
}

func statusesOf(docs []DocResponse) []string {
	var out []string
	for _, d := range docs {
		out = append(out, d.Status)
	}
	return out
}

// genResponse draws a value of implementer type T for documented response d.
func genResponse(t *rapid.T, p *Pkg, info implInfo, docs []DocResponse) (reflect.Value, []byte, *ValGen) {
	g := &ValGen{T: t, Doc: p.Doc}
	typ := info.T
	v := reflect.New(typ).Elem()
	var raw []byte
	for i := 0; i < typ.NumField(); i++ {
		sf := typ.Field(i)
		f := v.Field(i)
		switch sf.Name {
		case "Code":
			documented := map[int]bool{}
			for _, d := range docs {
				if n, err := strconv.Atoi(d.Status); err == nil {
					documented[n] = true
				}
			}
			code := rapid.IntRange(200, 599).Draw(t, "code")
			// half of the time a registered status code (code-specific handling, if any, hides there)
			if rapid.Bool().Draw(t, "code_registered") {
				code = rapid.SampledFrom([]int{200, 201, 202, 203, 205, 206, 207, 208, 226, 300, 301, 302, 303, 305, 307, 308, 400, 401, 402, 403, 404, 405, 406, 407, 408, 409, 410, 411, 412, 413, 414, 415, 416, 417, 418, 421, 422, 423, 424, 425, 426, 428, 429, 431, 451, 500, 501, 502, 503, 504, 505, 506, 507, 508, 510, 511}).Draw(t, "code_iana")
			}
			for documented[code] || code == 204 || code == 304 {
				code++
				if code > 599 {
					code = 200
				}
			}
			f.SetInt(int64(code))
		case "Body":
			if sf.Type == readerType || sf.Type == rcType {
				raw = []byte(rapid.StringN(0, 60, 240).Draw(t, "rawbody"))
				f.Set(reflect.ValueOf(RawBodyReader(raw, rapid.IntRange(0, 2).Draw(t, "raw_reader_shape"))))
				continue
			}
			g.Ctx = "json"
			f.Set(g.Gen(sf.Type, info.Doc.Schema, 3))
		case "Headers":
			g.Ctx = "header"
			for j := 0; j < sf.Type.NumField(); j++ {
				ff := f.Field(j)
				ff.Set(g.Gen(sf.Type.Field(j).Type, nil, 2))
				if ff.Kind() == reflect.Slice && ff.Len() == 0 {
					ff.Set(reflect.Append(reflect.MakeSlice(ff.Type(), 0, 1), g.Gen(ff.Type().Elem(), nil, 1)))
				}
				if isOptionStruct(ff.Type()) && ff.Field(0).Bool() && ff.Field(1).Kind() == reflect.Slice && ff.Field(1).Len() == 0 {
					ff.Set(reflect.Zero(ff.Type()))
				}
			}
			// a header with a Go time layout can only carry what the layout can express
			for name, h := range info.Doc.Headers {
				if prim, _, ok := headerPrim(p.Doc, h); ok && prim.Layout() != "" {
					if hf, ok := headerField(v, name); ok {
						FitTimesToLayout(hf, prim.Layout())
					}
				}
			}
		}
	}
	return v, raw, g
}

// headerField finds the Headers field for a declared header name.
func headerField(v reflect.Value, name string) (reflect.Value, bool) {
	hs := v.FieldByName("Headers")
	if !hs.IsValid() {
		return reflect.Value{}, false
	}
	var found reflect.Value
	n := 0
	for i := 0; i < hs.NumField(); i++ {
		if Norm(hs.Type().Field(i).Name) == Norm(name) {
			found = hs.Field(i)
			n++
		}
	}
	return found, n == 1
}

func headerPrim(d *specgen.Doc, h *specgen.Header) (specgen.Prim, bool, bool) {
	rs := d.ResolveSchema(h.Schema)
	if rs == nil {
		return specgen.Prim{}, false, false
	}
	isArr := false
	if rs.Type == "array" {
		isArr = true
		rs = d.ResolveSchema(rs.Items)
		if rs == nil {
			return specgen.Prim{}, false, false
		}
	}
	p, ok := specgen.PrimOf(&specgen.Schema{Type: rs.Type, Format: rs.Format, TimeFormat: rs.TimeFormat})
	return p, isArr, ok
}

// checkWritten applies the C02 oracle to what the recorder received.
func checkWritten(p *Pkg, info implInfo, v reflect.Value, raw []byte, rec *Recorder) (clause, msg string) {
	d := info.Doc
	wantStatus := 0
	if info.IsDflt {
		wantStatus = int(v.FieldByName("Code").Int())
	} else {
		wantStatus, _ = strconv.Atoi(d.Status)
	}
	if rec.Code != wantStatus {
		return "status", fmt.Sprintf("status %d, documented %s (want %d)", rec.Code, d.Status, wantStatus)
	}
	if rec.WriteHeaderCalls != 1 {
		return "write-header-count", fmt.Sprintf("WriteHeader called %d times", rec.WriteHeaderCalls)
	}
	hdr := rec.Header()
	ct := hdr.Get("Content-Type")
	if d.MediaType == "" {
		if ct != "" {
			return "content-type", fmt.Sprintf("Content-Type %q on a response without content", ct)
		}
	} else if ct != d.MediaType {
		return "content-type", fmt.Sprintf("Content-Type %q, documented %q", ct, d.MediaType)
	}
	declared := map[string]bool{"Content-Type": true}
	for name, h := range d.Headers {
		canon := http.CanonicalHeaderKey(name)
		declared[canon] = true
		fv, ok := headerField(v, name)
		if !ok {
			return "header-has-no-field", fmt.Sprintf("the documented header %s has no field in the response type %s: a handler cannot set it", name, v.Type())
		}
		// a header the document requires cannot be left out: its field is not an optional one
		// (deprecated or not - `deprecated` is an annotation)
		if rh := p.Doc.ResolveHeader(h); rh != nil && rh.Required && isOptionStruct(fv.Type()) && !strings.HasPrefix(fv.Type().Name(), "Nullable") {
			return "required-header-is-optional", fmt.Sprintf("the header %s is required, but its field in %s is optional (%s): a handler can leave it out", name, v.Type(), fv.Type())
		}
		set, vals := FieldValues(fv)
		got := hdr.Values(name)
		if !set {
			if len(got) != 0 {
				return "header-invented", fmt.Sprintf("unset optional header %s was written: %q", name, got)
			}
			if h.Required {
				return "", ""
			}
			continue
		}
		prim, isArr, ok := headerPrim(p.Doc, h)
		if !ok {
			continue
		}
		if !isArr && len(got) != 1 || isArr && len(got) != len(vals) {
			return "header-count", fmt.Sprintf("header %s: %d values written %q, the response value holds %d", name, len(got), got, len(vals))
		}
		for i, lex := range got {
			verdict, tv := refmodel.Judge(prim, lex)
			if verdict == refmodel.MustReject {
				return "header-format", fmt.Sprintf("header %s value %q is outside the lexical space of %s", name, lex, prim.Name)
			}
			if verdict == refmodel.DontCare {
				continue
			}
			if ok, goVal := EqualTyped(vals[i], tv); !ok {
				return "header-value", fmt.Sprintf("header %s: wrote %q for the value %s", name, lex, goVal)
			}
		}
	}
	for k := range hdr {
		if !declared[http.CanonicalHeaderKey(k)] {
			return "header-undeclared", fmt.Sprintf("undeclared header %s: %q", k, hdr.Values(k))
		}
	}
	body := rec.Body.Bytes()
	switch {
	case d.MediaType == "":
		if len(bytes.TrimSpace(body)) != 0 {
			return "body-unexpected", fmt.Sprintf("%d body bytes on a response without content", len(body))
		}
	case d.Schema != nil:
		tree, err := refmodel.DecodeJSON(body)
		if err != nil {
			return "body-invalid-json", fmt.Sprintf("body %s: %v", clip(string(body), 200), err)
		}
		va := refmodel.Validator{Doc: p.Doc, Mode: refmodel.Output}
		if errs := va.Validate(d.Schema, tree); len(errs) > 0 {
			kind := "body-schema"
			if k := NilCollectionKind(v.FieldByName("Body"), func(nv reflect.Value) bool {
				nb, nerr := safeMarshal(nv.Interface())
				if nerr != nil {
					return false
				}
				nt, derr := refmodel.DecodeJSON(nb)
				return derr == nil && len(va.Validate(d.Schema, nt)) == 0
			}); k != "" {
				kind = "body-" + k
			}
			return kind, fmt.Sprintf("body %s does not validate: %s", clip(string(body), 200), strings.Join(errs, "; "))
		}
		if own, err := safeMarshal(v.FieldByName("Body").Interface()); err == nil {
			if ot, derr := refmodel.DecodeJSON(own); derr == nil {
				if ok, why := refmodel.Equiv(p.Doc, d.Schema, ot, tree); !ok {
					return "body-differs", "body is not the encoding of the Body field: " + why
				}
			}
		}
	default:
		if !bytes.Equal(body, raw) {
			return "body-raw", fmt.Sprintf("raw body: %d bytes written, %d given", len(body), len(raw))
		}
	}
	return "", ""
}

func respClass(p *Pkg, op *Op, d *DocResponse) string {
	body := "nobody"
	switch {
	case d.Schema != nil:
		body = "json"
	case d.MediaType != "":
		body = "raw"
	}
	return fmt.Sprintf("%s/%s/%s/h%d", d.Via, map[bool]string{true: "default", false: "numbered"}[d.Status == "default"], body, len(d.Headers))
}

// CheckC02: handlers can only return documented responses, written as documented.
func CheckC02(p *Pkg, e *Env, r *res.Result) {
	silenceLogError(p)
	in := NewInst(p)
	in.NoParse = true
	type target struct {
		op   *Op
		docs []DocResponse
		info implInfo
	}
	var targets []target
	for _, op := range p.Ops {
		docs := docResponses(p, op)
		infos, problems := linkImplementers(in, op, docs)
		r.Evaluations++
		report := func(kind, msg string) bool {
			f := res.Failure{Property: "C02", Kind: kind, Clause: "static", Detail: fmt.Sprintf("%s documented %v, response types %v: %s", op, statusesOf(docs), implNames(op), msg),
				Replay: p.SpecReplay(map[string]any{"operation.txt": op.String()})}
			return FailOrKnown(p, e, r, f)
		}
		bad := false
		for _, pr := range problems {
			bad = true
			if !report("undocumented-implementer", pr) {
				return
			}
		}
		// bijection
		hit := map[string]int{}
		for _, in := range infos {
			hit[in.Doc.Status]++
		}
		for _, d := range docs {
			switch {
			case hit[d.Status] == 0:
				bad = true
				if !report("documented-response-unreachable", fmt.Sprintf("no response type of the operation writes documented response %s", d.Status)) {
					return
				}
			case hit[d.Status] > 1:
				bad = true
				if !report("ambiguous-implementers", fmt.Sprintf("%d response types write documented response %s", hit[d.Status], d.Status)) {
					return
				}
			}
		}
		if len(docs) >= 2 {
			r.NonTrivial("C02-static", p.Index, op.String())
		}
		if bad {
			continue
		}
		for _, info := range infos {
			r.Label("cell:" + respClass(p, op, info.Doc))
			targets = append(targets, target{op, docs, info})
		}
	}
	if len(targets) == 0 {
		return
	}
	n := 100 * len(targets)
	if !e.Quick() {
		n = 300 * len(targets)
	}
	var lastFail *res.Failure
	prop := func(t *rapid.T) {
		tg := targets[rapid.IntRange(0, len(targets)-1).Draw(t, "target")]
		v, raw, g := genResponse(t, p, tg.info, tg.docs)
		in.Respond = func(c *Call) reflect.Value { return v }
		req := httptest.NewRequest(tg.op.Method, "http://h.example"+escapeForURL(p.BasePath+concretePath(tg.op.Template)), nil)
		in.Reset()
		// a middleware in front of the API may have announced a default Content-Type: a
		// response with documented content is still written with its documented type
		in.PresetHeader = nil
		if tg.info.Doc.MediaType != "" && rapid.IntRange(0, 3).Draw(t, "preset_content_type") == 0 {
			in.PresetHeader = http.Header{"Content-Type": {rapid.SampledFrom([]string{"application/json; charset=utf-8", "text/html", "application/x-preset"}).Draw(t, "preset_ct")}}
			r.Label("writer:preset-content-type")
		}
		rec, pan := in.Serve(req)
		in.PresetHeader = nil
		r.Evaluations++
		fail := func(clause, msg string) {
			if strings.Contains(clause, "body") && tg.info.Doc.Schema != nil {
				clause += "@" + bodySchemaClass(p.Doc, tg.info.Doc.Schema)
			}
			f := res.Failure{Property: "C02", Kind: clause, Clause: clause,
				Detail: fmt.Sprintf("%s returns %s %s (documented response %s, %s): %s", tg.op, tg.info.T, clip(fmt.Sprintf("%+v", v.Interface()), 300), tg.info.Doc.Status, respClass(p, tg.op, tg.info.Doc), msg),
				Replay: p.SpecReplay(map[string]any{"operation.txt": tg.op.String(), "value.txt": fmt.Sprintf("%#v", v.Interface())})}
			if IsKnown(p, e, r, &f) {
				return
			}
			lastFail = &f
			t.Fatalf("%s", f.Detail)
		}
		if pan != "" {
			fail("panic", firstLine(pan))
			return
		}
		if clause, msg := checkWritten(p, tg.info, v, raw, rec); clause != "" {
			fail(clause, msg)
			return
		}
		if len(tg.info.Doc.Headers) > 0 && g.UnsetOptionals+g.NonEmptyCollections > 0 || rec.Body.Len() > 0 {
			r.NonTrivial("C02", p.Index, tg.op.String(), tg.info.T.String(), shapeOfParams(v))
		}
		r.Sample(map[string]any{"op": tg.op.String(), "type": tg.info.T.String(), "documented": tg.info.Doc.Status, "status": rec.Code, "headers": fmt.Sprint(rec.Header()), "body": clip(rec.Body.String(), 120)}, 4)
	}
	ok, _ := rt.Check("C02-"+p.Name, rt.Seed(e.Seed, rt.SeedStr("C02"), uint64(p.Index)), n, 10*time.Second, prop)
	if !ok && lastFail != nil {
		r.Fail(*lastFail)
	}
}

func implNames(op *Op) []string {
	var out []string
	for _, t := range op.Implementers() {
		out = append(out, t.String())
	}
	sort.Strings(out)
	return out
}

// ---------------------------------------------------------------------------
// C10: the generated client reconstructs every response the server can send

func responsesEqual(sent, got reflect.Value, sentRaw []byte) (bool, string) {
	if got.Kind() == reflect.Interface {
		got = got.Elem()
	}
	if !got.IsValid() {
		return false, "client returned a nil response"
	}
	if got.Type() != sent.Type() {
		return false, fmt.Sprintf("response kind %s, handler returned %s", got.Type(), sent.Type())
	}
	typ := sent.Type()
	for i := 0; i < typ.NumField(); i++ {
		sf := typ.Field(i)
		a, b := sent.Field(i), got.Field(i)
		if sf.Name == "Body" && (sf.Type == readerType || sf.Type == rcType) {
			var bs []byte
			if !b.IsNil() {
				bs, _ = io.ReadAll(b.Interface().(io.Reader))
			}
			if !bytes.Equal(bs, sentRaw) {
				return false, fmt.Sprintf("raw body: handler wrote %d bytes, client delivers %d", len(sentRaw), len(bs))
			}
			continue
		}
		if ok, why := EqNorm(a, b); !ok {
			return false, sf.Name + why
		}
	}
	return true, ""
}

func CheckC10(p *Pkg, e *Env, r *res.Result) {
	HugeStringOneIn = 1500
	if _, ok := p.Types["Client"]; !ok {
		r.Label("packages-without-client")
		return
	}
	silenceLogError(p)
	in := NewInst(p)
	in.NoParse = true
	type target struct {
		op   *Op
		docs []DocResponse
		info implInfo
	}
	var targets []target
	opDocs := map[*Op][]DocResponse{}
	opInfos := map[*Op][]implInfo{}
	for _, op := range p.Ops {
		if op.ClientMethod == "" {
			r.Label("unmappable-client-method")
			continue
		}
		docs := docResponses(p, op)
		infos, problems := linkImplementers(in, op, docs)
		if len(problems) > 0 {
			// the static link is C02's business; the round trip is still demanded of every
			// response type the handler can return
			r.Label("unlinked-implementers")
			linked := map[reflect.Type]bool{}
			for _, info := range infos {
				linked[info.T] = true
			}
			for _, t := range op.Implementers() {
				if !linked[t] {
					infos = append(infos, implInfo{T: t, Doc: &DocResponse{Status: "unlinked", Headers: map[string]*specgen.Header{}}})
				}
			}
		}
		opDocs[op], opInfos[op] = docs, infos
		for _, info := range infos {
			targets = append(targets, target{op, docs, info})
		}
	}
	if len(targets) == 0 {
		return
	}
	var forced *http.Response
	client, err := NewClient(p, "http://h.example"+escapedBase(p.BasePath), func(req *http.Request) (*http.Response, error) {
		if forced != nil {
			return forced, nil
		}
		rec := httptest.NewRecorder()
		in.H.ServeHTTP(rec, req)
		return rec.Result(), nil
	})
	if err != nil {
		r.Inconclusive = append(r.Inconclusive, p.Name+": "+err.Error())
		return
	}
	// raw (non-JSON) response bodies are handed to the caller as a stream: half of those
	// cases travel over loopback through a real *http.Client, where a body stays readable
	// only as long as nobody has closed it
	srv := httptest.NewServer(in.H)
	defer srv.Close()
	hc := srv.Client()
	// (the response under test is the one the handler wrote, not where a redirect leads)
	hc.CheckRedirect = func(*http.Request, []*http.Request) error { return http.ErrUseLastResponse }
	realClient, _ := NewClient(p, srv.URL+escapedBase(p.BasePath), func(req *http.Request) (*http.Response, error) { return hc.Do(req) })
	n := 100 * len(targets)
	if !e.Quick() {
		n = 300 * len(targets)
	}
	var lastFail *res.Failure
	prop := func(t *rapid.T) {
		tg := targets[rapid.IntRange(0, len(targets)-1).Draw(t, "target")]
		mode := rapid.SampledFrom([]string{"documented", "documented", "documented", "undocumented"}).Draw(t, "mode")
		params := reflect.New(tg.op.ParamsType).Elem()
		pg := &ValGen{T: t, Doc: p.Doc, Ctx: "path"}
		if f := params.FieldByName("Path"); f.IsValid() {
			for j := 0; j < f.NumField(); j++ {
				f.Field(j).Set(pg.Gen(f.Type().Field(j).Type, nil, 1))
			}
		}
		FillReaders(params)
		r.Evaluations++
		failWith := func(v reflect.Value) func(clause, msg string) {
			return func(clause, msg string) {
				val := ""
				if v.IsValid() {
					val = clip(fmt.Sprintf("%+v", v.Interface()), 300)
				}
				if strings.Contains(clause, "body") {
					for _, d := range tg.docs {
						if (mode == "documented" && d.Status == tg.info.Doc.Status || mode != "documented" && d.Status == "default") && d.Schema != nil {
							clause += "@" + bodySchemaClass(p.Doc, d.Schema)
						}
					}
				}
				f := res.Failure{Property: "C10", Kind: clause, Clause: clause,
					Detail: fmt.Sprintf("%s (%s) handler value %s: %s", tg.op, mode, val, msg),
					Replay: p.SpecReplay(map[string]any{"operation.txt": tg.op.String(), "value.txt": val})}
				if IsKnown(p, e, r, &f) {
					return
				}
				lastFail = &f
				t.Fatalf("%s", f.Detail)
			}
		}
		if mode == "documented" {
			v, raw, g := genResponse(t, p, tg.info, tg.docs)
			fail := failWith(v)
			in.Respond = func(c *Call) reflect.Value {
				// a fresh reader per call (the value is read once by Write)
				if raw != nil {
					v.FieldByName("Body").Set(reflect.ValueOf(RawBodyReader(raw, len(raw))))
				}
				return v
			}
			forced = nil
			in.Reset()
			cl := client
			code, _ := strconv.Atoi(tg.info.Doc.Status)
			if cf := v.FieldByName("Code"); tg.info.Doc.Status == "default" && cf.IsValid() && cf.CanInt() {
				code = int(cf.Int())
			}
			// (a real client reads the Location of a 3xx itself and net/http keeps no body for 1xx / 204 / 304)
			if raw != nil && realClient.IsValid() && tg.op.Method != "HEAD" && code >= 200 && code/100 != 3 && code != 204 && rapid.Bool().Draw(t, "over_loopback") {
				cl = realClient
				r.Label("transport:loopback-real-http-client")
			}
			resp, cerr, pan := CallClient(cl, tg.op, params)
			if pan != "" {
				fail("client-panic", pan)
				return
			}
			if len(in.Calls) != 1 {
				r.Label("skipped:not-dispatched")
				return
			}
			if cerr != nil {
				fail("client-error:"+clientErrClass(cerr), fmt.Sprintf("client returned an error for a documented response %s: %v", tg.info.Doc.Status, cerr))
				return
			}
			if ok, why := responsesEqual(v, resp, raw); !ok {
				fail("response-differs:"+diffClass2(why), why)
				return
			}
			if g.UnsetOptionals+g.NonEmptyCollections+g.EscapeStrings > 0 || len(raw) > 0 {
				r.NonTrivial("C10", p.Index, tg.op.String(), tg.info.T.String(), shapeOfParams(v))
			}
			r.Label("documented:" + respClass(p, tg.op, tg.info.Doc))
			r.Sample(map[string]any{"op": tg.op.String(), "type": tg.info.T.String(), "verdict": "client returned an equal value of the same kind"}, 3)
			return
		}
		// undocumented status
		fail := failWith(reflect.Value{})
		documented := map[int]bool{}
		var dflt *implInfo
		for i, info := range opInfos[tg.op] {
			if info.IsDflt {
				dflt = &opInfos[tg.op][i]
			}
		}
		for _, d := range tg.docs {
			if nn, err := strconv.Atoi(d.Status); err == nil {
				documented[nn] = true
			}
		}
		code := rapid.IntRange(200, 599).Draw(t, "undoc")
		for documented[code] || code == 204 || code == 304 {
			code++
			if code > 599 {
				code = 200
			}
		}
		rec := httptest.NewRecorder()
		var sent reflect.Value
		var raw []byte
		if dflt != nil {
			sent, raw, _ = genResponse(t, p, *dflt, tg.docs)
			sent.FieldByName("Code").SetInt(int64(code))
			if m := sent.MethodByName("Write"); m.IsValid() && m.Type().NumIn() == 1 {
				m.Call([]reflect.Value{reflect.ValueOf(http.ResponseWriter(rec))})
			} else {
				rec.WriteHeader(code)
			}
		} else {
			rec.WriteHeader(code)
			rec.Body.WriteString(`{"unexpected":true}`)
		}
		forced = rec.Result()
		resp, cerr, pan := CallClient(client, tg.op, params)
		forced = nil
		r.NonTrivial("C10-undoc", p.Index, tg.op.String(), code, dflt != nil)
		r.Label("undocumented-status")
		if pan != "" {
			fail("client-panic", pan)
			return
		}
		if dflt == nil {
			if cerr == nil {
				got := "<nil>"
				if resp.IsValid() && !(resp.Kind() == reflect.Interface && resp.IsNil()) {
					got = resp.Elem().Type().String()
				}
				fail("undocumented-status-accepted", fmt.Sprintf("status %d is not documented and there is no default, but the client returned %s without error", code, got))
			}
			return
		}
		if cerr != nil {
			fail("default-not-used:"+clientErrClass(cerr), fmt.Sprintf("status %d should be delivered through the default response, client returned error %v", code, cerr))
			return
		}
		if ok, why := responsesEqual(sent, resp, raw); !ok {
			fail("default-differs:"+diffClass2(why), fmt.Sprintf("status %d: %s", code, why))
		}
	}
	ok, _ := rt.Check("C10-"+p.Name, rt.Seed(e.Seed, rt.SeedStr("C10"), uint64(p.Index)), n, 10*time.Second, prop)
	if !ok && lastFail != nil {
		r.Fail(*lastFail)
	}
}

func clientErrClass(err error) string {
	s := err.Error()
	switch {
	case strings.Contains(s, "is required"):
		return "header-required"
	case strings.Contains(s, "header"):
		return "header"
	case strings.Contains(s, "decode"):
		return "decode-body"
	case strings.Contains(s, "not implemented"):
		return "not-implemented"
	}
	return "other"
}

func diffClass2(why string) string {
	switch {
	case strings.HasPrefix(why, "response kind"):
		return "kind"
	case strings.HasPrefix(why, "Code"):
		return "code"
	case strings.HasPrefix(why, "Headers"):
		return "headers"
	case strings.HasPrefix(why, "Body"), strings.HasPrefix(why, "raw body"):
		return "body"
	}
	return "other"
}

var _ = specgen.SortedKeys[int]

package drv

import (
	"bytes"
	"context"
	"fmt"
	"io"
	"net/http"
	"net/http/httptest"
	"net/url"
	"reflect"
	"strings"
	"time"

	"pgregory.net/rapid"

	"verif/refmodel"
	"verif/res"
	"verif/rt"
	"verif/specgen"
)

func init() {
	RegisterCheck("C09", CheckC09)
}

// NewClient builds a generated *Client whose HTTPClient is the given function.
func NewClient(p *Pkg, baseURL string, do func(*http.Request) (*http.Response, error)) (reflect.Value, error) {
	ct, ok := p.Types["Client"]
	if !ok {
		return reflect.Value{}, fmt.Errorf("package has no Client type")
	}
	c := reflect.New(ct)
	c.Elem().FieldByName("BaseURL").SetString(baseURL)
	hf := c.Elem().FieldByName("HTTPClient")
	ft, ok := p.Types["HTTPClientFunc"]
	if !ok {
		return reflect.Value{}, fmt.Errorf("package has no HTTPClientFunc type")
	}
	fn := reflect.MakeFunc(ft, func(args []reflect.Value) []reflect.Value {
		resp, err := do(args[0].Interface().(*http.Request))
		out0 := reflect.Zero(ft.Out(0))
		if resp != nil {
			out0 = reflect.ValueOf(resp)
		}
		out1 := reflect.Zero(errorType)
		if err != nil {
			out1 = reflect.ValueOf(err).Convert(errorType)
		}
		return []reflect.Value{out0, out1}
	})
	hf.Set(fn)
	return c, nil
}

// SetHTTPClient puts a real *http.Client into the generated Client's HTTPClient field
// (what most applications do); false when the field does not take one.
func SetHTTPClient(client reflect.Value, hc *http.Client) bool {
	hf := client.Elem().FieldByName("HTTPClient")
	if !hf.IsValid() || !reflect.TypeOf(hc).AssignableTo(hf.Type()) {
		return false
	}
	hf.Set(reflect.ValueOf(hc))
	return true
}

// CallClient invokes the client method of op.
func CallClient(client reflect.Value, op *Op, params reflect.Value) (resp reflect.Value, err error, panicked string) {
	defer func() {
		if r := recover(); r != nil {
			panicked = fmt.Sprint(r)
		}
	}()
	m := client.MethodByName(op.ClientMethod)
	out := m.Call([]reflect.Value{reflect.ValueOf(context.Background()), params})
	if !out[1].IsNil() {
		err = out[1].Interface().(error)
	}
	return out[0], err, ""
}

// GenParams draws a value of op's XParams type within the domain restrictions of
// DESIGN.md §11 (C09). bodyBytes receives the content of a raw body reader.
func GenParams(t *rapid.T, p *Pkg, op *Op, decls []ParamDecl) (reflect.Value, []byte, *ValGen) {
	v := reflect.New(op.ParamsType).Elem()
	g := &ValGen{T: t, Doc: p.Doc, PathWords: pathWords(p)}
	var raw []byte
	if decls == nil {
		decls, _ = OpParams(op)
	}
	for i := 0; i < op.ParamsType.NumField(); i++ {
		sf := op.ParamsType.Field(i)
		f := v.Field(i)
		switch sf.Name {
		case "Query", "Path", "Headers":
			g.Ctx = map[string]string{"Query": "query", "Path": "path", "Headers": "header"}[sf.Name]
			for j := 0; j < sf.Type.NumField(); j++ {
				ff := f.Field(j)
				ff.Set(g.Gen(sf.Type.Field(j).Type, nil, 2))
				// required arrays are non-empty (form style cannot express an empty one)
				if ff.Kind() == reflect.Slice && ff.Len() == 0 {
					ff.Set(reflect.Append(reflect.MakeSlice(ff.Type(), 0, 1), g.Gen(ff.Type().Elem(), nil, 1)))
				}
				// a set-but-empty optional array is equivalent to unset: generate it unset
				if isOptionStruct(ff.Type()) && ff.Field(0).Bool() && ff.Field(1).Kind() == reflect.Slice && ff.Field(1).Len() == 0 {
					ff.Set(reflect.Zero(ff.Type()))
				}
			}
			// a parameter with a Go time layout can only carry what the layout can express
			for _, d := range decls {
				if d.OK && d.Group == sf.Name && d.Prim.Layout() != "" && d.Field < f.NumField() {
					FitTimesToLayout(f.Field(d.Field), d.Prim.Layout())
				}
			}
		case "Body":
			g.Ctx = "json"
			if sf.Type == readerType || sf.Type == rcType {
				raw = []byte(rapid.StringN(0, 60, 240).Draw(t, "rawbody"))
				f.Set(reflect.ValueOf(RawBodyReader(raw, rapid.IntRange(0, 2).Draw(t, "raw_reader_shape"))))
				continue
			}
			var schema *specgen.Schema
			if rb := p.Doc.ResolveRequestBody(op.Spec.RequestBody); rb != nil {
				if mt := rb.Content["application/json"]; mt != nil {
					schema = mt.Schema
				}
			}
			f.Set(g.Gen(sf.Type, schema, 3))
		}
	}
	return v, raw, g
}

// captureClientBody sends a request through the generated client and returns the
// body it put on the wire.
func captureClientBody(p *Pkg, op *Op, body reflect.Value, t *rapid.T) ([]byte, string) {
	var got []byte
	client, err := NewClient(p, "http://h.example"+escapedBase(p.BasePath), func(r *http.Request) (*http.Response, error) {
		if r.Body != nil {
			got, _ = io.ReadAll(r.Body)
		}
		rec := httptest.NewRecorder()
		rec.WriteHeader(599)
		return rec.Result(), nil
	})
	if err != nil {
		return nil, err.Error()
	}
	params, _, _ := GenParams(t, p, op, nil)
	params.FieldByName("Body").Set(body)
	_, _, pan := CallClient(client, op, params)
	if pan != "" {
		return nil, "panic: " + pan
	}
	if got == nil {
		return nil, "no request was sent"
	}
	return got, ""
}

// paramsEqual compares what the client was given with what the server parsed.
func paramsEqual(sent, got reflect.Value, sentRaw []byte, gotRaw ...[]byte) (bool, string) {
	typ := sent.Type()
	for i := 0; i < typ.NumField(); i++ {
		sf := typ.Field(i)
		a, b := sent.Field(i), got.Field(i)
		if sf.Name == "Body" && (sf.Type == readerType || sf.Type == rcType) {
			var bs []byte
			if len(gotRaw) > 0 {
				bs = gotRaw[0]
			} else if !b.IsNil() {
				bs, _ = io.ReadAll(b.Interface().(io.Reader))
			}
			if !bytes.Equal(bs, sentRaw) {
				return false, fmt.Sprintf("raw body: sent %d bytes, handler read %d bytes", len(sentRaw), len(bs))
			}
			continue
		}
		if ok, why := EqNorm(a, b); !ok {
			return false, sf.Name + why
		}
	}
	return true, ""
}

// CheckC09: generated client and server agree on every request they can express.
func CheckC09(p *Pkg, e *Env, r *res.Result) {
	if _, ok := p.Types["Client"]; !ok {
		r.Label("packages-without-client")
		return
	}
	in := NewInst(p)
	// secured operations are reached too: every authenticator admits (admission is C11's
	// question); the credential fields of the parameter value travel like any other
	if p.Doc.Components != nil && len(p.Doc.Components.SecuritySchemes) > 0 {
		var authEvents []string
		NewSecHarness(in, &authEvents).InstallAcceptAll()
	}
	var ops []*Op
	for _, op := range p.Ops {
		if op.ClientMethod == "" {
			r.Label("unmappable-client-method")
			continue
		}
		// security injects header fields the caller cannot leave out: C09's family has none
		ops = append(ops, op)
	}
	if len(ops) == 0 {
		return
	}
	var captured *http.Request
	var capturedBody []byte
	client, err := NewClient(p, "http://h.example"+escapedBase(p.BasePath), func(req *http.Request) (*http.Response, error) {
		captured = req
		if req.Body != nil {
			capturedBody, _ = io.ReadAll(req.Body)
			req.Body = io.NopCloser(bytes.NewReader(capturedBody))
		}
		rec := httptest.NewRecorder()
		in.H.ServeHTTP(rec, req)
		return rec.Result(), nil
	})
	if err != nil {
		r.Inconclusive = append(r.Inconclusive, p.Name+": "+err.Error())
		return
	}
	// thorough: the same through a real loopback server
	var realClient reflect.Value
	var srv *httptest.Server
	if !e.Quick() && p.Index%4 == 0 {
		srv = httptest.NewServer(in.H)
		defer srv.Close()
		hc := srv.Client()
		realClient, _ = NewClient(p, srv.URL+escapedBase(p.BasePath), func(req *http.Request) (*http.Response, error) { return hc.Do(req) })
	}
	n := 400 * len(ops)
	if !e.Quick() {
		n = 1500 * len(ops)
	}
	va := refmodel.Validator{Doc: p.Doc, Mode: refmodel.Output}
	var lastFail *res.Failure
	prop := func(t *rapid.T) {
		op := ops[rapid.IntRange(0, len(ops)-1).Draw(t, "op")]
		params, raw, g := GenParams(t, p, op, nil)
		// a secured operation is called with its credentials: every credential field of the
		// request type (Authorization, the api-key headers) is set
		if hf := params.FieldByName("Headers"); hf.IsValid() && len(p.Doc.EffectiveSecurity(op.Spec)) > 0 {
			for name, sch := range p.Doc.Components.SecuritySchemes {
				want := ""
				switch refmodel.SchemeKind(sch) {
				case "bearer":
					want = "authorization"
				case "apikey-header":
					want = Norm(sch.Name)
				}
				for i := 0; want != "" && i < hf.NumField(); i++ {
					if f := hf.Field(i); Norm(hf.Type().Field(i).Name) == want && isOptionStruct(f.Type()) && !f.Field(0).Bool() && f.Field(1).Kind() == reflect.String {
						f.Field(0).SetBool(true)
						f.Field(1).SetString("credential-of-" + name)
					}
				}
			}
		}
		useReal := realClient.IsValid() && rapid.IntRange(0, 9).Draw(t, "real") == 0
		fail := func(clause, msg string) {
			target := ""
			if captured != nil {
				target = captured.Method + " " + captured.URL.String()
			}
			clause += bodyClassSuffix(p, op)
			f := res.Failure{Property: "C09", Kind: clause, Clause: clause,
				Detail: fmt.Sprintf("%s params %s (wire: %s): %s", op, clip(fmt.Sprintf("%+v", params.Interface()), 400), target, msg),
				Replay: p.SpecReplay(map[string]any{"params.txt": fmt.Sprintf("%#v", params.Interface())})}
			if IsKnown(p, e, r, &f) {
				return
			}
			lastFail = &f
			t.Fatalf("%s", f.Detail)
		}
		in.Reset()
		captured, capturedBody = nil, nil
		c := client
		if useReal {
			c = realClient
			r.Label("transport:loopback")
		}
		_, cerr, pan := CallClient(c, op, params)
		r.Evaluations++
		if pan != "" {
			fail("client-panic", pan)
			return
		}
		if len(in.Calls) != 1 {
			cls := notDispatchedClass(params)
			if cerr != nil && strings.Contains(cerr.Error(), "marshal request body") {
				cls = "client-cannot-encode-body"
			}
			fail("not-dispatched:"+cls, fmt.Sprintf("the request reached %d handlers (client error: %v)", len(in.Calls), cerr))
			return
		}
		call := in.Calls[0]
		if call.Op != op {
			fail("wrong-operation", fmt.Sprintf("dispatched to %s", call.Op))
			return
		}
		if call.Panic != "" {
			fail("parse-panic", firstLine(call.Panic))
			return
		}
		if call.ParseErr != nil {
			fail("server-rejected:"+parseErrClass(call.ParseErr), fmt.Sprintf("Parse() failed: %v", call.ParseErr))
			return
		}
		if ok, why := paramsEqual(params, call.Params, raw, call.RawBody); !ok {
			fail("params-differ:"+diffClass(why), "handler saw different parameters: "+why)
			return
		}
		// oracle B: wire validity under the reference request validator
		if !useReal && captured != nil {
			if msg := validateWire(p, op, captured, capturedBody, va); msg != "" {
				kind := "invalid-wire:" + firstWordsN(msg, 3)
				if b := params.FieldByName("Body"); b.IsValid() && strings.TrimSpace(string(capturedBody)) == "null" && (b.Kind() == reflect.Slice || b.Kind() == reflect.Map) && b.IsNil() {
					kind = "invalid-wire:nil-body-encoded-as-null"
				} else if b.IsValid() && strings.Contains(msg, "body does not validate") {
					// does the body validate once nil slices / maps inside it are replaced by empty
					// ones? then the only cause is a nil collection written as null (C07-F4)
					if rb := p.Doc.ResolveRequestBody(op.Spec.RequestBody); rb != nil && rb.Content["application/json"] != nil {
						if k := NilCollectionKind(b, func(nv reflect.Value) bool {
							nb, nerr := safeMarshal(nv.Interface())
							if nerr != nil {
								return false
							}
							nt, derr := refmodel.DecodeJSON(nb)
							return derr == nil && len(va.Validate(rb.Content["application/json"].Schema, nt)) == 0
						}); k != "" {
							kind = "invalid-wire:" + k
						}
					}
				}
				fail(kind, msg)
				return
			}
		}
		if g.UnsetOptionals+g.EscapeStrings+g.NonEmptyCollections > 0 {
			r.NonTrivial("C09", p.Index, op.String(), shapeOfParams(params))
		}
		r.Label("roundtrip:equal")
		r.Sample(map[string]any{"op": op.String(), "wire": wireBrief(captured), "verdict": "handler parameters equal what was sent; wire request valid"}, 4)
	}
	ok, _ := rt.Check("C09-"+p.Name, rt.Seed(e.Seed, rt.SeedStr("C09"), uint64(p.Index)), n, 10*time.Second, prop)
	if !ok && lastFail != nil {
		r.Fail(*lastFail)
	}
}

func wireBrief(req *http.Request) string {
	if req == nil {
		return ""
	}
	return clip(req.Method+" "+req.URL.String(), 200)
}

func firstWordsN(s string, n int) string {
	f := strings.Fields(s)
	if len(f) > n {
		f = f[:n]
	}
	return strings.Join(f, " ")
}

func parseErrClass(err error) string {
	s := err.Error()
	for _, k := range []string{"path", "query", "header", "body"} {
		if strings.Contains(s, k) {
			return k
		}
	}
	return "other"
}

func diffClass(why string) string {
	for _, k := range []string{"Path", "Query", "Headers", "Body"} {
		if strings.HasPrefix(why, k) {
			return k
		}
	}
	return "other"
}

func notDispatchedClass(params reflect.Value) string {
	if f := params.FieldByName("Path"); f.IsValid() {
		return "with-path-params"
	}
	return "no-path-params"
}

func shapeOfParams(v reflect.Value) string {
	var sb strings.Builder
	var rec func(v reflect.Value, d int)
	rec = func(v reflect.Value, d int) {
		if d > 3 {
			return
		}
		switch v.Kind() {
		case reflect.Struct:
			if isOptionStruct(v.Type()) {
				if v.Field(0).Bool() {
					sb.WriteString("S")
					rec(v.Field(1), d+1)
				} else {
					sb.WriteString("U")
				}
				return
			}
			sb.WriteString("{")
			for i := 0; i < v.NumField(); i++ {
				if v.Type().Field(i).IsExported() {
					rec(v.Field(i), d+1)
				}
			}
			sb.WriteString("}")
		case reflect.Slice:
			sb.WriteString(fmt.Sprintf("[%d]", v.Len()))
		case reflect.String:
			switch {
			case v.Len() == 0:
				sb.WriteString("e")
			case strings.ContainsAny(v.String(), "?#%&+=; /"):
				sb.WriteString("r")
			default:
				sb.WriteString("s")
			}
		default:
			sb.WriteString("v")
		}
	}
	rec(v, 0)
	return sb.String()
}

// validateWire is the reference request validator (DESIGN.md §4 C09 oracle B).
func validateWire(p *Pkg, op *Op, req *http.Request, body []byte, va refmodel.Validator) string {
	if req.Method != op.Method {
		return fmt.Sprintf("method %s, want %s", req.Method, op.Method)
	}
	path := req.URL.Path
	v := refmodel.Route(p.Doc, p.BasePath, op.Method, path)
	if v.Dispatch == nil || v.Dispatch.Template != op.Template {
		return fmt.Sprintf("path %q does not match template %q under base path %q (%s)", path, op.Template, p.BasePath, v.Why)
	}
	if req.URL.RawPath != "" {
		if dec, err := url.PathUnescape(req.URL.RawPath); err != nil || dec != path {
			return fmt.Sprintf("raw path %q does not decode to %q", req.URL.RawPath, path)
		}
	}
	q := req.URL.Query()
	decls, _ := OpParams(op)
	rest := strings.Split(strings.TrimPrefix(strings.TrimPrefix(path, p.BasePath), "/"), "/")
	tsegs := strings.Split(strings.TrimPrefix(op.Template, "/"), "/")
	for _, d := range decls {
		var values []string
		switch d.In {
		case "query":
			values = q[d.Name]
		case "header":
			values = req.Header.Values(d.Name)
		case "path":
			for i, s := range tsegs {
				if s == "{"+d.Name+"}" && i < len(rest) {
					values = []string{rest[i]}
				}
			}
		}
		if len(values) == 0 {
			if d.Required {
				return fmt.Sprintf("required %s parameter %q is missing on the wire", d.In, d.Name)
			}
			continue
		}
		if len(values) > 1 && !d.IsArray {
			return fmt.Sprintf("%s parameter %q sent %d times", d.In, d.Name, len(values))
		}
		for _, lex := range values {
			if d.In == "path" && lex == "" {
				return fmt.Sprintf("path parameter %q is empty on the wire", d.Name)
			}
			if verdict, _ := refmodel.Judge(d.Prim, lex); verdict == refmodel.MustReject {
				return fmt.Sprintf("%s parameter %q value %q is outside the lexical space of %s", d.In, d.Name, lex, d.Prim.Name)
			}
		}
	}
	if rb := p.Doc.ResolveRequestBody(op.Spec.RequestBody); rb != nil {
		if mt := rb.Content["application/json"]; mt != nil && mt.Schema != nil {
			tree, err := refmodel.DecodeJSON(body)
			if err != nil {
				return "body is not valid JSON: " + err.Error()
			}
			if errs := va.Validate(mt.Schema, tree); len(errs) > 0 {
				return "body does not validate: " + strings.Join(errs, "; ")
			}
		}
	}
	return ""
}

var _ = time.Now

// bodyClassSuffix marks operations whose JSON body type is a named type known to
// lose its JSON methods (components/requestBodies types, aliases of schema components).
func bodyClassSuffix(p *Pkg, op *Op) string {
	for _, tg := range JSONTargets(p) {
		if tg.Op == op {
			switch tg.Class {
			case "requestbody-component", "body-ref-alias-component":
				return "@" + tg.Class
			}
		}
	}
	return ""
}

// pathWords lists the constant segments of all templates of the package's spec.
func pathWords(p *Pkg) []string {
	seen := map[string]bool{}
	var out []string
	for _, tpl := range specgen.SortedKeys(p.Doc.Paths) {
		for _, seg := range strings.Split(tpl, "/") {
			if seg != "" && !strings.HasPrefix(seg, "{") && !seen[seg] {
				seen[seg] = true
				out = append(out, seg)
			}
		}
	}
	return out
}

package drv

import (
	"fmt"
	"math"
	"net/http"
	"net/http/httptest"
	"net/url"
	"reflect"
	"strings"
	"time"
	"unicode"

	"pgregory.net/rapid"

	"verif/refmodel"
	"verif/res"
	"verif/rt"
	"verif/specgen"
)

func init() {
	RegisterCheck("C04", CheckC04)
	RegisterCheck("C05", CheckC05)
}

// Norm is the name normalisation of DESIGN.md §2.2.
func Norm(s string) string {
	var b strings.Builder
	for _, r := range s {
		if unicode.IsLetter(r) || unicode.IsDigit(r) {
			b.WriteRune(unicode.ToLower(r))
		}
	}
	return b.String()
}

// ParamDecl is a resolved parameter declaration linked to its Go field.
type ParamDecl struct {
	Name     string
	In       string
	Required bool
	IsArray  bool
	Prim     specgen.Prim
	Form     string // inline | schema-ref | component
	Level    string // operation | path-item | overridden
	Group    string // Query | Path | Headers
	Field    int    // index in the group struct
	OK       bool   // mapped to a Go field
}

// OpParams resolves the effective parameters of op and maps them onto the fields of
// the generated XParams type.
func OpParams(op *Op) ([]ParamDecl, []string) {
	d := op.Pkg.Doc
	var out []ParamDecl
	var unmapped []string
	pathLevel := map[string]bool{}
	for _, p := range op.PathItem.Parameters {
		if r := d.ResolveParameter(p); r != nil {
			pathLevel[r.In+"\x00"+r.Name] = true
		}
	}
	opLevel := map[string]bool{}
	rawByKey := map[string]*specgen.Parameter{}
	for _, lst := range [][]*specgen.Parameter{op.PathItem.Parameters, op.Spec.Parameters} {
		for _, p := range lst {
			if r := d.ResolveParameter(p); r != nil {
				rawByKey[r.In+"\x00"+r.Name] = p
			}
		}
	}
	for _, p := range op.Spec.Parameters {
		if r := d.ResolveParameter(p); r != nil {
			opLevel[r.In+"\x00"+r.Name] = true
		}
	}
	for _, r := range d.EffectiveParameters(op.PathItem, op.Spec) {
		key := r.In + "\x00" + r.Name
		pd := ParamDecl{Name: r.Name, In: r.In, Required: r.Required || r.In == "path"}
		switch {
		case pathLevel[key] && opLevel[key]:
			pd.Level = "overridden"
		case pathLevel[key]:
			pd.Level = "path-item"
		default:
			pd.Level = "operation"
		}
		pd.Form = "inline"
		if raw := rawByKey[key]; raw != nil && raw.Ref != "" {
			pd.Form = "component"
		}
		s := r.Schema
		if s == nil {
			unmapped = append(unmapped, "parameter "+r.Name+" has no schema")
			continue
		}
		if s.Ref != "" && pd.Form == "inline" {
			pd.Form = "schema-ref"
		}
		rs := d.ResolveSchema(s)
		if rs != nil && rs.Type == "array" {
			pd.IsArray = true
			if rs.Items != nil && rs.Items.Ref != "" && pd.Form == "inline" {
				pd.Form = "schema-ref"
			}
			rs = d.ResolveSchema(rs.Items)
			// (arrays of arrays: only the kitchen sink has them; the lexemes are those of the innermost items)
			for rs != nil && rs.Type == "array" {
				rs = d.ResolveSchema(rs.Items)
			}
		}
		if rs == nil {
			unmapped = append(unmapped, "parameter "+r.Name+": unresolved schema")
			continue
		}
		prim, ok := specgen.PrimOf(&specgen.Schema{Type: rs.Type, Format: rs.Format, TimeFormat: rs.TimeFormat})
		if !ok {
			unmapped = append(unmapped, "parameter "+r.Name+": not a primitive")
			continue
		}
		pd.Prim = prim
		switch r.In {
		case "query":
			pd.Group = "Query"
		case "path":
			pd.Group = "Path"
		case "header":
			pd.Group = "Headers"
		default:
			continue
		}
		if g, ok := op.ParamsType.FieldByName(pd.Group); ok && g.Type.Kind() == reflect.Struct {
			want := Norm(r.Name)
			n := 0
			for i := 0; i < g.Type.NumField(); i++ {
				if Norm(g.Type.Field(i).Name) == want {
					pd.Field, pd.OK = i, true
					n++
				}
			}
			if n != 1 {
				pd.OK = false
			}
		}
		if !pd.OK {
			unmapped = append(unmapped, fmt.Sprintf("parameter %s (%s) has no unique field in %s.%s", r.Name, r.In, op.ParamsType.Name(), pd.Group))
		}
		out = append(out, pd)
	}
	return out, unmapped
}

// Unwrap follows Maybe[T]/Nullable[T] (structurally: struct {IsSet bool; Value T}).
func isOptionStruct(t reflect.Type) bool {
	if t.Kind() != reflect.Struct || t.NumField() != 2 {
		return false
	}
	return t.Field(0).Name == "IsSet" && t.Field(0).Type.Kind() == reflect.Bool && t.Field(1).Name == "Value"
}

// FieldValues extracts (set, values) from a parameter field: optional wrappers are
// unwrapped, slices flattened, named primitives reduced to their kind.
func FieldValues(v reflect.Value) (set bool, vals []reflect.Value) {
	set = true
	for isOptionStruct(v.Type()) {
		if !v.Field(0).Bool() {
			return false, []reflect.Value{v.Field(1)}
		}
		v = v.Field(1)
	}
	if v.Kind() == reflect.Slice && v.Type().Elem().Kind() != reflect.Uint8 {
		for i := 0; i < v.Len(); i++ {
			vals = append(vals, v.Index(i))
		}
		return true, vals
	}
	return true, []reflect.Value{v}
}

var timeType = reflect.TypeOf(time.Time{})

// EqualTyped compares a Go value with a reference typed value.
func EqualTyped(v reflect.Value, want refmodel.TypedValue) (bool, string) {
	for isOptionStruct(v.Type()) {
		if !v.Field(0).Bool() {
			return false, "unset"
		}
		v = v.Field(1)
	}
	if v.Type().ConvertibleTo(timeType) && v.Kind() == reflect.Struct {
		t := v.Convert(timeType).Interface().(time.Time)
		if want.Kind != "time" {
			return false, "is a time"
		}
		return t.Equal(want.T), t.Format(time.RFC3339Nano)
	}
	switch v.Kind() {
	case reflect.String:
		return want.Kind == "string" && v.String() == want.S, fmt.Sprintf("%q", v.String())
	case reflect.Int, reflect.Int8, reflect.Int16, reflect.Int32, reflect.Int64:
		return want.Kind == "int" && v.Int() == want.I, fmt.Sprint(v.Int())
	case reflect.Float32, reflect.Float64:
		f := v.Float()
		return want.Kind == "float" && (f == want.F || math.Abs(f-want.F) == 0), fmt.Sprint(f)
	case reflect.Bool:
		return want.Kind == "bool" && v.Bool() == want.B, fmt.Sprint(v.Bool())
	}
	return false, "unsupported kind " + v.Kind().String()
}

// namesParam reports whether an error text names the parameter as a quoted or
// delimited token.
func namesParam(errText, name string) bool {
	for _, q := range []string{"'" + name + "'", `"` + name + `"`, "`" + name + "`", " " + name + ":", " " + name + " ", "(" + name + ")"} {
		if strings.Contains(errText, q) {
			return true
		}
	}
	return false
}

func headerSafe(s string) bool {
	if s != strings.TrimSpace(s) {
		return false
	}
	for _, r := range s {
		if r < 0x20 || r == 0x7f || r > 0x7e {
			return false
		}
	}
	return true
}

type suppliedParam struct {
	Decl    ParamDecl
	Values  []string
	Classes []string
}

// drawLexeme draws a lexeme for prim: a member of a fixed class or a random one.
func drawLexeme(t *rapid.T, p specgen.Prim, label string) (string, string) {
	classes := refmodel.LexClasses(p)
	// canonical twice as likely
	idx := rapid.IntRange(-2, len(classes)-1).Draw(t, label+"_class")
	if idx < 0 {
		idx = 0
	}
	cl := classes[idx]
	if cl.Name == "canonical" && rapid.IntRange(0, 2).Draw(t, label+"_rand") == 0 {
		switch p.Type {
		case "integer":
			min, max := int64(math.MinInt64), int64(math.MaxInt64)
			if p.Format == "int32" {
				min, max = math.MinInt32, math.MaxInt32
			}
			return fmt.Sprint(rapid.Int64Range(min, max).Draw(t, label+"_int")), "canonical-random"
		case "number":
			f := rapid.Float64Range(-1e30, 1e30).Draw(t, label+"_float")
			return fmt.Sprint(f), "canonical-random"
		case "string":
			if p.Format != "date-time" {
				return rapid.StringN(0, 12, 40).Draw(t, label+"_str"), "canonical-random"
			}
			sec := rapid.Int64Range(-62135596800+86400, 253402300799-86400).Draw(t, label+"_sec")
			ns := rapid.SampledFrom([]int64{0, 0, 500000000, 123456789, 1}).Draw(t, label+"_ns")
			off := rapid.SampledFrom([]int{0, 0, 3600, -7 * 3600, 5*3600 + 1800, -12 * 3600, 14 * 3600}).Draw(t, label+"_off")
			if gl := specgen.GoLayout(p.Layout()); gl != "" && p.Layout() != "time.RFC3339" {
				tm := time.Unix(sec, 0).In(time.FixedZone("", off))
				if p.Layout() != "time.RFC1123Z" {
					tm = tm.UTC()
				}
				return tm.Format(gl), "canonical-random"
			}
			return time.Unix(sec, ns).In(time.FixedZone("", off)).Format(time.RFC3339Nano), "canonical-random"
		}
	}
	return rapid.SampledFrom(cl.Lexemes).Draw(t, label+"_lex"), cl.Name
}

// CheckC04: query/header parsing rejects exactly the malformed requests.
func CheckC04(p *Pkg, e *Env, r *res.Result) {
	in := NewInst(p)
	// an api key in the query may share its name with a declared query parameter: the
	// authenticators admit everything here, the parameter is parsed as always
	if p.Doc.Components != nil && len(p.Doc.Components.SecuritySchemes) > 0 {
		var authEvents []string
		NewSecHarness(in, &authEvents).InstallAcceptAll()
	}
	type opInfo struct {
		op    *Op
		decls []ParamDecl
	}
	var ops []opInfo
	for _, op := range p.Ops {
		decls, unmapped := OpParams(op)
		if len(unmapped) > 0 {
			r.LabelN("unmappable", int64(len(unmapped)))
			r.Sample(map[string]any{"package": p.Name, "unmappable": unmapped}, 3)
			reportUnlinkedParams(p, e, r, op, unmapped)
			continue
		}
		var qh []ParamDecl
		hasPath := false
		for _, d := range decls {
			if d.In == "query" || d.In == "header" {
				qh = append(qh, d)
			}
			if d.In == "path" {
				hasPath = true
			}
		}
		if len(qh) == 0 || hasPath {
			continue
		}
		for _, d := range qh {
			arr := "scalar"
			if d.IsArray {
				arr = "array"
			}
			req := "optional"
			if d.Required {
				req = "required"
			}
			r.Label(fmt.Sprintf("cell:%s/%s/%s/%s/%s/%s", d.Prim.Name, d.In, arr, req, d.Form, d.Level))
		}
		ops = append(ops, opInfo{op, qh})
	}
	if len(ops) == 0 {
		r.Label("packages-without-params")
		return
	}
	n := 1500
	if !e.Quick() {
		n = 12000
	}
	var lastFail *res.Failure
	prop := func(t *rapid.T) {
		oi := ops[rapid.IntRange(0, len(ops)-1).Draw(t, "op")]
		q := url.Values{}
		h := http.Header{}
		var supplied []suppliedParam
		dontCare := false
		nonCanonical := false
		var sig []string
		for i, d := range oi.decls {
			lbl := fmt.Sprintf("p%d", i)
			card := rapid.SampledFrom([]string{"one", "one", "one", "absent", "many"}).Draw(t, lbl+"_card")
			k := 0
			switch card {
			case "one":
				k = 1
			case "many":
				k = rapid.IntRange(2, 3).Draw(t, lbl+"_n")
			}
			sp := suppliedParam{Decl: d}
			for j := 0; j < k; j++ {
				lex, cl := drawLexeme(t, d.Prim, fmt.Sprintf("%s_%d", lbl, j))
				if d.In == "header" && !headerSafe(lex) {
					lex, cl = "7", "canonical-replaced"
					if v, _ := refmodel.Judge(d.Prim, lex); v != refmodel.MustAccept {
						lex = "true"
						if v, _ := refmodel.Judge(d.Prim, lex); v != refmodel.MustAccept {
							lex = "2021-03-04T05:06:07Z"
						}
					}
				}
				sp.Values = append(sp.Values, lex)
				sp.Classes = append(sp.Classes, cl)
				if cl != "canonical" && cl != "canonical-random" {
					nonCanonical = true
				}
				if d.In == "query" {
					q.Add(d.Name, lex)
				} else {
					h.Add(d.Name, lex)
				}
			}
			if k != 1 {
				nonCanonical = true
			}
			sig = append(sig, fmt.Sprintf("%s/%s/%v/%v:%s:%v", d.Prim.Name, d.In, d.IsArray, d.Required, card, sp.Classes))
			supplied = append(supplied, sp)
		}
		// reference verdict
		offending := map[string]bool{}
		type expect struct {
			set  bool
			vals []refmodel.TypedValue
		}
		expects := make([]expect, len(supplied))
		for i, sp := range supplied {
			d := sp.Decl
			switch {
			case len(sp.Values) == 0:
				if d.Required {
					offending[d.Name] = true
				}
			case len(sp.Values) > 1 && !d.IsArray:
				offending[d.Name] = true
				for _, lex := range sp.Values {
					if v, _ := refmodel.Judge(d.Prim, lex); v == refmodel.DontCare {
						// cardinality alone already decides: still a must-reject
						_ = v
					}
				}
			default:
				expects[i].set = true
				for _, lex := range sp.Values {
					v, tv := refmodel.Judge(d.Prim, lex)
					switch v {
					case refmodel.MustReject:
						offending[d.Name] = true
					case refmodel.DontCare:
						dontCare = true
					}
					expects[i].vals = append(expects[i].vals, tv)
				}
			}
		}
		target := "http://h.example" + escapeForURL(p.BasePath+oi.op.Template)
		if enc := q.Encode(); enc != "" {
			target += "?" + enc
		}
		req := httptest.NewRequest(oi.op.Method, target, nil)
		// a body-carrying request may also bring a form-encoded body whose fields are named
		// like the query parameters: query parameters come from the query string only
		if m := oi.op.Method; (m == "POST" || m == "PUT" || m == "PATCH") && rapid.IntRange(0, 2).Draw(t, "decoy_form_body") == 0 {
			form := url.Values{}
			for i, d := range oi.decls {
				if d.In == "query" {
					form.Add(d.Name, rapid.SampledFrom([]string{"1", "true", "x", "", "2021-03-04T05:06:07Z", "not-a-value"}).Draw(t, fmt.Sprintf("decoy%d", i)))
				}
			}
			if len(form) > 0 {
				req = httptest.NewRequest(oi.op.Method, target, strings.NewReader(form.Encode()))
				req.Header.Set("Content-Type", "application/x-www-form-urlencoded")
				r.Label("request:decoy-form-body")
			}
		}
		for k, vs := range h {
			for _, v := range vs {
				req.Header.Add(k, v)
			}
		}
		in.Reset()
		_, pan := in.Serve(req)
		r.Evaluations++
		fail := func(clause, msg string) {
			kind := clause
			f := res.Failure{Property: "C04", Kind: kind, Clause: clause,
				Detail: fmt.Sprintf("%s with %v: %s", oi.op, describeSupplied(supplied), msg),
				Replay: p.SpecReplay(map[string]any{"request.txt": oi.op.Method + " " + target + "\n" + fmt.Sprint(h)})}
			if IsKnown(p, e, r, &f) {
				return
			}
			lastFail = &f
			t.Fatalf("%s", f.Detail)
		}
		if pan != "" {
			fail("panic", firstLine(pan))
			return
		}
		if len(in.Calls) == 0 && len(p.Doc.EffectiveSecurity(oi.op.Spec)) > 0 {
			// a secured operation whose credential (an api key in the query, named like one
			// of the declared parameters) was not supplied: refused before the handler
			r.Label("secured:credential-not-supplied")
			return
		}
		if len(in.Calls) != 1 {
			fail("dispatch", fmt.Sprintf("%d handler calls for a declared operation", len(in.Calls)))
			return
		}
		c := in.Calls[0]
		if c.Panic != "" {
			fail("panic", "Parse panicked: "+firstLine(c.Panic))
			return
		}
		if dontCare {
			r.Label("verdict:dont-care")
			return
		}
		if nonCanonical {
			r.NonTrivial("C04", p.Index, oi.op.String(), strings.Join(sig, "|"))
		}
		if len(offending) > 0 {
			r.Label("verdict:must-reject")
			if c.ParseErr == nil {
				fail("accepted-malformed", fmt.Sprintf("Parse() succeeded although %v must be rejected; parsed %+v", keys(offending), c.Params.Interface()))
				return
			}
			named := false
			for name := range offending {
				if namesParam(c.ParseErr.Error(), name) {
					named = true
				}
			}
			if !named {
				fail("error-does-not-name-parameter", fmt.Sprintf("error %q names none of the offending parameters %v", c.ParseErr.Error(), keys(offending)))
			}
			return
		}
		r.Label("verdict:must-accept")
		if c.ParseErr != nil {
			fail("rejected-wellformed", fmt.Sprintf("Parse() failed with %q although every parameter is well-formed", c.ParseErr.Error()))
			return
		}
		for i, sp := range supplied {
			d := sp.Decl
			fv := c.Params.FieldByName(d.Group).Field(d.Field)
			set, vals := FieldValues(fv)
			if !expects[i].set {
				// absent optional: unset and zero
				if isOptionStruct(fv.Type()) {
					if set {
						fail("invented-value", fmt.Sprintf("absent optional %s is set: %+v", d.Name, fv.Interface()))
						return
					}
					if !vals[0].IsZero() {
						fail("invented-value", fmt.Sprintf("absent optional %s has non-zero Value %+v", d.Name, vals[0].Interface()))
						return
					}
				} else if d.IsArray && fv.Kind() == reflect.Slice && fv.Len() != 0 {
					fail("invented-value", fmt.Sprintf("absent array %s has %d elements", d.Name, fv.Len()))
					return
				}
				continue
			}
			if !set {
				fail("lost-value", fmt.Sprintf("supplied %s=%q but the field is unset", d.Name, sp.Values))
				return
			}
			if len(vals) != len(expects[i].vals) {
				fail("wrong-value", fmt.Sprintf("%s: supplied %d values %q, field holds %d", d.Name, len(sp.Values), sp.Values, len(vals)))
				return
			}
			for j := range vals {
				if ok, got := EqualTyped(vals[j], expects[i].vals[j]); !ok {
					fail("wrong-value", fmt.Sprintf("%s: lexeme %q parsed as %s, reference value %+v", d.Name, sp.Values[j], got, expects[i].vals[j]))
					return
				}
			}
		}
		r.Sample(map[string]any{"op": oi.op.String(), "supplied": describeSupplied(supplied), "verdict": "must-accept, values equal"}, 4)
	}
	ok, _ := rt.Check("C04-"+p.Name, rt.Seed(e.Seed, rt.SeedStr("C04"), uint64(p.Index)), n, 10*time.Second, prop)
	if !ok && lastFail != nil {
		r.Fail(*lastFail)
	}
}

func describeSupplied(sp []suppliedParam) string {
	var parts []string
	for _, s := range sp {
		arr := ""
		if s.Decl.IsArray {
			arr = "[]"
		}
		req := "?"
		if s.Decl.Required {
			req = "!"
		}
		parts = append(parts, fmt.Sprintf("%s %s%s%s(%s)=%q", s.Decl.In, s.Decl.Name, req, arr, s.Decl.Prim.Name, s.Values))
	}
	return strings.Join(parts, "; ")
}

func keys(m map[string]bool) []string {
	var out []string
	for k := range m {
		out = append(out, k)
	}
	return out
}

// ---------------------------------------------------------------------------
// C05: path parameters are the matched segments

func CheckC05(p *Pkg, e *Env, r *res.Result) {
	in := NewInst(p)
	base := p.BasePath
	type varPos struct {
		pos  int
		decl ParamDecl
	}
	type tplInfo struct {
		op   *Op
		segs []string
		vars []varPos
	}
	var tpls []tplInfo
	for _, op := range p.Ops {
		decls, unmapped := OpParams(op)
		if len(unmapped) > 0 {
			r.LabelN("unmappable", int64(len(unmapped)))
			r.Sample(map[string]any{"package": p.Name, "unmappable": unmapped}, 3)
			reportUnlinkedParams(p, e, r, op, unmapped)
			continue
		}
		ti := tplInfo{op: op, segs: strings.Split(strings.TrimPrefix(op.Template, "/"), "/")}
		okAll := true
		for i, s := range ti.segs {
			if strings.HasPrefix(s, "{") {
				name := s[1 : len(s)-1]
				found := false
				for _, d := range decls {
					if d.In == "path" && d.Name == name {
						ti.vars = append(ti.vars, varPos{i, d})
						found = true
					}
				}
				if !found {
					okAll = false
				}
			}
		}
		if okAll && len(ti.vars) > 0 {
			tpls = append(tpls, ti)
			for _, v := range ti.vars {
				r.Label("cell:path/" + v.decl.Prim.Name + "/" + v.decl.Form + "/" + v.decl.Level)
			}
		}
	}
	if len(tpls) == 0 {
		r.Label("packages-without-path-params")
		return
	}
	n := 1500
	if !e.Quick() {
		n = 12000
	}
	var lastFail *res.Failure
	prop := func(t *rapid.T) {
		ti := tpls[rapid.IntRange(0, len(tpls)-1).Draw(t, "template")]
		segs := append([]string{}, ti.segs...)
		lexs := map[int]string{}
		var classes []string
		for i, v := range ti.vars {
			var lex, cl string
			if rapid.IntRange(0, 9).Draw(t, fmt.Sprintf("v%d_empty", i)) == 0 {
				lex, cl = "", "empty"
			} else {
				lex, cl = drawLexeme(t, v.decl.Prim, fmt.Sprintf("v%d", i))
				if strings.Contains(lex, "/") {
					lex, cl = strings.ReplaceAll(lex, "/", "_"), cl+"-noslash"
				}
			}
			segs[v.pos] = lex
			lexs[v.pos] = lex
			classes = append(classes, v.decl.Prim.Name+":"+cl)
		}
		path := base + "/" + strings.Join(segs, "/")
		req := httptest.NewRequest(ti.op.Method, "http://h.example/", nil)
		req.URL.Path = path
		req.URL.RawPath = ""
		in.Reset()
		_, pan := in.Serve(req)
		r.Evaluations++
		fail := func(clause, msg string) {
			f := res.Failure{Property: "C05", Kind: clause, Clause: clause,
				Detail: fmt.Sprintf("%s, request path %q (base %q): %s", ti.op, path, base, msg),
				Replay: p.SpecReplay(map[string]any{"request.txt": ti.op.Method + " " + path})}
			if IsKnown(p, e, r, &f) {
				return
			}
			lastFail = &f
			t.Fatalf("%s", f.Detail)
		}
		if pan != "" {
			fail("panic", firstLine(pan))
			return
		}
		if len(in.Calls) == 0 {
			r.Label("not-dispatched") // C03's question; C05 is conditional on dispatch
			return
		}
		c := in.Calls[0]
		if c.Panic != "" {
			fail("panic", "Parse panicked: "+firstLine(c.Panic))
			return
		}
		if c.Op != ti.op {
			// dispatched to a more literal template: judge against that one instead is C03's
			// business; here only requests reaching the intended template are judged
			r.Label("dispatched-elsewhere")
			return
		}
		r.NonTrivial("C05", p.Index, ti.op.String(), strings.Join(classes, ","))
		// reference
		bad := map[string]bool{}
		dont := false
		want := map[int]refmodel.TypedValue{}
		for _, v := range ti.vars {
			lex := lexs[v.pos]
			if lex == "" {
				bad[v.decl.Name] = true
				continue
			}
			verdict, tv := refmodel.Judge(v.decl.Prim, lex)
			switch verdict {
			case refmodel.MustReject:
				bad[v.decl.Name] = true
			case refmodel.DontCare:
				dont = true
			}
			want[v.pos] = tv
		}
		if dont {
			r.Label("verdict:dont-care")
			return
		}
		if len(bad) > 0 {
			r.Label("verdict:must-reject")
			if c.ParseErr == nil {
				fail("accepted-malformed", fmt.Sprintf("Parse() succeeded although %v must be rejected; parsed %+v", keys(bad), c.Params.Interface()))
				return
			}
			named := false
			for name := range bad {
				if namesParam(c.ParseErr.Error(), name) {
					named = true
				}
			}
			if !named {
				fail("error-does-not-name-parameter", fmt.Sprintf("error %q names none of %v", c.ParseErr.Error(), keys(bad)))
			}
			return
		}
		r.Label("verdict:must-accept")
		if c.ParseErr != nil {
			fail("rejected-wellformed", fmt.Sprintf("Parse() failed with %q although every segment is in the lexical space of its type", c.ParseErr.Error()))
			return
		}
		for _, v := range ti.vars {
			fv := c.Params.FieldByName("Path").Field(v.decl.Field)
			if ok, got := EqualTyped(fv, want[v.pos]); !ok {
				fail("wrong-segment", fmt.Sprintf("path parameter %s (segment %d = %q) parsed as %s, reference value %+v", v.decl.Name, v.pos, lexs[v.pos], got, want[v.pos]))
				return
			}
		}
		r.Sample(map[string]any{"op": ti.op.String(), "path": path, "verdict": "values equal the segments"}, 4)
	}
	ok, _ := rt.Check("C05-"+p.Name, rt.Seed(e.Seed, rt.SeedStr("C05"), uint64(p.Index)), n, 10*time.Second, prop)
	if !ok && lastFail != nil {
		r.Fail(*lastFail)
	}
}

// reportUnlinkedParams: every declared parameter of an operation (its own and the path
// item's, the operation's declaration winning) has exactly one field in the generated
// params struct; a parameter without a field cannot be parsed into anything.
func reportUnlinkedParams(p *Pkg, e *Env, r *res.Result, op *Op, unmapped []string) {
	for _, u := range unmapped {
		if !strings.Contains(u, "has no unique field") {
			continue
		}
		f := res.Failure{Property: e.Check, Kind: "declared-parameter-has-no-field", Clause: "declared-parameter-has-no-field",
			Detail: fmt.Sprintf("%s: %s", op, u), Replay: p.SpecReplay(map[string]any{"operation.txt": op.String()})}
		FailOrKnown(p, e, r, f)
		return
	}
}

package drv

import (
	"bytes"
	"encoding/json"
	"fmt"
	"io"
	"math"
	"reflect"
	"sort"
	"strings"
	"time"

	"pgregory.net/rapid"

	"verif/refmodel"
	"verif/specgen"
)

// Type-directed value generator with schema hints (DESIGN.md §5.3). The Go type
// decides the shape; the schema (when known) tells which structs are oneOf
// carriers, which discriminator values are legal and what additional keys may hold.

type ValGen struct {
	T   *rapid.T
	Doc *specgen.Doc
	n   int
	// Ctx: "json" (arbitrary valid UTF-8), "header" (field-value text), "path"
	// (non-empty, '/'-free), "query".
	Ctx string
	// noNull: inside a set Nullable the value must not encode as null (it could not
	// be told from an unset one)
	noNull bool
	// PathWords: constant segments of the API's templates (candidate path values)
	PathWords []string
	// NoHuge: no (further) megabyte-sized string in this value
	NoHuge bool
	// sparse: this value is a "minimal" one (drawn once per generator, one in six):
	// optionals mostly unset, one-element arrays, empty maps - [{}], {"a":[]}, ...
	sparse, sparseDrawn bool
	// Stats
	UnsetOptionals, Nulls, NonEmptyCollections, EscapeStrings int
}

func (g *ValGen) isSparse() bool {
	if !g.sparseDrawn {
		g.sparseDrawn = true
		g.sparse = rapid.IntRange(0, 5).Draw(g.T, g.label("sparse")) == 0
	}
	return g.sparse
}

// HugeStringOneIn: when > 0, one in so many JSON strings is larger than 1 MiB (set by
// the checks whose subject reads or writes whole bodies: C10).
var HugeStringOneIn = 0

func (g *ValGen) label(s string) string { g.n++; return fmt.Sprintf("%s%d", s, g.n) }

var (
	rawMessageType = reflect.TypeOf(json.RawMessage(nil))
	anyType        = reflect.TypeOf((*any)(nil)).Elem()
)

var escapeStrings = []string{"with \"quotes\"", "back\\slash", "line\nbreak", "tab\tchar", "ctrl\x01\x1f\x7f", "u2028 u2029 ", "<script>&amp;</script>", "😀 astral 𝄞", "ünïcödé ß", "\u0000nul", "/slash/", "%25 %zz ?#&=+;", "{{template}}", "`backtick`", "'single'"}

func (g *ValGen) String() string {
	t := g.T
	switch g.Ctx {
	case "header":
		return rapid.SampledFrom([]string{"plain", "a b", "x,y", "tok=en; q=0.5", "\"quoted\"", "~!@#$%^&*()_+-=", "0", "true", "", "with:colon", "ümlaut"[0:1] + "mlaut"}).Draw(t, g.label("hstr"))
	case "path":
		// a value may coincide with a constant segment of some template of the same API
		if len(g.PathWords) > 0 && rapid.IntRange(0, 5).Draw(t, g.label("pconst")) == 0 {
			return rapid.SampledFrom(g.PathWords).Draw(t, g.label("pword"))
		}
		switch rapid.IntRange(0, 2).Draw(t, g.label("pkind")) {
		case 0:
			return rapid.SampledFrom([]string{"x", "two words", "a+b", "100%", "q?x=1", "frag#ment", "a&b=c", "semi;colon", "..", ".", "ünï", "😀", "a%2Fb", "-", "~", "a:b@c", "[x]", "{v}", "tab\there"}).Draw(t, g.label("pstr"))
		default:
			s := rapid.StringMatching(`[^/\x00]{1,12}`).Draw(t, g.label("prand"))
			return s
		}
	}
	// now and then a string larger than any fixed buffer or read limit (1 MiB + a bit)
	if g.Ctx == "json" && !g.NoHuge && HugeStringOneIn > 0 && rapid.IntRange(1, HugeStringOneIn).Draw(t, g.label("huge")) == 1 {
		g.NoHuge = true // one per value
		return strings.Repeat("0123456789abcdef", 70000)
	}
	switch rapid.IntRange(0, 3).Draw(t, g.label("skind")) {
	case 0:
		g.EscapeStrings++
		return rapid.SampledFrom(escapeStrings).Draw(t, g.label("esc"))
	case 1:
		return ""
	}
	return rapid.StringN(0, 12, 48).Draw(t, g.label("str"))
}

func (g *ValGen) Int(bits int) int64 {
	t := g.T
	min, max := int64(math.MinInt64), int64(math.MaxInt64)
	switch bits {
	case 8:
		min, max = math.MinInt8, math.MaxInt8
	case 16:
		min, max = math.MinInt16, math.MaxInt16
	case 32:
		min, max = math.MinInt32, math.MaxInt32
	}
	switch rapid.IntRange(0, 5).Draw(t, g.label("ikind")) {
	case 0:
		return min
	case 1:
		return max
	case 2:
		v := rapid.SampledFrom([]int64{0, 1, -1, 9007199254740993, -9007199254740993, 2147483648, -2147483649, 4294967296}).Draw(t, g.label("ib"))
		if v < min || v > max {
			return 0
		}
		return v
	}
	return rapid.Int64Range(min, max).Draw(t, g.label("int"))
}

func (g *ValGen) Float(bits int) float64 {
	t := g.T
	if bits == 32 {
		if rapid.IntRange(0, 3).Draw(t, g.label("f32k")) == 0 {
			return float64(rapid.SampledFrom([]float32{0, 1.5, -2.25, math.MaxFloat32, -math.MaxFloat32, math.SmallestNonzeroFloat32, 16777216, 0.1, 1e-10, 3.4e38}).Draw(t, g.label("f32b")))
		}
		return float64(rapid.Float32Range(-1e30, 1e30).Draw(t, g.label("f32")))
	}
	if rapid.IntRange(0, 3).Draw(t, g.label("f64k")) == 0 {
		return rapid.SampledFrom([]float64{0, 1.5, -2.25, math.MaxFloat64, -math.MaxFloat64, math.SmallestNonzeroFloat64, 9007199254740993, 0.1, 0.30000000000000004, 1e21, 1e-7, 123456789.125}).Draw(t, g.label("f64b"))
	}
	return rapid.Float64Range(-1e300, 1e300).Draw(t, g.label("f64"))
}

func (g *ValGen) Time() time.Time {
	t := g.T
	sec := rapid.Int64Range(-62135596800+86400, 253402300799-86400).Draw(t, g.label("sec"))
	ns := rapid.SampledFrom([]int64{0, 0, 500000000, 120000000, 123456789, 1, 999999999}).Draw(t, g.label("ns"))
	off := rapid.SampledFrom([]int{0, 0, 3600, -7 * 3600, 5*3600 + 1800, -12 * 3600, 14 * 3600, -9*3600 - 1800}).Draw(t, g.label("off"))
	if off == 0 && rapid.Bool().Draw(t, g.label("utc")) {
		return time.Unix(sec, ns).UTC()
	}
	return time.Unix(sec, ns).In(time.FixedZone("", off))
}

// FitTimesToLayout replaces every time.Time inside v (through Maybe / Nullable
// wrappers, slices and named time types) by the nearest value the Go layout named by
// expr (x-goag-go-time-format) can express: second precision, and UTC for layouts
// without a zone, midnight for date-only layouts.
func FitTimesToLayout(v reflect.Value, expr string) {
	layout := specgen.GoLayout(expr)
	if layout == "" || !v.IsValid() {
		return
	}
	switch {
	case v.Type() == timeType || v.Type().ConvertibleTo(timeType) && v.Kind() == reflect.Struct && v.Type().NumField() == timeType.NumField():
		if !v.CanSet() {
			return
		}
		tm := v.Convert(timeType).Interface().(time.Time)
		if fitted, err := time.Parse(layout, tm.Format(layout)); err == nil {
			v.Set(reflect.ValueOf(fitted).Convert(v.Type()))
		}
	case v.Kind() == reflect.Struct:
		for i := 0; i < v.NumField(); i++ {
			FitTimesToLayout(v.Field(i), expr)
		}
	case v.Kind() == reflect.Slice:
		for i := 0; i < v.Len(); i++ {
			FitTimesToLayout(v.Index(i), expr)
		}
	}
}

// JSONTree draws a JSON-shaped Go tree (what encoding/json decodes into `any`).
func (g *ValGen) JSONTree(depth int) any {
	t := g.T
	k := rapid.IntRange(0, 6).Draw(t, g.label("jk"))
	if depth <= 0 && k >= 5 {
		k = 0
	}
	switch k {
	case 0:
		return g.String()
	case 1:
		return g.Float(64)
	case 2:
		return rapid.Bool().Draw(t, g.label("jb"))
	case 3:
		return nil
	case 4:
		return float64(rapid.Int64Range(-1000000, 1000000).Draw(t, g.label("ji")))
	case 5:
		n := rapid.IntRange(0, 3).Draw(t, g.label("ja"))
		arr := make([]any, 0, n)
		for i := 0; i < n; i++ {
			arr = append(arr, g.JSONTree(depth-1))
		}
		return arr
	}
	n := rapid.IntRange(0, 3).Draw(t, g.label("jo"))
	obj := map[string]any{}
	for i := 0; i < n; i++ {
		obj[fmt.Sprintf("k%d", i)] = g.JSONTree(depth - 1)
	}
	return obj
}

var hostileKeys = []string{"extra", "x-key", "zz_top", "Extra Key", "k\"q", "k\\b", "ключ", "0", "a\nb", "tab\tkey", "<k>", "", "esc\x1b[0m", "del\x7f", "bel\a", "nul\x00", "vt\v", "tag\U000E0001", "ls\u2028"}

func (g *ValGen) mapKey(declared map[string]bool, used map[string]bool) string {
	for i := 0; ; i++ {
		k := rapid.SampledFrom(hostileKeys).Draw(g.T, g.label("mk"))
		if i > 0 {
			k += fmt.Sprint(i)
		}
		if !declared[k] && !used[k] {
			used[k] = true
			return k
		}
	}
}

// Gen builds a value of type typ; schema may be nil.
func (g *ValGen) Gen(typ reflect.Type, schema *specgen.Schema, depth int) reflect.Value {
	t := g.T
	var rs *specgen.Schema
	if schema != nil && g.Doc != nil {
		rs = g.Doc.ResolveSchema(schema)
	}
	v := reflect.New(typ).Elem()
	if isOptionStruct(typ) {
		isNullable := strings.HasPrefix(typ.Name(), "Nullable")
		unset := false
		if g.isSparse() {
			unset = rapid.IntRange(0, 5).Draw(t, g.label("set")) != 0
		} else {
			unset = rapid.IntRange(0, 2).Draw(t, g.label("set")) == 0
		}
		if unset {
			if isNullable {
				g.Nulls++
			} else {
				g.UnsetOptionals++
			}
			return v // unset / null, zero Value
		}
		v.Field(0).SetBool(true)
		saved := g.noNull
		g.noNull = isNullable
		v.Field(1).Set(g.Gen(typ.Field(1).Type, schema, depth))
		g.noNull = saved
		return v
	}
	noNull := g.noNull
	g.noNull = false
	switch {
	case typ == timeType:
		v.Set(reflect.ValueOf(g.Time()))
		// a date-time with a Go layout of its own holds what that layout can express
		if rs != nil && rs.TimeFormat != "" {
			FitTimesToLayout(v, rs.TimeFormat)
		}
		return v
	case typ == rawMessageType:
		if !noNull && rapid.IntRange(0, 5).Draw(t, g.label("rawnil")) == 0 {
			return v
		}
		tree := g.JSONTree(2)
		if tree == nil && noNull {
			tree = "not null"
		}
		bs, _ := json.Marshal(tree)
		v.SetBytes(bs)
		return v
	case typ.ConvertibleTo(timeType) && typ.Kind() == reflect.Struct && typ.NumField() == timeType.NumField():
		v.Set(reflect.ValueOf(g.Time()).Convert(typ))
		return v
	case typ.Kind() == reflect.Slice && typ.Elem().Kind() == reflect.Uint8 && typ.ConvertibleTo(rawMessageType):
		bs, _ := json.Marshal(g.JSONTree(2))
		v.SetBytes(bs)
		return v
	}
	switch typ.Kind() {
	case reflect.String:
		v.SetString(g.String())
	case reflect.Bool:
		v.SetBool(rapid.Bool().Draw(t, g.label("b")))
	case reflect.Int, reflect.Int64:
		v.SetInt(g.Int(64))
	case reflect.Int32:
		v.SetInt(g.Int(32))
	case reflect.Int16:
		v.SetInt(g.Int(16))
	case reflect.Int8:
		v.SetInt(g.Int(8))
	case reflect.Float32:
		v.SetFloat(g.Float(32))
	case reflect.Float64:
		v.SetFloat(g.Float(64))
	case reflect.Interface:
		switch {
		case typ == anyType:
			if tree := g.JSONTree(2); tree != nil {
				v.Set(reflect.ValueOf(tree))
			}
		case typ == readerType || typ == rcType:
			bs := []byte(rapid.StringN(0, 40, 200).Draw(t, g.label("body")))
			v.Set(reflect.ValueOf(io.NopCloser(bytes.NewReader(bs))))
		}
	case reflect.Slice:
		n := rapid.SampledFrom([]int{-1, 0, 1, 1, 2, 3}).Draw(t, g.label("len"))
		if g.isSparse() && n > 1 {
			n = 1
		}
		if n < 0 {
			return v // nil slice
		}
		var items *specgen.Schema
		if rs != nil && rs.Type == "array" {
			items = rs.Items
		}
		s := reflect.MakeSlice(typ, 0, n)
		for i := 0; i < n; i++ {
			s = reflect.Append(s, g.Gen(typ.Elem(), items, depth-1))
		}
		if n > 0 {
			g.NonEmptyCollections++
		}
		v.Set(s)
	case reflect.Map:
		n := rapid.SampledFrom([]int{-1, 0, 1, 2, 3}).Draw(t, g.label("mlen"))
		if g.isSparse() && n > 0 {
			n = 0
		}
		if n < 0 {
			return v
		}
		m := reflect.MakeMap(typ)
		used := map[string]bool{}
		for i := 0; i < n; i++ {
			m.SetMapIndex(reflect.ValueOf(g.mapKey(nil, used)).Convert(typ.Key()), g.Gen(typ.Elem(), nil, depth-1))
		}
		v.Set(m)
	case reflect.Struct:
		g.genStruct(v, rs, depth)
	case reflect.Pointer:
		p := reflect.New(typ.Elem())
		p.Elem().Set(g.Gen(typ.Elem(), schema, depth))
		v.Set(p)
	}
	return v
}

func (g *ValGen) genStruct(v reflect.Value, rs *specgen.Schema, depth int) {
	t := g.T
	typ := v.Type()
	// oneOf carrier: exactly one variant set
	if rs != nil && len(rs.OneOf) > 0 && typ.NumField() == len(rs.OneOf) {
		idx := rapid.IntRange(0, len(rs.OneOf)-1).Draw(t, g.label("variant"))
		f := v.Field(idx)
		if isOptionStruct(f.Type()) {
			f.Field(0).SetBool(true)
			val := g.Gen(f.Type().Field(1).Type, rs.OneOf[idx], depth-1)
			if rs.Discriminator != nil {
				var keys []string
				for k, i := range refmodel.DiscriminatorVariants(g.Doc, rs) {
					if i == idx {
						keys = append(keys, k)
					}
				}
				sort.Strings(keys)
				if len(keys) > 0 {
					setStringField(val, rs.Discriminator.PropertyName, rapid.SampledFrom(keys).Draw(t, g.label("disc")))
				}
			}
			f.Field(1).Set(val)
		}
		return
	}
	var props map[string]*specgen.Schema
	var ap *specgen.AddProps
	declared := map[string]bool{}
	if rs != nil && g.Doc != nil {
		props, _, ap, _ = refmodel.ObjectView(g.Doc, rs)
		for k := range props {
			declared[k] = true
		}
	}
	for i := 0; i < typ.NumField(); i++ {
		sf := typ.Field(i)
		if !sf.IsExported() {
			continue
		}
		f := v.Field(i)
		switch {
		case sf.Anonymous:
			// embedded allOf member: its schema is the component of the same name
			var ms *specgen.Schema
			if rs != nil && g.Doc != nil && g.Doc.Components != nil {
				for _, m := range rs.AllOf {
					if m.Ref != "" && Norm(strings.TrimPrefix(m.Ref, specgen.RefSchemas)) == Norm(sf.Type.Name()) {
						ms = m
					}
				}
				if ms == nil {
					if cs, ok := g.Doc.Components.Schemas[sf.Type.Name()]; ok {
						ms = cs
					}
				}
			}
			f.Set(g.Gen(sf.Type, ms, depth-1))
		case sf.Name == "AdditionalProperties" && sf.Type.Kind() == reflect.Map:
			n := rapid.SampledFrom([]int{-1, 0, 1, 2, 3}).Draw(t, g.label("aplen"))
			if n < 0 {
				continue
			}
			m := reflect.MakeMap(sf.Type)
			var vs *specgen.Schema
			if ap != nil {
				vs = ap.Schema
			}
			used := map[string]bool{}
			for j := 0; j < n; j++ {
				key := g.mapKey(declared, used)
				// an additional key spelled like the Go field of a declared property ("Name"
				// beside the declared "name") is an ordinary additional key
				if rapid.IntRange(0, 5).Draw(t, g.label("gofieldkey")) == 0 {
					if gf := typ.Field(rapid.IntRange(0, typ.NumField()-1).Draw(t, g.label("gofield"))).Name; gf != "AdditionalProperties" && !declared[gf] && !used[gf] {
						used[gf] = true
						key = gf
					}
				}
				m.SetMapIndex(reflect.ValueOf(key), g.Gen(sf.Type.Elem(), vs, depth-1))
			}
			if n > 0 {
				g.NonEmptyCollections++
			}
			f.Set(m)
		default:
			var ps *specgen.Schema
			for name, p := range props {
				if Norm(name) == Norm(sf.Name) {
					ps = p
				}
			}
			f.Set(g.Gen(sf.Type, ps, depth-1))
		}
	}
}

// setStringField sets the (possibly embedded, possibly optional) string field whose
// normalised name matches the JSON property name.
func setStringField(v reflect.Value, prop string, s string) bool {
	for v.Kind() == reflect.Pointer {
		v = v.Elem()
	}
	if v.Kind() != reflect.Struct {
		return false
	}
	for i := 0; i < v.NumField(); i++ {
		sf := v.Type().Field(i)
		f := v.Field(i)
		if sf.Anonymous {
			if setStringField(f, prop, s) {
				return true
			}
			continue
		}
		if Norm(sf.Name) != Norm(prop) {
			continue
		}
		for isOptionStruct(f.Type()) {
			f.Field(0).SetBool(true)
			f = f.Field(1)
		}
		if f.Kind() == reflect.String {
			f.SetString(s)
			return true
		}
	}
	return false
}

// ---------------------------------------------------------------------------
// normalised equality (DESIGN.md §11, C06)

// EqNorm: nil == empty collection, times by Equal, RawMessage up to JSON equivalence
// (nil == null), -0 == 0, readers by content.
func EqNorm(a, b reflect.Value) (bool, string) { return eqNorm(a, b, "") }

func eqNorm(a, b reflect.Value, path string) (bool, string) {
	if a.Type() != b.Type() {
		return false, fmt.Sprintf("%s: types %s vs %s", path, a.Type(), b.Type())
	}
	typ := a.Type()
	if typ == timeType || typ.ConvertibleTo(timeType) && typ.Kind() == reflect.Struct && typ.NumField() == timeType.NumField() {
		ta := a.Convert(timeType).Interface().(time.Time)
		tb := b.Convert(timeType).Interface().(time.Time)
		if !ta.Equal(tb) {
			return false, fmt.Sprintf("%s: instants %s vs %s", path, ta.Format(time.RFC3339Nano), tb.Format(time.RFC3339Nano))
		}
		return true, ""
	}
	if typ == rawMessageType || typ.Kind() == reflect.Slice && typ.Elem().Kind() == reflect.Uint8 {
		ba, bb := a.Bytes(), b.Bytes()
		if len(ba) == 0 {
			ba = []byte("null")
		}
		if len(bb) == 0 {
			bb = []byte("null")
		}
		ja, ea := refmodel.DecodeJSON(ba)
		jb, eb := refmodel.DecodeJSON(bb)
		if ea != nil || eb != nil {
			if bytes.Equal(ba, bb) {
				return true, ""
			}
			return false, fmt.Sprintf("%s: raw bytes differ", path)
		}
		if ok, why := refmodel.Equiv(nil, nil, ja, jb); !ok {
			return false, path + ": raw JSON differs: " + why
		}
		return true, ""
	}
	switch typ.Kind() {
	case reflect.Struct:
		if isOptionStruct(typ) {
			if a.Field(0).Bool() != b.Field(0).Bool() {
				return false, fmt.Sprintf("%s: IsSet %v vs %v", path, a.Field(0).Bool(), b.Field(0).Bool())
			}
			if !a.Field(0).Bool() {
				if !b.Field(1).IsZero() && !isEmptyCollection(b.Field(1)) {
					return false, fmt.Sprintf("%s: unset but Value is %+v", path, b.Field(1).Interface())
				}
				return true, ""
			}
			return eqNorm(a.Field(1), b.Field(1), path+".Value")
		}
		for i := 0; i < typ.NumField(); i++ {
			if !typ.Field(i).IsExported() {
				continue
			}
			if ok, why := eqNorm(a.Field(i), b.Field(i), path+"."+typ.Field(i).Name); !ok {
				return false, why
			}
		}
		return true, ""
	case reflect.Slice:
		if a.Len() != b.Len() {
			return false, fmt.Sprintf("%s: lengths %d vs %d", path, a.Len(), b.Len())
		}
		for i := 0; i < a.Len(); i++ {
			if ok, why := eqNorm(a.Index(i), b.Index(i), fmt.Sprintf("%s[%d]", path, i)); !ok {
				return false, why
			}
		}
		return true, ""
	case reflect.Map:
		if a.Len() != b.Len() {
			return false, fmt.Sprintf("%s: map sizes %d vs %d (%v vs %v)", path, a.Len(), b.Len(), a.MapKeys(), b.MapKeys())
		}
		for _, k := range a.MapKeys() {
			bv := b.MapIndex(k)
			if !bv.IsValid() {
				return false, fmt.Sprintf("%s: key %v lost", path, k)
			}
			if ok, why := eqNorm(a.MapIndex(k), bv, fmt.Sprintf("%s[%v]", path, k)); !ok {
				return false, why
			}
		}
		return true, ""
	case reflect.Interface:
		if a.IsNil() || b.IsNil() {
			if a.IsNil() != b.IsNil() {
				return false, fmt.Sprintf("%s: nil vs non-nil interface", path)
			}
			return true, ""
		}
		if typ == readerType || typ == rcType {
			return true, "" // compared by content by the caller
		}
		ja, _ := json.Marshal(a.Interface())
		jb, _ := json.Marshal(b.Interface())
		ta, ea := refmodel.DecodeJSON(ja)
		tb, eb := refmodel.DecodeJSON(jb)
		if ea == nil && eb == nil {
			if ok, why := refmodel.Equiv(nil, nil, ta, tb); !ok {
				return false, path + ": " + why
			}
			return true, ""
		}
		if !reflect.DeepEqual(a.Interface(), b.Interface()) {
			return false, fmt.Sprintf("%s: %v vs %v", path, a.Interface(), b.Interface())
		}
		return true, ""
	case reflect.Pointer:
		if a.IsNil() || b.IsNil() {
			if a.IsNil() != b.IsNil() {
				return false, path + ": nil vs non-nil pointer"
			}
			return true, ""
		}
		return eqNorm(a.Elem(), b.Elem(), path)
	case reflect.Float32, reflect.Float64:
		if a.Float() != b.Float() {
			return false, fmt.Sprintf("%s: %v vs %v", path, a.Float(), b.Float())
		}
		return true, ""
	case reflect.String:
		if a.String() != b.String() {
			return false, fmt.Sprintf("%s: %q vs %q", path, clip(a.String(), 40), clip(b.String(), 40))
		}
		return true, ""
	case reflect.Bool:
		if a.Bool() != b.Bool() {
			return false, fmt.Sprintf("%s: %v vs %v", path, a.Bool(), b.Bool())
		}
		return true, ""
	case reflect.Int, reflect.Int8, reflect.Int16, reflect.Int32, reflect.Int64:
		if a.Int() != b.Int() {
			return false, fmt.Sprintf("%s: %d vs %d", path, a.Int(), b.Int())
		}
		return true, ""
	}
	if !reflect.DeepEqual(a.Interface(), b.Interface()) {
		return false, fmt.Sprintf("%s: values differ", path)
	}
	return true, ""
}

func isEmptyCollection(v reflect.Value) bool {
	switch v.Kind() {
	case reflect.Slice, reflect.Map:
		return v.Len() == 0
	}
	return false
}

func clip(s string, n int) string {
	if len(s) > n {
		return s[:n] + "…"
	}
	return s
}

package drv

import (
	"bytes"
	"encoding/json"
	"fmt"
	"io"
	"net/http/httptest"
	"reflect"
	"strings"
	"time"

	"pgregory.net/rapid"

	"verif/refmodel"
	"verif/res"
	"verif/rt"
	"verif/specgen"
)

func init() {
	RegisterCheck("C06", CheckC06)
	RegisterCheck("C07", CheckC07)
	RegisterCheck("C08", CheckC08)
}

// JSONTarget is a generated Go type together with the schema it was generated from.
type JSONTarget struct {
	Name   string
	Type   reflect.Type
	Schema *specgen.Schema
	Op     *Op // non-nil for request bodies
	Class  string
}

func targetClass(d *specgen.Doc, own *specgen.Schema) string {
	rs := d.ResolveSchema(own)
	switch {
	case rs == nil:
		return "unresolved"
	case len(rs.OneOf) > 0:
		return "oneOf"
	case len(rs.AllOf) > 0:
		return "allOf"
	case rs.Type == "object" && len(rs.Properties) == 0 && rs.AdditionalProperties != nil:
		return "map"
	case rs.Type == "object":
		return "object"
	case rs.Type == "array":
		return "array"
	case rs.Type == "":
		return "any"
	}
	return "prim-" + specgen.PrimClass(rs)
}

// JSONTargets lists the schema components and JSON request bodies of a package.
func JSONTargets(p *Pkg) []JSONTarget {
	var out []JSONTarget
	if p.Doc.Components != nil {
		for _, name := range specgen.SortedKeys(p.Doc.Components.Schemas) {
			t, ok := p.Types[name]
			if !ok {
				continue
			}
			cs := p.Doc.Components.Schemas[name]
			// a date-time with a Go layout (x-goag-go-time-format) is generated for parameters
			// and response headers only; its JSON form is outside the JSON dialect
			if rs := p.Doc.ResolveSchema(cs); rs != nil && rs.TimeFormat != "" {
				continue
			}
			cl := targetClass(p.Doc, cs)
			if cs.Ref != "" {
				cl = "alias-component"
			}
			out = append(out, JSONTarget{Name: name, Type: t, Schema: cs, Class: cl})
		}
	}
	for _, op := range p.Ops {
		rb := p.Doc.ResolveRequestBody(op.Spec.RequestBody)
		if rb == nil {
			continue
		}
		mt := rb.Content["application/json"]
		if mt == nil || mt.Schema == nil {
			continue
		}
		f, ok := op.ParamsType.FieldByName("Body")
		if !ok || f.Type == readerType || f.Type == rcType {
			continue
		}
		cl := "body-" + targetClass(p.Doc, mt.Schema)
		if op.Spec.RequestBody.Ref != "" {
			cl = "requestbody-component"
		} else if mt.Schema.Ref != "" {
			if cs := p.Doc.Components.Schemas[strings.TrimPrefix(mt.Schema.Ref, specgen.RefSchemas)]; cs != nil && cs.Ref != "" {
				cl = "body-ref-alias-component"
			}
		}
		out = append(out, JSONTarget{Name: op.ParamsType.Name() + ".Body", Type: f.Type, Schema: mt.Schema, Op: op, Class: cl})
	}
	return out
}

func schemaFeatures(d *specgen.Doc, s *specgen.Schema, depth int, out map[string]bool) {
	rs := d.ResolveSchema(s)
	if rs == nil || depth > 4 {
		return
	}
	if s.Ref != "" {
		out["ref"] = true
	}
	if rs.Nullable {
		out["nullable"] = true
	}
	switch {
	case len(rs.OneOf) > 0:
		if rs.Discriminator != nil {
			out["oneOf-discriminator"] = true
		} else {
			out["oneOf"] = true
		}
		for _, m := range rs.OneOf {
			schemaFeatures(d, m, depth+1, out)
		}
	case len(rs.AllOf) > 0:
		out["allOf"] = true
		for _, m := range rs.AllOf {
			schemaFeatures(d, m, depth+1, out)
		}
	case rs.Type == "object":
		out["object"] = true
		if rs.AdditionalProperties != nil {
			out["additionalProperties"] = true
		}
		for _, p := range rs.Properties {
			schemaFeatures(d, p, depth+1, out)
		}
	case rs.Type == "array":
		out["array"] = true
		schemaFeatures(d, rs.Items, depth+1, out)
	case rs.Type == "":
		out["any"] = true
	default:
		out["prim:"+rs.Type+"/"+rs.Format] = true
	}
}

func marshalDirect(v reflect.Value) (bs []byte, viaMethod bool, err error, panicked string) {
	defer func() {
		if r := recover(); r != nil {
			panicked = fmt.Sprint(r)
		}
	}()
	if m, ok := v.Interface().(json.Marshaler); ok {
		bs, err = m.MarshalJSON()
		return bs, true, err, ""
	}
	return nil, false, nil, ""
}

// CheckC06: encode -> decode is the identity, via valid JSON.
func CheckC06(p *Pkg, e *Env, r *res.Result) {
	targets := JSONTargets(p)
	if len(targets) == 0 {
		r.Label("packages-without-json-types")
		return
	}
	for _, tg := range targets {
		feats := map[string]bool{}
		schemaFeatures(p.Doc, tg.Schema, 0, feats)
		for f := range feats {
			r.Label("feature:" + f)
		}
	}
	n := 300 * len(targets)
	if !e.Quick() {
		n = 1000 * len(targets)
	}
	var lastFail *res.Failure
	prop := func(t *rapid.T) {
		tg := targets[rapid.IntRange(0, len(targets)-1).Draw(t, "target")]
		g := &ValGen{T: t, Doc: p.Doc, Ctx: "json"}
		v := g.Gen(tg.Type, tg.Schema, 3)
		r.Evaluations++
		fail := func(clause, msg string) {
			clause = clause + "@" + tg.Class
			f := res.Failure{Property: "C06", Kind: clause, Clause: clause,
				Detail: fmt.Sprintf("type %s (schema %s), value %s: %s", tg.Name, schemaBrief(tg.Schema), clip(fmt.Sprintf("%+v", v.Interface()), 300), msg),
				Replay: p.SpecReplay(map[string]any{"type.txt": tg.Name, "value.txt": fmt.Sprintf("%#v", v.Interface())})}
			if IsKnown(p, e, r, &f) {
				return
			}
			lastFail = &f
			t.Fatalf("%s", f.Detail)
		}
		if bs, via, err, pan := marshalDirect(v); via {
			if pan != "" {
				fail("marshal-panic", "MarshalJSON panicked: "+pan)
				return
			}
			if err == nil && !json.Valid(bs) {
				fail(classifyInvalidJSON(bs), fmt.Sprintf("MarshalJSON produced invalid JSON: %s", clip(string(bs), 300)))
				return
			}
			// the bytes MarshalJSON returned belong to the caller: encoding another value
			// afterwards must not change them
			if err == nil && rapid.IntRange(0, 3).Draw(t, "hold_output") == 0 {
				keep := string(bs)
				tg2 := targets[rapid.IntRange(0, len(targets)-1).Draw(t, "second_target")]
				g2 := &ValGen{T: t, Doc: p.Doc, Ctx: "json"}
				for i := 0; i < 3; i++ {
					marshalDirect(g2.Gen(tg2.Type, tg2.Schema, 3))
				}
				marshalDirect(v)
				r.Label("held-output-checked")
				if string(bs) != keep {
					fail("marshal-output-overwritten", fmt.Sprintf("the bytes returned by MarshalJSON (%s) were overwritten by later MarshalJSON calls (now %s)", clip(keep, 200), clip(string(bs), 200)))
					return
				}
			}
		}
		bs, err := safeMarshal(v.Interface())
		if err != nil {
			fail("marshal-error:"+classifyMarshalErr(err), "json.Marshal failed: "+err.Error())
			return
		}
		if !json.Valid(bs) {
			fail("invalid-json", "json.Marshal produced invalid JSON: "+clip(string(bs), 300))
			return
		}
		w := reflect.New(tg.Type)
		if err := safeUnmarshal(bs, w.Interface()); err != nil {
			fail("unmarshal-error", fmt.Sprintf("decoding its own encoding %s failed: %v", clip(string(bs), 300), err))
			return
		}
		if ok, why := EqNorm(v, w.Elem()); !ok {
			fail("roundtrip-differs", fmt.Sprintf("decoded value differs at %s (JSON %s)", why, clip(string(bs), 300)))
			return
		}
		// a named array type with its own UnmarshalJSON decodes into a variable that held
		// something before exactly as into a fresh one (the next page into the same
		// variable); plain slices are left to encoding/json, whose reuse of old elements is
		// its own documented business
		if _, own := reflect.New(tg.Type).Interface().(json.Unmarshaler); own && tg.Type.Kind() == reflect.Slice && rapid.IntRange(0, 2).Draw(t, "reuse_receiver") == 0 {
			g2 := &ValGen{T: t, Doc: p.Doc, Ctx: "json"}
			v2 := g2.Gen(tg.Type, tg.Schema, 3)
			if bs2, err2 := safeMarshal(v2.Interface()); err2 == nil {
				if err := safeUnmarshal(bs2, w.Interface()); err == nil {
					r.Label("reused-receiver-checked")
					if ok, why := EqNorm(v2, w.Elem()); !ok {
						fail("decode-into-used-receiver", fmt.Sprintf("decoding %s into a variable that already held the decoding of %s gives a value that differs at %s", clip(string(bs2), 200), clip(string(bs), 200), why))
						return
					}
				}
			}
		}
		if g.UnsetOptionals+g.Nulls+g.NonEmptyCollections+g.EscapeStrings > 0 {
			r.NonTrivial("C06", p.Index, tg.Name, shapeHash(bs))
		}
		if g.UnsetOptionals > 0 {
			r.Label("value:unset-optional")
		}
		if g.Nulls > 0 {
			r.Label("value:null")
		}
		if g.NonEmptyCollections > 0 {
			r.Label("value:non-empty-collection")
		}
		if g.EscapeStrings > 0 {
			r.Label("value:escape-string")
		}
		r.Sample(map[string]any{"type": tg.Name, "schema": schemaBrief(tg.Schema), "json": clip(string(bs), 200), "roundtrip": "equal"}, 4)
	}
	ok, _ := rt.Check("C06-"+p.Name, rt.Seed(e.Seed, rt.SeedStr("C06"), uint64(p.Index)), n, 10*time.Second, prop)
	if !ok && lastFail != nil {
		r.Fail(*lastFail)
	}
}

func safeMarshal(v any) (bs []byte, err error) {
	defer func() {
		if r := recover(); r != nil {
			err = fmt.Errorf("panic: %v", r)
		}
	}()
	return json.Marshal(v)
}

func safeUnmarshal(bs []byte, v any) (err error) {
	defer func() {
		if r := recover(); r != nil {
			err = fmt.Errorf("panic: %v", r)
		}
	}()
	return json.Unmarshal(bs, v)
}

func classifyMarshalErr(err error) string {
	s := err.Error()
	switch {
	case strings.Contains(s, "invalid character"), strings.Contains(s, "unexpected end of JSON"):
		return "invalid-json-from-MarshalJSON"
	case strings.Contains(s, "all field are empty"):
		return "oneOf-empty"
	}
	return "other"
}

func classifyInvalidJSON(bs []byte) string {
	s := string(bs)
	switch {
	case strings.Contains(s, ",,"), strings.Contains(s, "{,"), strings.Contains(s, ",}"):
		return "invalid-json:comma"
	}
	return "invalid-json"
}

// shapeHash abstracts a JSON text to its shape (keys and value kinds).
func shapeHash(bs []byte) string {
	v, err := refmodel.DecodeJSON(bs)
	if err != nil {
		return "invalid"
	}
	var sb strings.Builder
	var rec func(v any, d int)
	rec = func(v any, d int) {
		if d > 4 {
			return
		}
		switch x := v.(type) {
		case map[string]any:
			sb.WriteString("{")
			for _, k := range sortedKeysAny(x) {
				sb.WriteString(k + ":")
				rec(x[k], d+1)
			}
			sb.WriteString("}")
		case []any:
			sb.WriteString(fmt.Sprintf("[%d", len(x)))
			if len(x) > 0 {
				rec(x[0], d+1)
			}
			sb.WriteString("]")
		case nil:
			sb.WriteString("n")
		case string:
			if x == "" {
				sb.WriteString("e")
			} else {
				sb.WriteString("s")
			}
		case bool:
			sb.WriteString("b")
		default:
			sb.WriteString("#")
		}
	}
	rec(v, 0)
	return sb.String()
}

func sortedKeysAny(m map[string]any) []string {
	ks := make([]string, 0, len(m))
	for k := range m {
		ks = append(ks, k)
	}
	for i := 1; i < len(ks); i++ {
		for j := i; j > 0 && ks[j] < ks[j-1]; j-- {
			ks[j], ks[j-1] = ks[j-1], ks[j]
		}
	}
	return ks
}

func schemaBrief(s *specgen.Schema) string {
	bs, _ := json.Marshal(s)
	return clip(string(bs), 160)
}

// ---------------------------------------------------------------------------
// C07: encoded JSON conforms to the schema it was generated from

func CheckC07(p *Pkg, e *Env, r *res.Result) {
	targets := JSONTargets(p)
	if len(targets) == 0 {
		r.Label("packages-without-json-types")
		return
	}
	n := 300 * len(targets)
	if !e.Quick() {
		n = 1000 * len(targets)
	}
	va := refmodel.Validator{Doc: p.Doc, Mode: refmodel.Output}
	var lastFail *res.Failure
	prop := func(t *rapid.T) {
		tg := targets[rapid.IntRange(0, len(targets)-1).Draw(t, "target")]
		g := &ValGen{T: t, Doc: p.Doc, Ctx: "json"}
		v := g.Gen(tg.Type, tg.Schema, 3)
		// the zero value of the type is a value too (what a handler returns when it forgets
		// to fill something in): it is encoded to valid JSON, or - a oneOf without a chosen
		// alternative has no JSON form - not encoded at all
		zero := rapid.IntRange(0, 11).Draw(t, "zero_value") == 0
		if zero {
			v = reflect.New(tg.Type).Elem()
			r.Label("value:zero")
		}
		r.Evaluations++
		bs, err := safeMarshal(v.Interface())
		if zero && err != nil && classifyMarshalErr(err) == "oneOf-empty" {
			r.Label("value:zero:refused-member-less-oneOf")
			return
		}
		where := "json.Marshal"
		fail := func(clause, msg string) {
			clause = clause + "@" + tg.Class
			f := res.Failure{Property: "C07", Kind: clause, Clause: clause,
				Detail: fmt.Sprintf("type %s (schema %s) via %s, JSON %s: %s", tg.Name, schemaBrief(tg.Schema), where, clip(string(bs), 300), msg),
				Replay: p.SpecReplay(map[string]any{"type.txt": tg.Name, "json.txt": string(bs)})}
			if IsKnown(p, e, r, &f) {
				return
			}
			lastFail = &f
			t.Fatalf("%s", f.Detail)
		}
		if err != nil {
			// no JSON at all: nothing that could conform to the schema
			fail("not-encodable:"+classifyMarshalErr(err), "encoding failed: "+err.Error())
			return
		}
		tree, err := refmodel.DecodeJSON(bs)
		if err != nil {
			fail("invalid-json", err.Error())
			return
		}
		if errs := va.Validate(tg.Schema, tree); len(errs) > 0 {
			kind := classifySchemaErr(errs[0])
			// narrow classification: does the value validate once nil slices / maps are
			// replaced by empty ones? then the only cause is a nil collection encoded as null
			if k := NilCollectionKind(v, func(nv reflect.Value) bool {
				nb, nerr := safeMarshal(nv.Interface())
				if nerr != nil {
					return false
				}
				nt, derr := refmodel.DecodeJSON(nb)
				return derr == nil && len(va.Validate(tg.Schema, nt)) == 0
			}); k != "" {
				kind = k
			}
			fail(kind, "does not validate: "+strings.Join(errs, "; "))
			return
		}
		// "map entries appear under their own keys": every key of the value's own
		// AdditionalProperties map is a key of the encoded object
		if missing := missingAdditionalKeys(v, tree); missing != "" {
			fail("additional-property-lost", "the value's additional property "+missing+" is not in the encoded object")
			return
		}
		if g.UnsetOptionals+g.Nulls+g.NonEmptyCollections > 0 {
			r.NonTrivial("C07", p.Index, tg.Name, shapeHash(bs))
		}
		r.Label("validated:direct")
		// end to end: the same value as a request body through the generated client
		if tg.Op != nil && tg.Op.ClientMethod != "" && rapid.IntRange(0, 4).Draw(t, "e2e") == 0 {
			body, cerr := captureClientBody(p, tg.Op, v, t)
			if cerr != "" {
				r.Label("e2e:client-error")
			} else {
				where = "client request body"
				bs = body
				tree, err := refmodel.DecodeJSON(body)
				if err != nil {
					fail("invalid-json", "request body sent by the client is not valid JSON: "+err.Error())
					return
				}
				if errs := va.Validate(tg.Schema, tree); len(errs) > 0 {
					fail(classifySchemaErr(errs[0]), "request body sent by the client does not validate: "+strings.Join(errs, "; "))
					return
				}
				r.Label("validated:client-request-body")
			}
		}
		r.Sample(map[string]any{"type": tg.Name, "schema": schemaBrief(tg.Schema), "json": clip(string(bs), 200), "validates": true}, 4)
	}
	ok, _ := rt.Check("C07-"+p.Name, rt.Seed(e.Seed, rt.SeedStr("C07"), uint64(p.Index)), n, 10*time.Second, prop)
	if !ok && lastFail != nil {
		r.Fail(*lastFail)
	}
	checkC07Responses(p, e, r)
}

// checkC07Responses is the "every response body a handler writes" half of C07: the
// handler returns a type-directed value of each response type with a JSON body,
// the bytes the generated code writes are validated against the schema the spec
// documents for that status under application/json.
func checkC07Responses(p *Pkg, e *Env, r *res.Result) {
	silenceLogError(p)
	in := NewInst(p)
	in.NoParse = true
	type target struct {
		op   *Op
		docs []DocResponse
		info implInfo
	}
	var targets []target
	for _, op := range p.Ops {
		docs := docResponses(p, op)
		infos, _ := linkImplementers(in, op, docs)
		for _, info := range infos {
			if info.Doc.Schema != nil {
				targets = append(targets, target{op, docs, info})
			}
		}
	}
	if len(targets) == 0 {
		return
	}
	n := 60 * len(targets)
	if !e.Quick() {
		n = 300 * len(targets)
	}
	var lastFail *res.Failure
	prop := func(t *rapid.T) {
		tg := targets[rapid.IntRange(0, len(targets)-1).Draw(t, "target")]
		v, raw, g := genResponse(t, p, tg.info, tg.docs)
		in.Respond = func(c *Call) reflect.Value { return v }
		req := httptest.NewRequest(tg.op.Method, "http://h.example"+escapeForURL(p.BasePath+concretePath(tg.op.Template)), nil)
		in.Reset()
		rec, pan := in.Serve(req)
		r.Evaluations++
		if pan != "" {
			return // C02 / C14 territory
		}
		clause, msg := checkWritten(p, tg.info, v, raw, rec)
		if !strings.HasPrefix(clause, "body-") {
			if clause == "" {
				r.Label("validated:response-body")
				if g.UnsetOptionals+g.Nulls+g.NonEmptyCollections > 0 {
					r.NonTrivial("C07-resp", p.Index, tg.op.String(), tg.info.T.String(), shapeHash(rec.Body.Bytes()))
				}
			}
			return
		}
		kind := "response-" + clause + "@" + bodySchemaClass(p.Doc, tg.info.Doc.Schema)
		f := res.Failure{Property: "C07", Kind: kind, Clause: kind,
			Detail: fmt.Sprintf("%s returns %s (documented response %s, schema %s): %s", tg.op, tg.info.T, tg.info.Doc.Status, schemaBrief(tg.info.Doc.Schema), msg),
			Replay: p.SpecReplay(map[string]any{"operation.txt": tg.op.String(), "value.txt": fmt.Sprintf("%#v", v.Interface())})}
		if IsKnown(p, e, r, &f) {
			return
		}
		lastFail = &f
		t.Fatalf("%s", f.Detail)
	}
	ok, _ := rt.Check("C07resp-"+p.Name, rt.Seed(e.Seed, rt.SeedStr("C07resp"), uint64(p.Index)), n, 10*time.Second, prop)
	if !ok && lastFail != nil {
		r.Fail(*lastFail)
	}
}

// missingAdditionalKeys reports (quoted) a key of v's AdditionalProperties map - v a
// struct, possibly inside Maybe / Nullable wrappers - that the encoded object lacks.
func missingAdditionalKeys(v reflect.Value, tree any) string {
	for v.IsValid() && v.Kind() == reflect.Struct && isOptionStruct(v.Type()) {
		if !v.Field(0).Bool() {
			return ""
		}
		v = v.Field(1)
	}
	if !v.IsValid() || v.Kind() != reflect.Struct {
		return ""
	}
	f := v.FieldByName("AdditionalProperties")
	if !f.IsValid() || f.Kind() != reflect.Map || f.Type().Key().Kind() != reflect.String {
		return ""
	}
	obj, ok := tree.(map[string]any)
	for _, k := range f.MapKeys() {
		if _, has := obj[k.String()]; !ok || !has {
			return fmt.Sprintf("%q", k.String())
		}
	}
	return ""
}

func classifySchemaErr(e string) string {
	switch {
	case strings.Contains(e, "required property"):
		return "schema:required-missing"
	case strings.Contains(e, "null where"):
		return "schema:null-not-nullable"
	case strings.Contains(e, "undeclared property"):
		return "schema:undeclared-property"
	case strings.Contains(e, "where a"), strings.Contains(e, "where an"):
		return "schema:wrong-type"
	case strings.Contains(e, "date-time"):
		return "schema:format"
	case strings.Contains(e, "oneOf"), strings.Contains(e, "discriminator"):
		return "schema:oneOf"
	}
	return "schema:other"
}

// ---------------------------------------------------------------------------
// C08: decoding is lossless on valid documents and strict on required/type errors

func namesProperty(errText, name string) bool {
	for _, q := range []string{"'" + name + "'", `"` + name + `"`, "`" + name + "`", `\"` + name + `\"`} {
		if strings.Contains(errText, q) {
			return true
		}
	}
	return false
}

func CheckC08(p *Pkg, e *Env, r *res.Result) {
	targets := JSONTargets(p)
	if len(targets) == 0 {
		r.Label("packages-without-json-types")
		return
	}
	n := 300 * len(targets)
	if !e.Quick() {
		n = 1000 * len(targets)
	}
	in := NewInst(p)
	var lastFail *res.Failure
	prop := func(t *rapid.T) {
		tg := targets[rapid.IntRange(0, len(targets)-1).Draw(t, "target")]
		dg := &refmodel.DocGen{Doc: p.Doc, T: t, ExtraKeys: true, TolerateUndeclared: true}
		doc := dg.Gen(tg.Schema, 4)
		mode := rapid.SampledFrom([]string{"valid", "valid", "mutant"}).Draw(t, "mode")
		viaHTTP := tg.Op != nil && rapid.Bool().Draw(t, "via_http")
		r.Evaluations++
		var fault *refmodel.FaultSite
		if mode == "mutant" {
			sites := refmodel.FaultSites(p.Doc, tg.Schema, doc)
			if len(sites) == 0 {
				mode = "valid"
			} else {
				f := sites[rapid.IntRange(0, len(sites)-1).Draw(t, "site")]
				fault = &f
				doc = refmodel.ApplyFault(t, p.Doc, tg.Schema, doc, f)
			}
		}
		text := refmodel.Render(t, doc, true)
		failf := func(clause, msg string) {
			clause = clause + "@" + tg.Class
			f := res.Failure{Property: "C08", Kind: clause, Clause: clause,
				Detail: fmt.Sprintf("type %s (schema %s), document %s (via http=%v): %s", tg.Name, schemaBrief(tg.Schema), clip(string(text), 400), viaHTTP, msg),
				Replay: p.SpecReplay(map[string]any{"type.txt": tg.Name, "document.json": string(text)})}
			if IsKnown(p, e, r, &f) {
				return
			}
			lastFail = &f
			t.Fatalf("%s", f.Detail)
		}
		// decode
		var decoded reflect.Value
		var derr error
		if viaHTTP {
			var bodyReader io.Reader = bytes.NewReader(text)
			if rapid.IntRange(0, 2).Draw(t, "unknown_length") == 0 {
				bodyReader = BodyOfUnknownLength(text)
				r.Label("http:body-of-unknown-length")
			}
			req := httptest.NewRequest(tg.Op.Method, "http://h.example"+escapeForURL(p.BasePath+concretePath(tg.Op.Template)), bodyReader)
			req.Header.Set("Content-Type", "application/json")
			in.Reset()
			_, pan := in.Serve(req)
			if pan != "" {
				failf("panic", firstLine(pan))
				return
			}
			if len(in.Calls) != 1 {
				r.Label("skipped:not-dispatched")
				return
			}
			c := in.Calls[0]
			if c.Panic != "" {
				failf("panic", "Parse panicked: "+firstLine(c.Panic))
				return
			}
			derr = c.ParseErr
			if derr == nil {
				decoded = c.Params.FieldByName("Body")
			}
		} else {
			w := reflect.New(tg.Type)
			derr = safeUnmarshal(text, w.Interface())
			decoded = w.Elem()
		}
		if mode == "valid" {
			r.Label("doc:valid")
			topNull := doc == nil
			if derr != nil {
				if topNull {
					failf("toplevel-null-rejected", fmt.Sprintf("null is valid for this nullable schema but was rejected: %v", derr))
					return
				}
				failf("rejected-valid:"+classifyDecodeErr(derr), fmt.Sprintf("a valid document was rejected: %v", derr))
				return
			}
			bs, err := safeMarshal(decoded.Interface())
			if err != nil {
				failf("reencode-error", "re-encoding the decoded value failed: "+err.Error())
				return
			}
			back, err := refmodel.DecodeJSON(bs)
			if err != nil {
				failf("reencode-invalid-json", err.Error())
				return
			}
			want := stripUndeclared(p.Doc, tg.Schema, doc)
			if ok, why := refmodel.Equiv(p.Doc, tg.Schema, want, back); !ok {
				if topNull {
					failf("toplevel-null-lost", fmt.Sprintf("null re-encoded as %s", clip(string(bs), 100)))
					return
				}
				failf("lossy:"+lossClass(why), fmt.Sprintf("re-encoded %s differs: %s", clip(string(bs), 300), why))
				return
			}
			r.NonTrivial("C08", p.Index, tg.Name, "valid", shapeHash(text))
			r.Sample(map[string]any{"type": tg.Name, "document": clip(string(text), 160), "verdict": "decoded and re-encoded to an equivalent value"}, 3)
			return
		}
		r.Label("doc:mutant:" + fault.Kind)
		r.NonTrivial("C08", p.Index, tg.Name, fault.Kind, strings.Join(fault.Path, "/"))
		if derr == nil {
			failf("accepted-fault:"+fault.Kind, fmt.Sprintf("fault %s at /%s was accepted", fault.Kind, strings.Join(fault.Path, "/")))
			return
		}
		if !namesProperty(derr.Error(), fault.Property) {
			failf("error-does-not-name-property:"+fault.Kind, fmt.Sprintf("fault %s at /%s rejected with %q, which does not name property %q", fault.Kind, strings.Join(fault.Path, "/"), derr.Error(), fault.Property))
			return
		}
		r.Sample(map[string]any{"type": tg.Name, "fault": fault.Kind, "at": "/" + strings.Join(fault.Path, "/"), "error": clip(derr.Error(), 160)}, 3)
	}
	ok, _ := rt.Check("C08-"+p.Name, rt.Seed(e.Seed, rt.SeedStr("C08"), uint64(p.Index)), n, 10*time.Second, prop)
	if !ok && lastFail != nil {
		r.Fail(*lastFail)
	}
}

func classifyDecodeErr(err error) string {
	s := err.Error()
	switch {
	case strings.Contains(s, "additional property"):
		return "additional-property"
	case strings.Contains(s, "discriminator"):
		return "discriminator"
	case strings.Contains(s, "oneOf"):
		return "oneOf"
	case strings.Contains(s, "parse time"):
		return "time"
	}
	return "other"
}

func lossClass(why string) string {
	switch {
	case strings.Contains(why, "keys ("):
		return "keys"
	case strings.Contains(why, "numbers"):
		return "number"
	case strings.Contains(why, "null vs"), strings.Contains(why, "vs null"):
		return "null"
	}
	return "value"
}

// stripUndeclared removes keys that an object without additionalProperties cannot
// keep (the Go type has nowhere to store them): tolerated on input, not demanded
// on re-encoding (DESIGN.md §11).
func stripUndeclared(d *specgen.Doc, s *specgen.Schema, v any) any {
	rs := d.ResolveSchema(s)
	if rs == nil || v == nil {
		return v
	}
	switch {
	case len(rs.OneOf) > 0:
		obj, ok := v.(map[string]any)
		if !ok {
			return v
		}
		if rs.Discriminator != nil {
			key, _ := obj[rs.Discriminator.PropertyName].(string)
			if idx, ok := refmodel.DiscriminatorVariants(d, rs)[key]; ok {
				return stripUndeclared(d, rs.OneOf[idx], v)
			}
			return v
		}
		// undiscriminated: strip against the first variant that validates
		va := refmodel.Validator{Doc: d, Mode: refmodel.Input}
		for _, m := range rs.OneOf {
			if len(va.Validate(m, v)) == 0 {
				return stripUndeclared(d, m, v)
			}
		}
		return v
	case len(rs.AllOf) > 0 || rs.Type == "object":
		obj, ok := v.(map[string]any)
		if !ok {
			return v
		}
		props, _, ap, _ := refmodel.ObjectView(d, rs)
		out := map[string]any{}
		for k, x := range obj {
			if ps, ok := props[k]; ok {
				out[k] = stripUndeclared(d, ps, x)
			} else if ap != nil && ap.Schema != nil {
				out[k] = stripUndeclared(d, ap.Schema, x)
			} else if ap != nil && (ap.Bool == nil || *ap.Bool) {
				out[k] = x
			}
		}
		return out
	case rs.Type == "array":
		arr, ok := v.([]any)
		if !ok {
			return v
		}
		out := make([]any, len(arr))
		for i, x := range arr {
			out[i] = stripUndeclared(d, rs.Items, x)
		}
		return out
	}
	return v
}

// NormalizeNil returns a deep copy of v in which nil slices and maps (other than
// byte slices) are replaced by empty ones.
func NormalizeNil(v reflect.Value) reflect.Value { return normalizeNil(v, false, false) }

// NilCollectionKind tells whether a value that does not validate does so only because of
// nil slices / maps written as null, and where they stand: "collection" = the whole value,
// an element of an array or a map value (nothing normalises those: C07-F4); "property" =
// a property of an object (the generated MarshalJSON turns those into [] / {}).
func NilCollectionKind(v reflect.Value, validates func(reflect.Value) bool) string {
	if validates(normalizeNil(v, false, true)) {
		return "nil-collection-encoded-as-null"
	}
	if validates(normalizeNil(v, false, false)) {
		return "nil-property-encoded-as-null"
	}
	return ""
}

// normalizeNil: a deep copy with nil slices / maps replaced by empty ones; with keepFields
// those standing directly in a struct field (an object property, wrapped or not) stay nil.
func normalizeNil(v reflect.Value, atField, keepFields bool) reflect.Value {
	out := reflect.New(v.Type()).Elem()
	switch v.Kind() {
	case reflect.Struct:
		if v.Type() == timeType {
			out.Set(v)
			return out
		}
		for i := 0; i < v.NumField(); i++ {
			if v.Type().Field(i).IsExported() {
				out.Field(i).Set(normalizeNil(v.Field(i), true, keepFields))
			}
		}
		if v.NumField() > 0 && !v.Type().Field(0).IsExported() {
			out.Set(v)
		}
	case reflect.Slice:
		if v.Type().Elem().Kind() == reflect.Uint8 || (v.IsNil() && atField && keepFields) {
			out.Set(v)
			return out
		}
		s := reflect.MakeSlice(v.Type(), 0, v.Len())
		for i := 0; i < v.Len(); i++ {
			s = reflect.Append(s, normalizeNil(v.Index(i), false, keepFields))
		}
		out.Set(s)
	case reflect.Map:
		if v.IsNil() && atField && keepFields {
			out.Set(v)
			return out
		}
		m := reflect.MakeMap(v.Type())
		for _, k := range v.MapKeys() {
			m.SetMapIndex(k, normalizeNil(v.MapIndex(k), false, keepFields))
		}
		out.Set(m)
	default:
		out.Set(v)
	}
	return out
}

// bodySchemaClass classifies a body schema; a $ref to a schema component that is
// itself an alias is its own class (the alias type has no JSON methods: C06-F1).
func bodySchemaClass(d *specgen.Doc, s *specgen.Schema) string {
	if s != nil && s.Ref != "" && d.Components != nil {
		if cs := d.Components.Schemas[strings.TrimPrefix(s.Ref, specgen.RefSchemas)]; cs != nil && cs.Ref != "" {
			return "ref-alias-component"
		}
	}
	return targetClass(d, s)
}

package drv

import (
	"context"
	"fmt"
	"net/http"
	"net/http/httptest"
	"net/url"
	"reflect"
	"sort"
	"strings"

	"verif/refmodel"
	"verif/res"
	"verif/specgen"
)

func init() {
	RegisterCheck("C11", CheckC11)
	RegisterCheck("C16", CheckC16)
	RegisterCheck("C17", CheckC17)
}

type authTagKey struct{}

// SecHarness installs recording authenticators on an Inst.
type SecHarness struct {
	In      *Inst
	Schemes map[string]*specgen.SecurityScheme
	Field   map[string]string // scheme name -> API field name ("" = goag generated no hook)
	Events  *[]string
	// WrongSchemeWord: when set, an invalid bearer credential is sent as
	// "<word> <the valid token>" (another scheme's credential is not a bearer token)
	WrongSchemeWord string
}

var authFuncType = reflect.TypeOf(func(*http.Request, string) (*http.Request, bool) { return nil, false })

func NewSecHarness(in *Inst, events *[]string) *SecHarness {
	h := &SecHarness{In: in, Schemes: map[string]*specgen.SecurityScheme{}, Field: map[string]string{}, Events: events}
	d := in.P.Doc
	if d.Components != nil {
		h.Schemes = d.Components.SecuritySchemes
	}
	api := in.P.API
	for name, sch := range h.Schemes {
		want := ""
		switch refmodel.SchemeKind(sch) {
		case "bearer":
			want = Norm("SecurityBearerAuth")
		case "apikey-header", "apikey-query":
			want = Norm("SecurityAPIKeyAuth" + sch.Name)
		default:
			continue
		}
		for i := 0; i < api.NumField(); i++ {
			f := api.Field(i)
			if f.Type.Kind() == reflect.Func && f.Type.ConvertibleTo(authFuncType) && Norm(f.Name) == want {
				h.Field[name] = f.Name
			}
		}
	}
	return h
}

// InstallAcceptAll sets authenticators that admit every request (checks that are not
// about admission use it to reach the handlers of secured operations).
func (h *SecHarness) InstallAcceptAll() {
	for _, field := range h.Field {
		h.In.SetField(field, func(r *http.Request, token string) (*http.Request, bool) { return r, true })
	}
}

// Install sets the authenticator of every scheme in `installed` and nils the others.
func (h *SecHarness) Install(installed map[string]bool) {
	for name, field := range h.Field {
		name := name
		if !installed[name] {
			h.In.SetField(field, nil)
			continue
		}
		fn := func(r *http.Request, token string) (*http.Request, bool) {
			*h.Events = append(*h.Events, "auth:"+name)
			if token != "valid-"+name {
				return nil, false
			}
			tags, _ := r.Context().Value(authTagKey{}).([]string)
			tags = append(append([]string{}, tags...), name)
			return r.WithContext(context.WithValue(r.Context(), authTagKey{}, tags)), true
		}
		h.In.SetField(field, fn)
	}
}

// Apply puts credentials on a request.
func (h *SecHarness) Apply(req *http.Request, creds map[string]refmodel.Cred) {
	q := req.URL.Query()
	for _, name := range specgen.SortedKeys(h.Schemes) {
		sch := h.Schemes[name]
		c := creds[name]
		if c == refmodel.CredAbsent {
			continue
		}
		tok := "valid-" + name
		if c == refmodel.CredInvalid {
			tok = "bogus-" + name
		}
		switch refmodel.SchemeKind(sch) {
		case "bearer":
			if c == refmodel.CredInvalid && h.WrongSchemeWord != "" {
				// an invalid bearer credential may also be the right token under another
				// authentication scheme word (Basic, Token, ...)
				req.Header.Set("Authorization", h.WrongSchemeWord+" valid-"+name)
				break
			}
			req.Header.Set("Authorization", "Bearer "+tok)
		case "apikey-header":
			req.Header.Set(sch.Name, tok)
		case "apikey-query":
			q.Set(sch.Name, tok)
		default:
			// unsupported kinds: send something plausible anyway
			req.Header.Add("X-Unsupported-"+name, tok)
		}
	}
	req.URL.RawQuery = q.Encode()
}

// concretePath instantiates a template with a fixed value per variable.
func concretePath(tpl string) string {
	segs := strings.Split(tpl, "/")
	for i, s := range segs {
		if strings.HasPrefix(s, "{") {
			segs[i] = "val"
		}
	}
	return strings.Join(segs, "/")
}

func credVectors(names []string) []map[string]refmodel.Cred {
	out := []map[string]refmodel.Cred{{}}
	for _, n := range names {
		var next []map[string]refmodel.Cred
		for _, m := range out {
			for _, c := range []refmodel.Cred{refmodel.CredAbsent, refmodel.CredInvalid, refmodel.CredValid} {
				mm := map[string]refmodel.Cred{}
				for k, v := range m {
					mm[k] = v
				}
				mm[n] = c
				next = append(next, mm)
			}
		}
		out = next
	}
	return out
}

func credString(m map[string]refmodel.Cred) string {
	var parts []string
	for _, k := range sortedCredKeys(m) {
		parts = append(parts, k+"="+m[k].String())
	}
	return strings.Join(parts, ",")
}

func sortedCredKeys(m map[string]refmodel.Cred) []string {
	var ks []string
	for k := range m {
		ks = append(ks, k)
	}
	sort.Strings(ks)
	return ks
}

// secKind classifies a failing C11 case narrowly.
func secKind(p *Pkg, op *Op, creds map[string]refmodel.Cred, installed map[string]bool, admittedRef, ran bool, panicked bool) string {
	d := p.Doc
	eff := d.EffectiveSecurity(op.Spec)
	kinds := func(alts []map[string][]string) (hasAnd, hasUnsupported, hasBearer bool) {
		for _, alt := range alts {
			if len(alt) > 1 {
				hasAnd = true
			}
			for n := range alt {
				var sch *specgen.SecurityScheme
				if d.Components != nil {
					sch = d.Components.SecuritySchemes[n]
				}
				switch refmodel.SchemeKind(sch) {
				case "unsupported", "missing":
					hasUnsupported = true
				case "bearer":
					hasBearer = true
				}
			}
		}
		return
	}
	hasAnd, hasUnsupported, hasBearer := kinds(eff)
	// goag drops schemes it has no hook for: that is the known finding exactly when no
	// alternative is left (every alternative names such a scheme) and the operation is
	// served without any credential; an alternative made of supported schemes is
	// enforced as usual and judged as usual
	if hasUnsupported {
		allAlternativesUnsupported := true
		for _, alt := range eff {
			if _, u, _ := kinds([]map[string][]string{alt}); !u {
				allAlternativesUnsupported = false
			}
		}
		hasUnsupported = allAlternativesUnsupported
	}
	if panicked {
		for n, inst := range installed {
			if !inst && creds[n] != refmodel.CredAbsent {
				return "nil-authenticator-called"
			}
		}
		return "panic"
	}
	siblingBearer := false
	for _, mo := range op.PathItem.Ops() {
		if mo.Op == op.Spec {
			continue
		}
		if _, _, b := kinds(d.EffectiveSecurity(mo.Op)); b {
			siblingBearer = true
		}
	}
	switch {
	case hasAnd:
		return "and-requirement"
	case hasUnsupported:
		return "unsupported-scheme"
	case siblingBearer && !hasBearer:
		return "bearer-of-sibling-operation"
	case ran && !admittedRef:
		return "admitted-without-right"
	case !ran && admittedRef:
		return "rejected-with-right"
	}
	return "other"
}

// CheckC11: security is enforced per operation, no more and no less.
func CheckC11(p *Pkg, e *Env, r *res.Result) {
	in := NewInst(p)
	in.NoParse = true
	var events []string
	h := NewSecHarness(in, &events)
	names := specgen.SortedKeys(h.Schemes)
	if len(names) > 3 {
		names = names[:3]
	}
	masks := []map[string]bool{{}}
	all := map[string]bool{}
	for _, n := range names {
		all[n] = true
	}
	masks[0] = all
	for _, n := range names {
		m := map[string]bool{}
		for k := range all {
			m[k] = k != n
		}
		masks = append(masks, m)
	}
	vectors := credVectors(names)
	var handlerTags []string
	handlerRuns := 0
	in.Respond = func(c *Call) reflect.Value {
		handlerRuns++
		if c.Req != nil {
			handlerTags, _ = c.Req.Context().Value(authTagKey{}).([]string)
		}
		return reflect.Value{}
	}
	for _, mask := range masks {
		h.Install(mask)
		// a scheme is "installed" only if goag generated a hook for it and the mask sets it
		installed := map[string]bool{}
		for n := range mask {
			installed[n] = mask[n] && h.Field[n] != ""
		}
		for _, op := range p.Ops {
			for vi, creds := range vectors {
				h.WrongSchemeWord = []string{"", "", "Basic", "Token"}[vi%4]
				req := httptest.NewRequest(op.Method, "http://h.example"+escapeForURL(p.BasePath+concretePath(op.Template)), nil)
				// every other vector of a body-carrying method also has a form-encoded body
				// whose fields are named like the query api keys and hold the *opposite*
				// credential: a credential counts only in its declared location
				if (op.Method == "POST" || op.Method == "PUT" || op.Method == "PATCH") && vi%2 == 1 {
					form := url.Values{}
					for _, name := range specgen.SortedKeys(h.Schemes) {
						if sch := h.Schemes[name]; refmodel.SchemeKind(sch) == "apikey-query" {
							if creds[name] == refmodel.CredValid {
								form.Set(sch.Name, "bogus-"+name)
							} else {
								form.Set(sch.Name, "valid-"+name)
							}
						}
					}
					if len(form) > 0 {
						req = httptest.NewRequest(op.Method, "http://h.example"+escapeForURL(p.BasePath+concretePath(op.Template)), strings.NewReader(form.Encode()))
						req.Header.Set("Content-Type", "application/x-www-form-urlencoded")
						r.Label("request:decoy-form-body")
					}
				}
				h.Apply(req, creds)
				in.Reset()
				events = events[:0]
				handlerRuns, handlerTags = 0, nil
				rec, pan := in.Serve(req)
				r.Evaluations++
				admitted, public, accepting := refmodel.Admitted(p.Doc, op.Spec, creds, installed)
				ran := handlerRuns > 0
				fail := ""
				switch {
				case pan != "":
					fail = "panic: " + firstLine(pan)
				case handlerRuns > 1:
					fail = fmt.Sprintf("handler ran %d times", handlerRuns)
				case admitted && !ran:
					fail = fmt.Sprintf("status %d, handler not invoked although the request satisfies the operation's requirement (accepting alternatives %v, public=%v)", rec.Code, accepting, public)
				case !admitted && ran:
					fail = fmt.Sprintf("handler invoked although no alternative of the effective requirement %v is satisfied", p.Doc.EffectiveSecurity(op.Spec))
				case !admitted && rec.Code != 401:
					fail = fmt.Sprintf("status %d, want 401", rec.Code)
				case admitted && !public:
					okTag := false
					for _, alt := range accepting {
						have := map[string]bool{}
						for _, tg := range handlerTags {
							have[tg] = true
						}
						allIn := true
						for _, n := range alt {
							if !have[n] {
								allIn = false
							}
						}
						if allIn {
							okTag = true
						}
					}
					if !okTag {
						fail = fmt.Sprintf("handler did not receive the request returned by an accepting authenticator: context tags %v, accepting alternatives %v", handlerTags, accepting)
					}
				}
				// non-trivial: admission differs under another plausible reading
				if !public || len(p.Doc.EffectiveSecurity(op.Spec)) > 0 || credString(creds) != "" {
					globalAdm, _, _ := refmodel.Admitted(p.Doc, &specgen.Operation{}, creds, installed)
					if globalAdm != admitted || !public {
						r.NonTrivial("C11", p.Index, op.String(), credString(creds), fmt.Sprint(mask))
					}
				}
				if admitted {
					r.Label("ref:admitted")
				} else {
					r.Label("ref:rejected")
				}
				if fail != "" {
					f := res.Failure{Property: "C11", Kind: secKind(p, op, creds, installed, admitted, ran, pan != ""), Clause: "security",
						Detail: fmt.Sprintf("%s effective requirement %v, global %v, schemes %v, credentials {%s}, installed %v: %s", op, p.Doc.EffectiveSecurity(op.Spec), p.Doc.Security, schemeKinds(p.Doc), credString(creds), installed, fail),
						Replay: p.SpecReplay(map[string]any{"request.txt": op.Method + " " + req.URL.String() + "\n" + fmt.Sprint(req.Header)})}
					if !FailOrKnown(p, e, r, f) {
						return
					}
				}
			}
		}
	}
	r.Sample(map[string]any{"schemes": schemeKinds(p.Doc), "global": p.Doc.Security, "operations": len(p.Ops), "credential_vectors": len(vectors), "nil_masks": len(masks)}, 5)
}

func schemeKinds(d *specgen.Doc) map[string]string {
	out := map[string]string{}
	if d.Components != nil {
		for n, s := range d.Components.SecuritySchemes {
			out[n] = refmodel.SchemeKind(s)
		}
	}
	return out
}

// ---------------------------------------------------------------------------
// C16: middlewares wrap exactly the routed operations, in declared order

func CheckC16(p *Pkg, e *Env, r *res.Result) {
	in := NewInst(p)
	in.NoParse = true
	var events []string
	h := NewSecHarness(in, &events)
	all := map[string]bool{}
	for n := range h.Schemes {
		all[n] = true
	}
	h.Install(all)
	sp := p.schemaPath()
	in.Respond = func(c *Call) reflect.Value {
		events = append(events, "handler")
		return reflect.Value{}
	}
	var seenPaths []string
	mkStack := func(k int) []func(http.Handler) http.Handler {
		var ms []func(http.Handler) http.Handler
		for i := 0; i < k; i++ {
			i := i
			ms = append(ms, func(next http.Handler) http.Handler {
				return http.HandlerFunc(func(w http.ResponseWriter, r *http.Request) {
					events = append(events, fmt.Sprintf("enter%d", i))
					if sp != nil {
						s, ok := sp(r)
						seenPaths = append(seenPaths, fmt.Sprintf("%s|%v", s, ok))
					}
					next.ServeHTTP(w, r)
					events = append(events, fmt.Sprintf("leave%d", i))
				})
			})
		}
		return ms
	}
	if f, ok := p.Funcs["SpecFileHandler"]; ok {
		if fn, ok := f.(func() http.Handler); ok {
			in.SetField("SpecFileHandler", fn())
		}
	}
	corsCalls := 0
	if f := in.V.Elem().FieldByName("CORSHandler"); f.IsValid() {
		fn := reflect.MakeFunc(f.Type(), func(args []reflect.Value) []reflect.Value {
			corsCalls++
			var hh http.Handler = http.HandlerFunc(func(w http.ResponseWriter, r *http.Request) { w.WriteHeader(204) })
			return []reflect.Value{AsIface(reflect.ValueOf(hh), handlerType)}
		})
		f.Set(fn)
	}
	names := specgen.SortedKeys(h.Schemes)
	check := func(class string, k int, req *http.Request, op *Op) bool {
		in.Reset()
		events = events[:0]
		seenPaths = seenPaths[:0]
		rec, pan := in.Serve(req)
		r.Evaluations++
		fail := ""
		trace := strings.Join(events, " ")
		switch {
		case pan != "":
			fail = "panic: " + firstLine(pan)
		case op == nil:
			for _, ev := range events {
				if strings.HasPrefix(ev, "enter") {
					fail = fmt.Sprintf("%s request passed through middlewares: trace [%s]", class, trace)
				}
			}
		default:
			// expected: enter0..enter(k-1) auth* handler? leave(k-1)..leave0
			idx := 0
			for i := 0; i < k && fail == ""; i++ {
				if idx >= len(events) || events[idx] != fmt.Sprintf("enter%d", i) {
					fail = fmt.Sprintf("expected enter%d at position %d of trace [%s]", i, idx, trace)
				}
				idx++
			}
			if fail == "" {
				for idx < len(events) && strings.HasPrefix(events[idx], "auth:") {
					idx++
				}
				ran := idx < len(events) && events[idx] == "handler"
				if ran {
					idx++
				} else if rec.Code != 401 {
					fail = fmt.Sprintf("routed request neither ran the handler nor got 401 (status %d), trace [%s]", rec.Code, trace)
				}
				for i := k - 1; i >= 0 && fail == ""; i-- {
					if idx >= len(events) || events[idx] != fmt.Sprintf("leave%d", i) {
						fail = fmt.Sprintf("expected leave%d at position %d of trace [%s]", i, idx, trace)
					}
					idx++
				}
				if fail == "" && idx != len(events) {
					fail = fmt.Sprintf("extra events after the stack unwound: trace [%s]", trace)
				}
			}
			if fail == "" && sp != nil {
				if len(seenPaths) != k {
					fail = fmt.Sprintf("%d middlewares saw a schema path, want %d", len(seenPaths), k)
				}
				for _, s := range seenPaths {
					if s != op.Template+"|true" {
						fail = fmt.Sprintf("middleware saw SchemaPath %q, want %q", s, op.Template+"|true")
					}
				}
			}
		}
		if k >= 2 && op != nil || op == nil && k > 0 {
			r.NonTrivial("C16", p.Index, class, k, req.Method, req.URL.Path, req.Header.Get("Authorization"))
		}
		r.Label("class:" + class)
		if fail != "" {
			f := res.Failure{Property: "C16", Kind: "trace:" + class, Clause: "middleware-trace",
				Detail: fmt.Sprintf("stack length %d, %s request %s %s: %s", k, class, req.Method, req.URL.Path, fail),
				Replay: p.SpecReplay(map[string]any{"request.txt": req.Method + " " + req.URL.String()})}
			return FailOrKnown(p, e, r, f)
		}
		return true
	}
	for k := 0; k <= 4; k++ {
		in.SetField("Middlewares", mkStack(k))
		// each routed request is served twice on the same API value (an aliasing bug
		// in the wrapping loop shows on the second request only)
		for rep := 0; rep < 2; rep++ {
			for _, op := range p.Ops {
				secured := len(p.Doc.EffectiveSecurity(op.Spec)) > 0
				vecs := []map[string]refmodel.Cred{{}}
				if secured {
					vecs = nil
					for _, c := range []refmodel.Cred{refmodel.CredAbsent, refmodel.CredInvalid, refmodel.CredValid} {
						m := map[string]refmodel.Cred{}
						for _, n := range names {
							m[n] = c
						}
						vecs = append(vecs, m)
					}
				}
				for vi, creds := range vecs {
					req := httptest.NewRequest(op.Method, "http://h.example"+escapeForURL(p.BasePath+concretePath(op.Template)), nil)
					h.Apply(req, creds)
					// a declared OPTIONS operation is an operation like any other, also when the
					// request looks like a browser's preflight
					if op.Method == "OPTIONS" && vi%2 == 0 {
						req.Header.Set("Origin", "https://app.example")
						req.Header.Set("Access-Control-Request-Method", "GET")
						req.Header.Set("Access-Control-Request-Headers", "authorization, x-trace")
					}
					class := "routed-public"
					if secured {
						class = "routed-secured"
					}
					if !check(class, k, req, op) {
						return
					}
					// the request is forwarded (internal redirect, legacy alias): a second dispatch
					// with a context derived from the first one sees the template of the SECOND
					// operation in every middleware
					if len(in.Calls) == 1 && in.Calls[0].Req != nil && rep == 0 {
						ctx := in.Calls[0].Req.Context()
						for _, op2 := range p.Ops {
							if op2.Template == op.Template {
								continue
							}
							req2 := httptest.NewRequest(op2.Method, "http://h.example"+escapeForURL(p.BasePath+concretePath(op2.Template)), nil).WithContext(ctx)
							all := map[string]refmodel.Cred{}
							for _, n := range names {
								all[n] = refmodel.CredValid
							}
							h.Apply(req2, all)
							if !check("re-dispatched-with-derived-context", k, req2, op2) {
								return
							}
							break
						}
					}
				}
				// CORS preflight / undeclared method on a declared path
				if op.PathItem.Op("OPTIONS") == nil {
					req := httptest.NewRequest("OPTIONS", "http://h.example"+escapeForURL(p.BasePath+concretePath(op.Template)), nil)
					// with cors on (and a CORS handler installed, as here) the path's own preflight
					// answers, whatever other template could also match the path; with cors off a
					// less specific template that declares OPTIONS may take the request (C03's
					// method-fallback ambiguity): checked only when no template does
					if p.Cfg.Cors && in.V.Elem().FieldByName("CORSHandler").IsValid() || refmodel.Route(p.Doc, p.BasePath, "OPTIONS", req.URL.Path).Dispatch == nil {
						if !check("preflight-or-undeclared-method", k, req, nil) {
							return
						}
					}
				}
			}
		}
		unrouted := []string{p.BasePath + "/no/such/route/here/at/all", "/", p.BasePath + "/"}
		if p.BasePath != "" {
			unrouted = append(unrouted, p.BasePath+"x")
		}
		for _, path := range unrouted {
			for _, m := range []string{"GET", "POST"} {
				if refmodel.Route(p.Doc, p.BasePath, m, path).Dispatch != nil {
					continue
				}
				req := httptest.NewRequest(m, "http://h.example/", nil)
				req.URL.Path = path
				if !check("unrouted", k, req, nil) {
					return
				}
			}
		}
		// the spec route is served by the spec handler, outside the middlewares, whatever the
		// method and whatever template could also match the path
		specURL := p.BasePath + "/" + p.Cfg.ServedSpecName()
		for _, m := range []string{"GET", "HEAD", "POST", "PUT", "DELETE", "OPTIONS"} {
			req := httptest.NewRequest(m, "http://h.example/", nil)
			req.URL.Path = specURL
			if !check("spec-file", k, req, nil) {
				return
			}
		}
	}
	r.Sample(map[string]any{"templates": templatesOf(p), "schemes": schemeKinds(p.Doc), "stack_lengths": "0..4", "cors": p.Cfg.Cors, "cors_handler_calls": corsCalls}, 5)
}

// ---------------------------------------------------------------------------
// C17: CORS preflight advertises exactly what the path declares

func CheckC17(p *Pkg, e *Env, r *res.Result) {
	for _, handlerSet := range []bool{true, false} {
		in := NewInst(p)
		in.NoParse = true
		var gotMethods, gotHeaders [][]string
		served := 0
		cf := in.V.Elem().FieldByName("CORSHandler")
		if cf.IsValid() && handlerSet {
			cf.Set(reflect.MakeFunc(cf.Type(), func(args []reflect.Value) []reflect.Value {
				gotMethods = append(gotMethods, append([]string{}, args[0].Interface().([]string)...))
				gotHeaders = append(gotHeaders, append([]string{}, args[1].Interface().([]string)...))
				// the handler factory owns its arguments (filtering them in place is a common
				// idiom): the next preflight must get fresh, correct lists all the same
				for _, a := range args[:2] {
					for i := 0; i < a.Len(); i++ {
						a.Index(i).SetString("scrambled-by-the-previous-preflight")
					}
				}
				var hh http.Handler = http.HandlerFunc(func(w http.ResponseWriter, r *http.Request) {
					served++
					w.Header().Set("X-Cors-Marker", "yes")
					w.WriteHeader(204)
				})
				return []reflect.Value{AsIface(reflect.ValueOf(hh), handlerType)}
			}))
		}
		mwRuns := 0
		in.SetField("Middlewares", []func(http.Handler) http.Handler{func(next http.Handler) http.Handler {
			return http.HandlerFunc(func(w http.ResponseWriter, r *http.Request) { mwRuns++; next.ServeHTTP(w, r) })
		}})
		// a declared OPTIONS operation may itself be secured: authenticate fully
		var secEvents []string
		sh := NewSecHarness(in, &secEvents)
		allSchemes := map[string]bool{}
		validCreds := map[string]refmodel.Cred{}
		for n := range sh.Schemes {
			allSchemes[n] = true
			validCreds[n] = refmodel.CredValid
		}
		sh.Install(allSchemes)
		for _, tpl := range specgen.SortedKeys(p.Doc.Paths) {
			pi := p.Doc.Paths[tpl]
			if len(pi.Ops()) == 0 {
				continue
			}
			path := p.BasePath + concretePath(tpl)
			// the request must actually route to this template (a more literal
			// template may shadow the concrete path)
			shadow := false
			for _, mo := range pi.Ops() {
				if v := refmodel.Route(p.Doc, p.BasePath, mo.Method, path); v.Dispatch == nil || v.Dispatch.Template != tpl {
					shadow = true
				}
			}
			if shadow {
				r.Label("skipped:shadowed-template")
				continue
			}
			for rep := 0; rep < 2; rep++ { // every preflight twice
				req := httptest.NewRequest("OPTIONS", "http://h.example/", nil)
				req.URL.Path = path
				sh.Apply(req, validCreds)
				in.Reset()
				gotMethods, gotHeaders, served, mwRuns = nil, nil, 0, 0
				rec, pan := in.Serve(req)
				r.Evaluations++
				ownOptions := pi.Op("OPTIONS") != nil
				wantM, wantH := refmodel.CORSExpected(p.Doc, pi)
				// is OPTIONS routed to some other (less literal) template declaring OPTIONS?
				other := refmodel.Route(p.Doc, p.BasePath, "OPTIONS", path)
				fail := ""
				state := ""
				switch {
				case pan != "":
					fail = "panic: " + firstLine(pan)
				case ownOptions:
					state = "own-options"
					if len(in.Calls) != 1 || in.Calls[0].Op.Template != tpl || in.Calls[0].Op.Method != "OPTIONS" {
						fail = fmt.Sprintf("declared OPTIONS operation was not dispatched (%d handler calls, cors handler calls %d)", len(in.Calls), len(gotMethods))
					} else if len(gotMethods) > 0 {
						fail = "CORS handler was constructed although the path declares its own OPTIONS operation"
					}
				case p.Cfg.Cors && handlerSet && cf.IsValid():
					state = "preflight"
					switch {
					case len(gotMethods) != 1 || served != 1:
						fail = fmt.Sprintf("CORS handler constructed %d times and served %d times, want once each (status %d, handler calls %d)", len(gotMethods), served, rec.Code, len(in.Calls))
					case !sameSet(gotMethods[0], wantM):
						fail = fmt.Sprintf("methods %v, want the set %v", gotMethods[0], wantM)
					case !sameSet(gotHeaders[0], wantH):
						fail = fmt.Sprintf("headers %v, want the set %v", gotHeaders[0], wantH)
					case rec.Header().Get("X-Cors-Marker") != "yes" || rec.Code != 204:
						fail = "the response is not what the CORS handler wrote"
					case mwRuns != 0:
						fail = "preflight passed through user middlewares"
					}
				default:
					state = "no-cors"
					if other.Dispatch != nil && other.Dispatch.Template != tpl && !p.Cfg.Cors {
						// cors off and a less literal template declares OPTIONS: plain routing, method
						// fallback (both outcomes admissible, C03). With cors on the statement is
						// explicit: without a CORS handler the preflight is not found.
						r.Label("skipped:method-fallback")
						continue
					}
					if len(in.Calls) != 0 || rec.Code != 404 || len(gotMethods) != 0 {
						fail = fmt.Sprintf("want the not-found outcome (cors=%v, handler set=%v): status %d, handler calls %d, cors handler calls %d", p.Cfg.Cors, handlerSet, rec.Code, len(in.Calls), len(gotMethods))
					}
				}
				if len(wantM) >= 2 || len(wantH) >= 1 {
					r.NonTrivial("C17", p.Index, tpl, state, handlerSet)
				}
				r.Label("state:" + state)
				if fail != "" {
					kind := "cors:" + state
					if state == "no-cors" && p.Cfg.Cors && !handlerSet && other.Dispatch != nil && len(in.Calls) == 1 && in.Calls[0].Op.Template != tpl && in.Calls[0].Op.Method == "OPTIONS" {
						// the preflight of a path without OPTIONS was served by a less literal
						// template's own OPTIONS operation; where the two templates part decides
						// which code path did it
						// (the operation that actually ran: there may be several candidates)
						ts, os := strings.Split(tpl, "/"), strings.Split(in.Calls[0].Op.Template, "/")
						div := len(ts) - 1
						for i := range ts {
							if i < len(os) && ts[i] != os[i] {
								div = i
								break
							}
						}
						if div == len(ts)-1 {
							kind = "cors:no-cors:served-by-sibling-options:last-segment"
						} else {
							kind = "cors:no-cors:served-by-sibling-options:earlier-segment"
						}
					}
					f := res.Failure{Property: "C17", Kind: kind, Clause: "cors",
						Detail: fmt.Sprintf("path %s (cors=%v, handler set=%v, own OPTIONS=%v) expected methods %v headers %v: %s", tpl, p.Cfg.Cors, handlerSet, ownOptions, wantM, wantH, fail),
						Replay: p.SpecReplay(map[string]any{"request.txt": "OPTIONS " + path})}
					if !FailOrKnown(p, e, r, f) {
						return
					}
				} else if state == "preflight" {
					r.Sample(map[string]any{"path": tpl, "methods": wantM, "headers": wantH, "verdict": "CORS handler got exactly these sets"}, 5)
				}
			}
		}
	}
}

func sameSet(got, want []string) bool {
	if len(got) != len(want) {
		return false // duplicates are not allowed
	}
	g := append([]string{}, got...)
	w := append([]string{}, want...)
	sort.Strings(g)
	sort.Strings(w)
	for i := range g {
		if g[i] != w[i] {
			return false
		}
	}
	return true
}

var _ = url.Values{}
